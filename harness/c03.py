"""C03 operator call protocol: translator + correspondence + probes."""
import json
import os

import numpy as np

from . import common as C
from translate import call_bodies as T

PID = 'C03'
SHARD_SIZE = 150
RULE = ('random operator trees (depth 0..3/4) over the 9 expression classes of operator.py and translated / '
        'primitive leaves (Scaling, Identity, Zero, Constant, Multiply, 12 proximal-factory variants, Matrix, ufunc absolute/square, RealPart, '
        'InnerProduct, L2NormSquared, harness-defined in-place-only / out-of-place-only matrix operators), '
        'sizes 2..4 and 100..130 (both lincomb regimes), user-supplied or fresh temporaries; each tree is called '
        'out-of-place and in-place (out NaN-filled or random), with x an element / list / ndarray / foreign-space '
        'element / None / junk and out possibly outside the range; product-space operators (ProductSpaceOperator incl. '
        'empty rows, Diagonal, Broadcast, Reduction, ComponentProjection(Adjoint)) with NaN-filled / random parts of out; '
        'a case is non-trivial when the call reaches a '
        '_call body; distinct by (tree signature, sizes, call mode, argument kinds)')
ASSUMPTIONS = ['exact arithmetic: entries and scalars are small integers / dyadic rationals, results compared with '
               'tolerance 1e-12; NaN and uninitialised memory are one absorbing value (None)',
               'sizes below THRESHOLD_MEDIUM only (the BLAS regime of _lincomb_impl is not modelled)',
               'space.element(v) of a foreign element or ndarray is modelled as a copy (NumPy may share memory)',
               'flat real tensor spaces only in the Coq model; product spaces, complex dtypes, discretized '
               'spaces and all other leaf classes are covered by probes (measured contract), not by the model']
TRUSTED = ['translate/call_bodies.py (Python ast -> C03/Syntax.v terms), fail-closed (incl.: a body that writes to x)',
           'C03/Model.v interpreter of the body language and hand-written model of LinearSpace arithmetic '
           '(lincomb regimes, multiply, copy), validated by the correspondence',
           'harness/c03.py tree generator and constructor-recipe registry']


def translate():
    return {'Gen/C03Bodies.v': T.translate()}


# --------------------------------------------------------------------- literals
def oqs(xs):
    return C.lst([C.oq(float(v)) for v in xs])


def sp_term(sp):
    return '(%d, %d)%%nat' % sp


def rsp_term(r):
    return 'RField' if r == 'F' else '(RSp %s)' % sp_term(r)


def nats_opt(l):
    return C.lst(['None' if i is None else '(Some %d%%nat)' % i for i in l])


# ------------------------------------------------------------------ tree builder
class Reg(object):
    """Objects that exist before the call; identity = index."""

    def __init__(self):
        self.objs = []
        self.sps = []

    def add(self, el, sp):
        self.objs.append(el)
        self.sps.append(sp)
        return len(self.objs) - 1

    def index_of(self, el):
        for i, o in enumerate(self.objs):
            if o is el:
                return i
        return None

    def store_term(self):
        return C.lst(['(%s, %s)' % (sp_term(sp), oqs(np.asarray(o).ravel())) for o, sp in zip(self.objs, self.sps)])

    def snapshot(self):
        return [np.array(np.asarray(o).ravel(), copy=True) for o in self.objs]


_SPACES = {}


def space_of(sp):
    import odl
    if sp not in _SPACES:
        n, tag = sp
        _SPACES[sp] = odl.rn(n) if tag == 0 else odl.rn(n, weighting=float(tag + 1))
    return _SPACES[sp]


def weight_of(sp):
    return 1.0 if sp[1] == 0 else float(sp[1] + 1)


_CUSTOM = {}


def custom_classes():
    """Harness-defined leaves exercising the three dispatch outcomes on the real Operator base."""
    import odl
    if _CUSTOM:
        return _CUSTOM

    class IpMat(odl.Operator):
        def __init__(self, M, dom, ran):
            super(IpMat, self).__init__(dom, ran, linear=True)
            self.M = M

        def _call(self, x, out):
            out[:] = self.M.dot(x.asarray())

    class OopMat(odl.Operator):
        def __init__(self, M, dom, ran):
            super(OopMat, self).__init__(dom, ran, linear=True)
            self.M = M

        def _call(self, x):
            return self.M.dot(x.asarray())

    class BothMat(odl.Operator):
        def __init__(self, M, dom, ran):
            super(BothMat, self).__init__(dom, ran, linear=True)
            self.M = M

        def _call(self, x, out=None):
            if out is None:
                return self.range.element(self.M.dot(x.asarray()))
            out[:] = self.M.dot(x.asarray())
            return out

    class KwBothMat(odl.Operator):
        def __init__(self, M, dom, ran):
            super(KwBothMat, self).__init__(dom, ran, linear=True)
            self.M = M

        def _call(self, x, *, out=None):
            if out is None:
                return self.M.dot(x.asarray())
            out[:] = self.M.dot(x.asarray())

    class IpMatBadRet(odl.Operator):
        def __init__(self, M, dom, ran):
            super(IpMatBadRet, self).__init__(dom, ran, linear=True)
            self.M = M

        def _call(self, x, out):
            out[:] = self.M.dot(x.asarray())
            return x

    _CUSTOM.update(IpMat=IpMat, OopMat=OopMat, BothMat=BothMat, KwBothMat=KwBothMat, IpMatBadRet=IpMatBadRet)
    return _CUSTOM


SCALARS = [0.0, 1.0, -1.0, 2.0, 0.5, -3.0, 4.0]
PROX_LEAVES = ['prox_l1', 'prox_l1_g', 'prox_cc_l1', 'prox_cc_l1_g', 'prox_l2sq', 'prox_l2sq_g', 'prox_cc_l2sq',
               'prox_cc_l2sq_g', 'box_both', 'box_lower', 'box_upper', 'box_none']


def rvec(rng, n):
    return [float(rng.randint(-4, 4)) for _ in range(n)]


class Node(object):
    def __init__(self, op, coq, dom, ran, sig):
        self.op, self.coq, self.dom, self.ran, self.sig = op, coq, dom, ran, sig


def leaf_term(kind, fun, dom, ran, alias=False, quirk='QNone'):
    return ('(Lf {| lf_kind := %s; lf_fun := %s; lf_alias := %s; lf_quirk := %s |} %s %s)'
            % (kind, fun, C.b(alias), quirk, sp_term(dom), rsp_term(ran)))


def op_term(cls, dom, ran, pars=(), vecs=(), owns=(), kids=()):
    return ('(Op cls_%s %s %s %s %s %s %s)'
            % (cls, sp_term(dom), rsp_term(ran), oqs(pars), C.lst(['%d%%nat' % v for v in vecs]),
               nats_opt(owns), C.lst([k.coq for k in kids])))


def gen_leaf(rng, reg, dom, ran, big):
    import odl
    D = space_of(dom)
    n = dom[0]
    if ran == 'F':
        c = rng.choice(['inner', 'sumsq'])
        w = weight_of(dom)
        if c == 'inner':
            v = rvec(rng, n)
            vi_el = D.element(v)
            op = odl.InnerProductOperator(vi_el)
            return Node(op, leaf_term('KOop', '(PInner %s)' % oqs([w * t for t in v]), dom, ran), dom, ran, 'inner')
        op = odl.solvers.L2NormSquared(D)
        # weighted: ||x||^2 = w * sum x^2  -> model as inner with itself is not linear; use PSumSq only unweighted
        if w != 1.0:
            v = rvec(rng, n)
            op = odl.InnerProductOperator(D.element(v))
            return Node(op, leaf_term('KOop', '(PInner %s)' % oqs([w * t for t in v]), dom, ran), dom, ran, 'inner')
        return Node(op, leaf_term('KOop', 'PSumSq', dom, ran), dom, ran, 'sumsq')
    R = space_of(ran)
    m = ran[0]
    choices = ['matrix', 'ipmat', 'oopmat', 'bothmat', 'kwbothmat'] if not big else []
    if not big and rng.random() < 0.06:
        choices = ['ipmat_badret', 'oopmat_wrongsize']
    if dom != ran:
        choices += ['zero_diff']
    if dom == ran:
        choices += ['scaling', 'identity', 'zero_same', 'constant', 'multiply', 'abs', 'square', 'realpart',
                    'scaling', 'multiply', 'constant'] + PROX_LEAVES
    else:
        choices += ['constant2']
    c = rng.choice(choices)
    if c == 'ipmat_badret':
        M = np.array([[float(rng.randint(-2, 2)) for _ in range(n)] for _ in range(m)])
        mt = '(PMat %s)' % C.lst([oqs(r) for r in M.tolist()])
        return Node(custom_classes()['IpMatBadRet'](M, D, R), leaf_term('KIp', mt, dom, ran, quirk='QReturnsX'),
                    dom, ran, c)
    if c == 'oopmat_wrongsize':
        M = np.array([[float(rng.randint(-2, 2)) for _ in range(n)] for _ in range(m + 1)])
        mt = '(PMat %s)' % C.lst([oqs(r) for r in M.tolist()])
        return Node(custom_classes()['OopMat'](M, D, R), leaf_term('KOop', mt, dom, ran), dom, ran, c)
    if c in ('matrix', 'ipmat', 'oopmat', 'bothmat', 'kwbothmat'):
        M = np.array([[float(rng.randint(-2, 2)) for _ in range(n)] for _ in range(m)])
        mt = '(PMat %s)' % C.lst([oqs(r) for r in M.tolist()])
        if c == 'matrix':
            if dom[1] != ran[1]:
                op = odl.MatrixOperator(M, domain=D, range=R)
            else:
                op = odl.MatrixOperator(M, domain=D, range=R)
            return Node(op, leaf_term('KBoth', mt, dom, ran), dom, ran, c)
        cl = custom_classes()
        kind = {'ipmat': ('IpMat', 'KIp'), 'oopmat': ('OopMat', 'KOop'), 'bothmat': ('BothMat', 'KBoth'),
                'kwbothmat': ('KwBothMat', 'KBoth')}[c]
        return Node(cl[kind[0]](M, D, R), leaf_term(kind[1], mt, dom, ran), dom, ran, c)
    if c == 'zero_diff':
        return Node(odl.ZeroOperator(D, R), op_term('ZeroOperator_diff', dom, ran), dom, ran, c)
    if c == 'constant2':
        v = rvec(rng, m)
        el = R.element(v)
        i = reg.add(el, ran)
        op = odl.ConstantOperator(el, domain=D, range=R)
        # ConstantOperator stores range.element(constant) = the same object
        assert op.constant is el
        return Node(op, op_term('ConstantOperator', dom, ran, vecs=[i]), dom, ran, c)
    if c in PROX_LEAVES:
        P = odl.solvers.nonsmooth.proximal_operators
        sig = rng.choice([0.5, 1.0, 2.0, 4.0])
        lam = rng.choice([0.5, 1.0, 2.0])
        vecs = []
        kw = {}
        if c.endswith('_g'):
            el = D.element(rvec(rng, n))
            vecs = [reg.add(el, dom)]
            kw['g'] = el
        if c.startswith('box'):
            lo, hi = -1.0, 2.0
            args = {'box_both': dict(lower=lo, upper=hi), 'box_lower': dict(lower=lo), 'box_upper': dict(upper=hi),
                    'box_none': dict()}[c]
            op = P.proximal_box_constraint(D, **args)(sig)
            cls = {'box_both': 'ProxBox_both', 'box_lower': 'ProxBox_lower', 'box_upper': 'ProxBox_upper',
                   'box_none': 'ProxBox_none'}[c]
            return Node(op, op_term(cls, dom, ran, pars=[lo, hi]), dom, ran, c)
        fac, cls = {'prox_l1': ('proximal_l1', 'ProximalL1'), 'prox_cc_l1': ('proximal_convex_conj_l1', 'ProximalConvexConjL1'),
                    'prox_l2sq': ('proximal_l2_squared', 'ProximalL2Squared'),
                    'prox_cc_l2sq': ('proximal_convex_conj_l2_squared', 'ProximalConvexConjL2Squared')}[
                        c[:-2] if c.endswith('_g') else c]
        op = getattr(P, fac)(D, lam=lam, **kw)(sig)
        return Node(op, op_term(cls + ('_g' if c.endswith('_g') else ''), dom, ran, pars=[sig, lam], vecs=vecs),
                    dom, ran, (c, sig, lam))
    if c == 'scaling':
        s = rng.choice(SCALARS)
        return Node(odl.ScalingOperator(D, s), op_term('ScalingOperator', dom, ran, pars=[s]), dom, ran, c)
    if c == 'identity':
        return Node(odl.IdentityOperator(D), op_term('ScalingOperator', dom, ran, pars=[1.0]), dom, ran, c)
    if c == 'zero_same':
        return Node(odl.ZeroOperator(D), op_term('ZeroOperator_same', dom, ran), dom, ran, c)
    if c == 'constant':
        v = rvec(rng, n)
        el = D.element(v)
        i = reg.add(el, dom)
        op = odl.ConstantOperator(el)
        assert op.constant is el
        return Node(op, op_term('ConstantOperator', dom, ran, vecs=[i]), dom, ran, c)
    if c == 'multiply':
        v = rvec(rng, n)
        el = D.element(v)
        i = reg.add(el, dom)
        op = odl.MultiplyOperator(el)
        assert op.multiplicand is el
        return Node(op, op_term('MultiplyOperator', dom, ran, vecs=[i]), dom, ran, c)
    if c == 'abs':
        return Node(odl.ufunc_ops.absolute(D), leaf_term('KBoth', 'PAbs', dom, ran), dom, ran, c)
    if c == 'square':
        return Node(odl.ufunc_ops.square(D), leaf_term('KBoth', 'PSquare', dom, ran), dom, ran, c)
    if c == 'realpart':
        return Node(odl.RealPart(D), leaf_term('KOop', 'PIdent', dom, ran, alias=True), dom, ran, c)
    raise AssertionError(c)


def mid_space(rng, big, like):
    if big:
        return like
    return (rng.choice([1, 2, 3, 4]), like[1])


def gen_tree(rng, reg, depth, dom, ran, big=False):
    """Random operator dom -> ran of the given depth; returns Node."""
    import odl
    from odl.operator import operator as O
    if depth == 0:
        return gen_leaf(rng, reg, dom, ran, big)
    D = space_of(dom)
    kinds = ['sum', 'comp', 'pprod', 'lscal', 'rscal', 'rvec']
    if ran != 'F':
        kinds += ['vecsum', 'lvec', 'flvec', 'sum', 'comp']
    c = rng.choice(kinds)
    d1 = rng.randint(0, depth - 1)
    d2 = rng.randint(0, depth - 1)
    if c == 'sum':
        l = gen_tree(rng, reg, d1, dom, ran, big)
        r = gen_tree(rng, reg, d2, dom, ran, big)
        owns = [None, None]
        kw = {}
        if ran != 'F' and rng.random() < 0.3:
            t = space_of(ran).element([np.nan] * ran[0])
            owns[0] = reg.add(t, ran)
            kw['tmp_ran'] = t
        if rng.random() < 0.15:
            t = D.element([np.nan] * dom[0])
            owns[1] = reg.add(t, dom)
            kw['tmp_dom'] = t
        op = O.OperatorSum(l.op, r.op, **kw)
        return Node(op, op_term('OperatorSum', dom, ran, owns=owns, kids=[l, r]), dom, ran,
                    ('sum', l.sig, r.sig, tuple(o is not None for o in owns)))
    if c == 'vecsum':
        a = gen_tree(rng, reg, d1, dom, ran, big)
        el = space_of(ran).element(rvec(rng, ran[0]))
        i = reg.add(el, ran)
        op = O.OperatorVectorSum(a.op, el)
        assert op.vector is el
        return Node(op, op_term('OperatorVectorSum', dom, ran, vecs=[i], kids=[a]), dom, ran, ('vecsum', a.sig))
    if c == 'comp':
        mid = mid_space(rng, big, dom)
        r = gen_tree(rng, reg, d2, dom, mid, big)
        l = gen_tree(rng, reg, d1, mid, ran, big)
        owns = [None]
        kw = {}
        if rng.random() < 0.3:
            t = space_of(mid).element([np.nan] * mid[0])
            owns[0] = reg.add(t, mid)
            kw['tmp'] = t
        op = O.OperatorComp(l.op, r.op, **kw)
        return Node(op, op_term('OperatorComp', dom, ran, owns=owns, kids=[l, r]), dom, ran,
                    ('comp', l.sig, r.sig, owns[0] is not None))
    if c == 'pprod':
        l = gen_tree(rng, reg, d1, dom, ran, big)
        r = gen_tree(rng, reg, d2, dom, ran, big)
        op = O.OperatorPointwiseProduct(l.op, r.op)
        return Node(op, op_term('OperatorPointwiseProduct', dom, ran, kids=[l, r]), dom, ran, ('pprod', l.sig, r.sig))
    if c == 'lscal':
        a = gen_tree(rng, reg, d1, dom, ran, big)
        s = rng.choice(SCALARS)
        op = O.OperatorLeftScalarMult(a.op, s)
        if isinstance(a.op, O.OperatorLeftScalarMult):
            # __init__ merges the scalars and drops one level; mirror it
            inner = a.kid0
            s_eff = s * a.par0
            n = Node(op, op_term('OperatorLeftScalarMult', dom, ran, pars=[s_eff], kids=[inner]), dom, ran,
                     ('lscal', inner.sig, s_eff))
            n.kid0, n.par0 = inner, s_eff
            return n
        n = Node(op, op_term('OperatorLeftScalarMult', dom, ran, pars=[s], kids=[a]), dom, ran, ('lscal', a.sig, s))
        n.kid0, n.par0 = a, s
        return n
    if c == 'rscal':
        a = gen_tree(rng, reg, d1, dom, ran, big)
        s = rng.choice(SCALARS)
        owns = [None]
        kw = {}
        if rng.random() < 0.3:
            t = D.element([np.nan] * dom[0])
            owns[0] = reg.add(t, dom)
            kw['tmp'] = t
        op = O.OperatorRightScalarMult(a.op, s, **kw)
        if isinstance(a.op, O.OperatorRightScalarMult):
            inner = a.kid0
            s_eff = s * a.par0
            n = Node(op, op_term('OperatorRightScalarMult', dom, ran, pars=[s_eff], owns=owns, kids=[inner]),
                     dom, ran, ('rscal', inner.sig, s_eff, owns[0] is not None))
            n.kid0, n.par0 = inner, s_eff
            return n
        n = Node(op, op_term('OperatorRightScalarMult', dom, ran, pars=[s], owns=owns, kids=[a]), dom, ran,
                 ('rscal', a.sig, s, owns[0] is not None))
        n.kid0, n.par0 = a, s
        return n
    if c == 'lvec':
        a = gen_tree(rng, reg, d1, dom, ran, big)
        el = space_of(ran).element(rvec(rng, ran[0]))
        i = reg.add(el, ran)
        op = O.OperatorLeftVectorMult(a.op, el)
        return Node(op, op_term('OperatorLeftVectorMult', dom, ran, vecs=[i], kids=[a]), dom, ran, ('lvec', a.sig))
    if c == 'rvec':
        a = gen_tree(rng, reg, d1, dom, ran, big)
        el = D.element(rvec(rng, dom[0]))
        i = reg.add(el, dom)
        op = O.OperatorRightVectorMult(a.op, el)
        return Node(op, op_term('OperatorRightVectorMult', dom, ran, vecs=[i], kids=[a]), dom, ran, ('rvec', a.sig))
    if c == 'flvec':
        f = gen_tree(rng, reg, d1, dom, 'F', big)
        el = space_of(ran).element(rvec(rng, ran[0]))
        i = reg.add(el, ran)
        op = O.FunctionalLeftVectorMult(f.op, el)
        return Node(op, op_term('FunctionalLeftVectorMult', dom, ran, vecs=[i], kids=[f]), dom, ran, ('flvec', f.sig))
    raise AssertionError(c)


# ------------------------------------------------------------------ running a case
def classify_exc(e):
    from odl.operator.operator import OpDomainError, OpRangeError
    if isinstance(e, OpDomainError):
        return 'EDomain'
    if isinstance(e, OpRangeError):
        return 'ERange'
    if isinstance(e, TypeError):
        return 'EFunctionalOut'
    if isinstance(e, ValueError):
        return 'EBadReturn'
    return 'EOther'


def run_call(node, reg, x_py, out_py, use_out):
    """Run the real call; returns (iout term, post term)."""
    from odl.set.space import LinearSpaceElement
    try:
        r = node.op(x_py, out=out_py) if use_out else node.op(x_py)
    except Exception as e:      # noqa
        return 'IErr %s' % classify_exc(e), C.lst([oqs(d) for d in reg.snapshot()])
    post = C.lst([oqs(d) for d in reg.snapshot()])
    if isinstance(r, LinearSpaceElement):
        i = reg.index_of(r)
        ident = 'None' if i is None else '(Some %d%%nat)' % i
        return 'IElem %s %s' % (ident, oqs(np.asarray(r).ravel())), post
    if isinstance(r, (float, int, complex, np.floating, np.integer)):
        return 'ISc %s' % C.oq(float(np.real(r))), post
    return 'IOther', post


def make_case(rng, depth, big, mode):
    """mode: oop | ip_nan | ip_rand | xlist | xarr | xforeign | xnone | xjunk | xwrong |
             out_foreign | out_wrongsize | out_array | out_scalar | f_out_elem | f_out_scalar"""
    reg = Reg()
    n = rng.choice([100, 101, 130]) if big else rng.choice([2, 3, 3, 4])
    tag = 0 if rng.random() < 0.8 else 1
    dom = (n, tag)
    functional = mode in ('f_out_elem', 'f_out_scalar') or (mode == 'oop' and rng.random() < 0.2)
    if functional:
        ran = 'F'
    else:
        ran = dom if (big or rng.random() < 0.6) else (rng.choice([2, 3, 4]), tag)
    # x and out come first in the registry
    D = space_of(dom)
    xdata = rvec(rng, n)
    x_el = D.element(xdata)
    x_term = None
    if mode == 'xlist':
        x_py, x_term = list(xdata), '(VArr %s)' % oqs(xdata)
    elif mode == 'xarr':
        x_py, x_term = np.array(xdata), '(VArr %s)' % oqs(xdata)
    elif mode == 'xforeign':
        fsp = (n, 1 - tag)
        x_py = space_of(fsp).element(xdata)
        x_term = '(VElem %d%%nat)' % reg.add(x_py, fsp)
    elif mode == 'xnone':
        x_py, x_term = None, 'VNone'
    elif mode == 'xjunk':
        x_py, x_term = 'abc', 'VJunk'
    elif mode == 'xwrong':
        if rng.random() < 0.5:
            x_py = list(xdata) + [1.0]
            x_term = '(VArr %s)' % oqs(x_py)
        else:
            wsp = (n + 1, tag)
            x_py = space_of(wsp).element(xdata + [1.0])
            x_term = '(VElem %d%%nat)' % reg.add(x_py, wsp)
    else:
        x_py = x_el
        x_term = '(VElem %d%%nat)' % reg.add(x_el, dom)
    use_out = mode in ('ip_nan', 'ip_rand', 'out_foreign', 'out_wrongsize', 'out_array', 'out_scalar',
                       'f_out_elem', 'f_out_scalar') or (mode.startswith('x') and rng.random() < 0.4 and ran != 'F')
    out_py, out_term = None, 'None'
    if use_out:
        if ran == 'F':
            if mode == 'f_out_scalar':
                out_py, out_term = 5.0, '(Some (VSc %s))' % C.oq(5.0)
            else:
                out_py = D.element([np.nan] * n)
                out_term = '(Some (VElem %d%%nat))' % reg.add(out_py, dom)
        else:
            m = ran[0]
            if mode == 'out_foreign':
                osp = (m, 1 - ran[1])
            elif mode == 'out_wrongsize':
                osp = (m + 1, ran[1])
            else:
                osp = ran
            if mode == 'out_array':
                out_py, out_term = np.zeros(m), '(Some (VArr %s))' % oqs([0.0] * m)
            elif mode == 'out_scalar':
                out_py, out_term = 5.0, '(Some (VSc %s))' % C.oq(5.0)
            else:
                init = rvec(rng, osp[0]) if mode == 'ip_rand' else [np.nan] * osp[0]
                out_py = space_of(osp).element(init)
                out_term = '(Some (VElem %d%%nat))' % reg.add(out_py, osp)
    node = gen_tree(rng, reg, depth, dom, ran, big)
    store = reg.store_term()
    res, post = run_call(node, reg, x_py, out_py, use_out)
    term = ('{| k_store := %s;\n     k_op := %s;\n     k_x := %s; k_out := %s;\n     k_res := %s;\n     k_post := %s; k_cmp := %s |}'
            % (store, node.coq, x_term, out_term, res, post, C.b(mode != 'xnone')))
    desc = {'mode': mode, 'dom': dom, 'ran': ran, 'tree': repr(node.sig)[:300], 'result': res[:60]}
    key = (mode, dom, ran if ran == 'F' else tuple(ran), repr(node.sig), use_out)
    return term, desc, key


MODES = ['oop', 'ip_nan', 'ip_rand', 'oop', 'ip_nan', 'ip_nan', 'xlist', 'xarr', 'xforeign', 'xnone', 'xjunk',
         'xwrong', 'out_foreign', 'out_wrongsize', 'out_array', 'out_scalar', 'f_out_elem', 'f_out_scalar']


def kind_cases():
    """Dispatch kind of every class of the anchored files: table from the source vs Operator.__new__."""
    import importlib
    import inspect
    from odl.operator import Operator
    cs = C.CaseSet('kinds', ['C03.Syntax', 'Gen.C03Bodies', 'C03.Model', 'C03.Corr'], 'kcheck', 'kcase')
    seen = set()
    for src in T.ANCHORED:
        mod = importlib.import_module(src[:-3].replace('/', '.'))
        for name, obj in sorted(vars(mod).items()):
            if not (inspect.isclass(obj) and issubclass(obj, Operator)) or obj.__module__ != mod.__name__:
                continue
            if '_call' not in obj.__dict__ or obj in seen:
                continue
            seen.add(obj)
            # Operator.__new__ sets the flags on first instantiation; ask the real dispatcher instead
            from odl.operator.operator import _dispatch_call_args
            try:
                has_out, out_optional, _ = _dispatch_call_args(obj)
            except Exception:
                continue
            cs.add('{| kc_name := "%s"%%string; kc_has_out := %s; kc_out_optional := %s |}'
                   % (name, C.b(has_out), C.b(out_optional)),
                   {'class': name, 'has_out': has_out, 'out_optional': out_optional}, ('kind', name))
    return cs


def prox_cases(rng, tier):
    """proximal_l2(space)(sigma) in the branch sigma*lam >= ||x|| (translated body: out.set_zero()).
    Out-of-place calls on fewer than THRESHOLD_SMALL entries read uninitialised memory and are
    not deterministic (finding set-zero-reads-out): they are probed, not compared."""
    import odl
    cs = C.CaseSet('prox_l2_bigstep', ['C03.Syntax', 'Gen.C03Bodies', 'C03.Poison', 'C03.Model', 'C03.Corr'],
                   'check', 'case')
    sizes = [1, 2, 3, 7, 99, 100, 101, 130] if tier == 'quick' else [1, 2, 3, 5, 7, 50, 98, 99, 100, 101, 102, 130, 200]
    for n in sizes:
        for tag in (0, 1):
            for mode in ('ip_nan', 'ip_rand', 'ip_partnan', 'oop'):
                if mode == 'oop' and n < 100:
                    continue
                sp = (n, tag)
                D = space_of(sp)
                reg = Reg()
                xdata = rvec(rng, n) if rng.random() < 0.8 else [0.0] * n
                x = D.element(xdata)
                xi = reg.add(x, sp)
                out_py, out_term = None, 'None'
                if mode != 'oop':
                    init = {'ip_nan': [np.nan] * n, 'ip_rand': rvec(rng, n),
                            'ip_partnan': [np.nan if i % 2 else 1.0 for i in range(n)]}[mode]
                    out_py = D.element(init)
                    out_term = '(Some (VElem %d%%nat))' % reg.add(out_py, sp)
                op = odl.solvers.proximal_l2(D)(1000.0)
                node = Node(op, op_term('ProximalL2_bigstep', sp, sp), sp, sp, 'prox_l2_bigstep')
                store = reg.store_term()
                res, post = run_call(node, reg, x, out_py, mode != 'oop')
                term = ('{| k_store := %s;\n     k_op := %s;\n     k_x := (VElem %d%%nat); k_out := %s;\n'
                        '     k_res := %s;\n     k_post := %s; k_cmp := true |}'
                        % (store, node.coq, xi, out_term, res, post))
                cs.add(term, {'op': 'proximal_l2(space)(1000.0)', 'n': n, 'tag': tag, 'mode': mode,
                              'result': res[:60]}, ('prox', n, tag, mode))
    return cs


SIGS = ['self, x', 'self, x, out', 'self, x, out=None', 'self, x, *, out=None', 'self, x, *, out=1',
        'self, out', 'self, out, x', 'self, x, y', 'self, x, out=1', 'self, x=None, out=None', 'self, x, *args',
        'self, x, out, *args', 'self', 'self, x, out, z', 'self, x, **kwargs', 'self, x, out, **kwargs',
        'self, x, out=None, **kwargs', 'self, x, *, out=None, **kwargs', 'self, x, *, other=None',
        'self, y', 'self, y, out', 'self, x, OUT', 'self, x=3', 'self, x, *, out']


def dispatch_cases():
    """The real _dispatch_call_args on classes with every signature shape vs the Coq decision table."""
    import inspect
    from odl.operator.operator import _dispatch_call_args
    cs = C.CaseSet('dispatch', ['C03.Syntax', 'Gen.C03Bodies', 'C03.Model', 'C03.Corr'], 'dcheck', 'dcase')
    for sig in SIGS:
        env = {}
        exec('class K(object):\n    def _call(%s):\n        pass\n' % sig, env)
        K = env['K']
        try:
            has_out, out_optional, _ = _dispatch_call_args(K)
            res = '(Some (%s, %s))' % (C.b(has_out), C.b(out_optional))
        except ValueError:
            res = 'None'
        except (TypeError, KeyError):
            # `_call(self, x, *, out)` (keyword-only out WITHOUT default) makes the dispatcher itself crash
            # on kw_only_defaults['out']; not a call-protocol matter, kept out of the table (see notes)
            continue
        sp = inspect.getfullargspec(K._call)
        pos = sp.args[1:]
        ndef = len(sp.defaults or ())
        last_none = bool(sp.defaults) and sp.defaults[-1] is None
        if 'out' in sp.kwonlyargs:
            kd = (sp.kwonlydefaults or {}).get('out', 'nodefault')
            kwout = '(Some %s)' % C.b(kd is None)
            if kd == 'nodefault':
                kwout = None
        else:
            kwout = 'None'
        if kwout is None:
            # keyword-only out without default: the real code raises KeyError; keep it out of the table
            continue
        term = ('{| dc_sig := {| s_pos := %s; s_ndef := %d; s_last_none := %s; s_vararg := %s; s_kwout := %s |}; '
                'dc_res := %s |}' % (C.lst(['"%s"%%string' % a for a in pos]), ndef, C.b(last_none),
                                     C.b(sp.varargs is not None), kwout, res))
        cs.add(term, {'signature': '_call(%s)' % sig, 'result': res}, ('sig', sig))
    return cs


def entry_term(i, j, node):
    return '{| en_row := %d; en_col := %d; en_op := %s |}' % (i, j, node.coq)


def _parts_result(reg, r):
    """iout-like description of a product (or flat) result: list of (identity, data)."""
    import odl
    parts = list(r) if isinstance(r.space, odl.ProductSpace) else [r]
    out = []
    for p in parts:
        i = reg.index_of(p)
        out.append('(%s, %s)' % ('None' if i is None else '(Some %d%%nat)' % i, oqs(np.asarray(p).ravel())))
    return 'POk %s' % C.lst(out)


def pspace_cases(rng, tier):
    """ProductSpaceOperator / Diagonal / Broadcast / Reduction / ComponentProjection(Adjoint) against
    C03/PModel.v: in-place with NaN-filled or random parts of out, out-of-place, non-member arguments."""
    import odl
    cs = C.CaseSet('pspace', ['C03.Syntax', 'Gen.C03Bodies', 'C03.Poison', 'C03.Model', 'C03.PModel', 'C03.Corr'],
                   'pcheck', 'pcase')
    N = 90 if tier == 'quick' else 600
    kinds = ['pso', 'pso', 'pso', 'diag', 'broadcast', 'reduction', 'proj', 'projadj']
    modes = ['oop', 'ip_nan', 'ip_rand', 'ip_nan', 'bad_x', 'bad_out']
    for k in range(N):
        kind = kinds[k % len(kinds)]
        mode = modes[(k // len(kinds)) % len(modes)]
        big = rng.random() < 0.12
        reg = Reg()

        def sp():
            return (rng.choice([100, 101]) if big else rng.choice([2, 3, 4]), 0)

        def prod_el(sps, fill):
            parts = []
            for q in sps:
                d = [np.nan] * q[0] if fill == 'nan' else rvec(rng, q[0])
                e = space_of(q).element(d)
                reg.add(e, q)
                parts.append(e)
            return parts
        depth = rng.choice([0, 0, 1])
        if kind in ('pso', 'diag'):
            nr, nc = (rng.choice([(1, 1), (2, 2), (2, 3), (3, 2), (1, 3)]) if kind == 'pso' else (2, 2))
            if kind == 'diag':
                nr = nc = rng.choice([1, 2, 3])
            doms = [sp() for _ in range(nc)]
            rans = [sp() for _ in range(nr)]
            xs = prod_el(doms, 'rand')
            outs = prod_el(rans, 'nan' if mode == 'ip_nan' else 'rand') if mode.startswith('ip') or mode == 'bad_out' else None
            nodes = {}
            if kind == 'diag':
                ops = []
                for i in range(nr):
                    nodes[(i, i)] = gen_tree(rng, reg, depth, doms[i], rans[i], big)
                    ops.append(nodes[(i, i)].op)
                D = odl.ProductSpace(*[space_of(q) for q in doms])
                R = odl.ProductSpace(*[space_of(q) for q in rans])
                op = odl.DiagonalOperator(*ops, domain=D, range=R)
            else:
                mat = [[None] * nc for _ in range(nr)]
                for i in range(nr):
                    for j in range(nc):
                        if rng.random() < 0.6:
                            nodes[(i, j)] = gen_tree(rng, reg, depth, doms[j], rans[i], big)
                            mat[i][j] = nodes[(i, j)].op
                D = odl.ProductSpace(*[space_of(q) for q in doms])
                R = odl.ProductSpace(*[space_of(q) for q in rans])
                if not nodes:
                    nodes[(0, 0)] = gen_tree(rng, reg, depth, doms[0], rans[0], big)
                    mat[0][0] = nodes[(0, 0)].op
                op = odl.ProductSpaceOperator(mat, domain=D, range=R)
            ents = [entry_term(int(i), int(j), nodes[(int(i), int(j))])
                    for i, j in zip(op.ops.row, op.ops.col)]
            for (i, j), o in zip(zip(op.ops.row, op.ops.col), op.ops.data):
                assert nodes[(int(i), int(j))].op is o
            kterm = '(PKpso %s %s %s)' % (C.lst(ents), C.lst([sp_term(q) for q in doms]), C.lst([sp_term(q) for q in rans]))
            x_py = D.element(xs)
            x_ids = [reg.index_of(p) for p in xs]
            if mode == 'bad_x':
                extra = space_of(doms[0]).element(rvec(rng, doms[0][0]))
                reg.add(extra, doms[0])
                x_py = odl.ProductSpace(*[space_of(q) for q in doms + [doms[0]]]).element(xs + [extra])
                x_ids = x_ids + [reg.index_of(extra)]
            out_py = R.element(outs) if outs is not None else None
            out_ids = [reg.index_of(p) for p in outs] if outs is not None else None
            if mode == 'bad_out':
                wrong = [(q[0] + 1, 0) for q in rans]
                wouts = prod_el(wrong, 'nan')
                out_py = odl.ProductSpace(*[space_of(q) for q in wrong]).element(wouts)
                out_ids = [reg.index_of(p) for p in wouts]
        elif kind == 'broadcast':
            dom = sp()
            n_ops = rng.choice([1, 2, 3])
            rans = [sp() for _ in range(n_ops)]
            x_el = space_of(dom).element(rvec(rng, dom[0]))
            x_ids = [reg.add(x_el, dom)]
            outs = prod_el(rans, 'nan' if mode == 'ip_nan' else 'rand') if mode.startswith('ip') or mode == 'bad_out' else None
            nodes = [gen_tree(rng, reg, depth, dom, r, big) for r in rans]
            op = odl.BroadcastOperator(*[nd.op for nd in nodes])
            kterm = '(PKbroadcast %s %s %s)' % (C.lst([nd.coq for nd in nodes]), sp_term(dom), C.lst([sp_term(q) for q in rans]))
            x_py = x_el
            if mode == 'bad_x':
                x_py = space_of((dom[0] + 1, 0)).element(rvec(rng, dom[0] + 1))
                x_ids = [reg.add(x_py, (dom[0] + 1, 0))]
            out_py = op.range.element(outs) if outs is not None else None
            out_ids = [reg.index_of(p) for p in outs] if outs is not None else None
            if mode == 'bad_out':
                wrong = [(q[0] + 1, 0) for q in rans]
                wouts = prod_el(wrong, 'nan')
                out_py = odl.ProductSpace(*[space_of(q) for q in wrong]).element(wouts)
                out_ids = [reg.index_of(p) for p in wouts]
        elif kind == 'reduction':
            ran = sp()
            n_ops = rng.choice([1, 2, 3])
            doms = [sp() for _ in range(n_ops)]
            xs = prod_el(doms, 'rand')
            x_ids = [reg.index_of(p) for p in xs]
            out_py, out_ids = None, None
            if mode.startswith('ip') or mode == 'bad_out':
                osp = (ran[0] + 1, 0) if mode == 'bad_out' else ran
                out_py = space_of(osp).element([np.nan] * osp[0] if mode != 'ip_rand' else rvec(rng, osp[0]))
                out_ids = [reg.add(out_py, osp)]
            nodes = [gen_tree(rng, reg, depth, d, ran, big) for d in doms]
            op = odl.ReductionOperator(*[nd.op for nd in nodes])
            kterm = '(PKreduction %s %s %s)' % (C.lst([nd.coq for nd in nodes]), C.lst([sp_term(q) for q in doms]), sp_term(ran))
            x_py = op.domain.element(xs)
            if mode == 'bad_x':
                extra = space_of(doms[0]).element(rvec(rng, doms[0][0]))
                reg.add(extra, doms[0])
                x_py = odl.ProductSpace(*[space_of(q) for q in doms + [doms[0]]]).element(xs + [extra])
                x_ids = x_ids + [reg.index_of(extra)]
        else:
            n_parts = rng.choice([2, 3])
            common = sp()
            sps = [common] * n_parts
            PS = odl.ProductSpace(space_of(common), n_parts)
            idx = rng.randrange(n_parts)
            if mode in ('bad_x', 'bad_out'):
                mode = 'ip_nan'
            if kind == 'proj':
                xs = prod_el(sps, 'rand')
                x_ids = [reg.index_of(p) for p in xs]
                x_py = PS.element(xs)
                op = odl.ComponentProjection(PS, idx)
                kterm = '(PKproj %d)' % idx
                out_py, out_ids = None, None
                if mode.startswith('ip'):
                    out_py = space_of(common).element([np.nan] * common[0] if mode == 'ip_nan' else rvec(rng, common[0]))
                    out_ids = [reg.add(out_py, common)]
            else:
                x_py = space_of(common).element(rvec(rng, common[0]))
                x_ids = [reg.add(x_py, common)]
                op = odl.ComponentProjectionAdjoint(PS, idx)
                kterm = '(PKprojadj %d %s)' % (idx, C.lst([sp_term(q) for q in sps]))
                out_py, out_ids = None, None
                if mode.startswith('ip'):
                    outs = prod_el(sps, 'nan' if mode == 'ip_nan' else 'rand')
                    out_py = PS.element(outs)
                    out_ids = [reg.index_of(p) for p in outs]
        store = reg.store_term()
        from odl.operator.operator import OpDomainError, OpRangeError
        try:
            r = op(x_py, out=out_py) if out_py is not None else op(x_py)
            res = _parts_result(reg, r)
        except Exception as e:      # noqa
            res = 'PErr %s' % classify_exc(e)
        post = C.lst([oqs(d) for d in reg.snapshot()])
        term = ('{| p_store := %s;\n     p_kind := %s;\n     p_x := %s; p_out := %s;\n     p_res := %s;\n     p_post := %s |}'
                % (store, kterm, C.lst(['%d%%nat' % i for i in x_ids]),
                   'None' if out_ids is None else '(Some %s)' % C.lst(['%d%%nat' % i for i in out_ids]), res, post))
        cs.add(term, {'kind': kind, 'mode': mode, 'big': big, 'result': res[:80]}, (kind, mode, big, k))
    return cs


def correspondence(rng, tier):
    cs = C.CaseSet('trees', ['C03.Syntax', 'Gen.C03Bodies', 'C03.Poison', 'C03.Model', 'C03.Corr'], 'check', 'case')
    nsmall = 420 if tier == 'quick' else 3000
    nbig = 40 if tier == 'quick' else 300
    maxd = 3 if tier == 'quick' else 4
    for k in range(nsmall):
        mode = MODES[k % len(MODES)]
        depth = rng.choice([0, 1, 1, 2, 2, 3][:maxd + 2]) if maxd == 3 else rng.choice([0, 1, 1, 2, 2, 3, 3, 4])
        term, desc, key = make_case(rng, depth, False, mode)
        cs.add(term, desc, key)
    for k in range(nbig):
        mode = ['oop', 'ip_nan', 'ip_rand', 'ip_nan'][k % 4]
        term, desc, key = make_case(rng, rng.choice([0, 1, 2, 2]), True, mode)
        cs.add(term, desc, key)
    return [cs, prox_cases(rng, tier), pspace_cases(rng, tier), kind_cases(), dispatch_cases()]


LEVEL_TEXT = ('Partial proof. Coq proves, for EVERY store, every NaN-free input, every (NaN-filled or not) content of '
              'out and of uninitialised memory: (1) for ANY `_call` implementation, op(x, out=y) can only return y, '
              'op(x) is in op.range, uncastable input / out outside the range / out for a functional are rejected '
              'before any slot runs with the store untouched; (2) both default bridges are correct for all three '
              'dispatch kinds; (3) space.lincomb writes a*x1+b*x2 in both size regimes and all alias patterns; '
              '(4) by structural induction over operator trees of ANY depth built from the nine expression classes '
              '(bodies regenerated from operator.py; fresh or user-supplied temporaries), five translated leaf classes, twelve translated proximal operators and primitive leaves of all three '
              'dispatch kinds incl. alias-returning ones: in-place = out-of-place = the denoted function, result is y / '
              'an element of the range, no other pre-existing object (in particular x) is modified; same for '
              'functional-valued trees; ProductSpaceOperator (any entry list; loop invariants) and ComponentProjectionAdjoint. set_zero (repaired in /repo d3867d7) ignores old contents at every size for the regenerated small-size '
              'branch, hence proximal_l2 (step >= 1) in both modes, empty rows and ComponentProjectionAdjoint. '
              'All other leaf classes (199 of 211 classes + 24 proximal factories + 72 ufuncs x 3 space kinds) are '
              'validated by probes that measure the leaf contract, not proved.')
LEVEL_NOTE = ('Trusted: translate/call_bodies.py (fail-closed ast grammar) and the interpreter of the body language; the '
              'hand-written model of LinearSpace arithmetic (lincomb tree, multiply, copy) validated by 600-3500 exact '
              'differential cases incl. NaN-filled out, user temporaries, foreign-space arguments, error outcomes; exact '
              'arithmetic with one absorbing NaN (rounding, inf, BLAS regime >= 50000 entries out of scope); flat real '
              'tensor spaces in the model. Theorems assume x, out and operator-owned elements are distinct objects and '
              'pairwise distinct from user-supplied temporaries; the refutations show these side '
              'conditions are necessary. The link between the executed instance (option Q) and the proved one (option R) is '
              'proved (Transfer.v), and the hand-written protocol functions are proved equal to interpreters of the '
              'statement lists regenerated from Operator.__call__/__new__/bridges. N-d shapes and memory layout of '
              'elements exist only in the probes (8 shape / precision configurations incl. float32, non-C-contiguous '
              'out/x). ROUNDING is invisible to the model: in exact arithmetic `x += h; ...; x -= h` restores x, so the '
              'translator rejects every body that writes to x, and `x bit-for-bit unchanged` is measured by the probes: '
              'tobytes() comparison for x passed as element / matching ndarray handed over directly / nested list, with '
              'nice, full-mantissa, tiny, huge and mixed-magnitude entries, for every recipe incl. all methods x step '
              'lengths (dyadic and not) of NumericalGradient / NumericalDerivative and the finite-difference gradient of '
              'every functional. Call HISTORIES on one operator object (a previous result fed back as input, out of place '
              'and in place, compared with a fresh operator object) run for every recipe, for every scratch option '
              '(tmp, tmp_ran, tmp_dom; view-returning operands; derived adjoint / derivative / inverse) and for random '
              'expressions with user temporaries; search() runs more of them when an obligation breaks. That a result '
              'may share memory with x or with a user temporary is not a violation and only recorded. Axioms: classical '
              'reals + funext as printed.')
TECHNIQUE = ('Coq: heap semantics over a poisoned carrier, symbolic execution of source-regenerated `_call` bodies, '
             'structural induction over operator trees; in-Coq differential correspondence; introspection-driven probes')


# =====================================================================================
# Probes: the property evaluated directly on every concrete Operator/Functional class
# =====================================================================================
def _flat(el):
    import odl
    sp = getattr(el, 'space', None)
    if isinstance(sp, odl.ProductSpace):
        parts = [_flat(p) for p in el]
        return np.concatenate(parts) if parts else np.zeros(0)
    return np.asarray(el).ravel()


def _is_float(dt):
    return np.issubdtype(dt, np.floating) or np.issubdtype(dt, np.complexfloating)


def _poison(space):
    """A new element of `space` filled with NaN (or a sentinel for integer / bool spaces)."""
    import odl
    if isinstance(space, odl.ProductSpace):
        return space.element([_poison(s) for s in space.spaces])
    dt = np.dtype(space.dtype)
    if np.issubdtype(dt, np.complexfloating):
        v = complex(np.nan, np.nan)
    elif np.issubdtype(dt, np.floating):
        v = np.nan
    elif dt == bool:
        v = True
    else:
        v = 77
    return space.element(np.full(space.shape, v, dtype=dt))


def _rand(space, rng, kind='any'):
    """A random element with small 'nice' entries.  kind: any | pos | unit | prob"""
    import odl
    if isinstance(space, odl.ProductSpace):
        return space.element([_rand(s, rng, kind) for s in space.spaces])
    if isinstance(space, (odl.RealNumbers, odl.ComplexNumbers)):
        return {'any': 1.5, 'pos': 2.0, 'unit': 0.5, 'prob': 0.25, 'ge1': 2.0}[kind]
    dt = np.dtype(space.dtype)
    n = int(np.prod(space.shape))
    if kind == 'pos':
        vals = [float(rng.randint(1, 6)) / 2 for _ in range(n)]
    elif kind == 'ge1':
        vals = [1.0 + float(rng.randint(0, 4)) / 2 for _ in range(n)]
    elif kind == 'unit':
        vals = [float(rng.randint(-3, 3)) / 4 for _ in range(n)]
    elif kind == 'prob':
        vals = [float(rng.randint(1, 4)) / 8 for _ in range(n)]
    else:
        vals = [float(rng.randint(-6, 6)) / 2 for _ in range(n)]
    arr = np.array(vals)
    if np.issubdtype(dt, np.complexfloating):
        arr = arr + 1j * np.array([float(rng.randint(-4, 4)) / 2 for _ in range(n)])
    elif dt == bool:
        arr = arr > 0
    elif np.issubdtype(dt, np.integer):
        arr = np.array([0 if kind == 'unit' else rng.randint(1, 5) if kind != 'any' else rng.randint(-5, 5)
                        for _ in range(n)])
    return space.element(arr.astype(dt).reshape(space.shape))


def _poison_allocator(space, times=3):
    """Free NaN-filled blocks of the sizes `space.element()` will ask for, so that NumPy's
    small-block cache hands NaN memory to the next np.empty of that size (best effort)."""
    import odl
    if isinstance(space, odl.ProductSpace):
        for s in space.spaces:
            _poison_allocator(s, times)
        return
    if not hasattr(space, 'dtype') or not _is_float(np.dtype(space.dtype)):
        return
    blocks = [np.full(space.shape, np.nan, dtype=space.dtype) for _ in range(times)]
    del blocks


def _layout_variants(space, src, rng, fill=None):
    """Legal elements of `space` whose memory is NOT C-contiguous, holding the values of `src` (an element) or,
    if `fill` is given, NaN/sentinel contents: Fortran-ordered, strided view of a bigger array, and -- for real
    floating spaces -- the .real / .imag view of a complex element.  Returns [(label, element)]; a variant that the
    space does not accept or that happens to be contiguous is left out."""
    import odl
    if isinstance(space, odl.ProductSpace):
        if len(space) == 0:
            return []
        per_part = [_layout_variants(sp_i, (src[i] if src is not None else None), rng, fill)
                    for i, sp_i in enumerate(space.spaces)]
        out = []
        for lab in ('F', 'strided', 'realview', 'imagview'):
            parts = []
            for cand in per_part:
                m = [e for l, e in cand if l == lab]
                if not m:
                    parts = None
                    break
                parts.append(m[0])
            if parts is not None:
                try:
                    el = space.element(parts)
                    if el in space:
                        out.append((lab, el))
                except Exception:      # noqa
                    pass
        return out
    if not hasattr(space, 'shape') or not hasattr(space, 'dtype') or isinstance(space, odl.set.sets.Field):
        return []
    dt = np.dtype(space.dtype)
    shape = tuple(space.shape)
    if len(shape) == 0 or int(np.prod(shape)) == 0:
        return []
    if src is not None:
        vals = np.array(np.asarray(src), dtype=dt, copy=True).reshape(shape)
    else:
        vals = np.array(np.asarray(_poison(space)), dtype=dt, copy=True).reshape(shape)
    cands = []
    if len(shape) >= 2:
        cands.append(('F', lambda: np.asfortranarray(vals)))

    def strided():
        big = np.zeros((2 * shape[0],) + shape[1:], dtype=dt)
        view = big[::2]
        view[...] = vals
        return view
    cands.append(('strided', strided))
    if np.issubdtype(dt, np.floating):
        cdt = np.result_type(dt, np.complex64)

        def realview():
            z = np.empty(shape, dtype=cdt)
            z.real[...] = vals
            z.imag[...] = 7.0
            return z.real

        def imagview():
            z = np.empty(shape, dtype=cdt)
            z.imag[...] = vals
            z.real[...] = 7.0
            return z.imag
        cands += [('realview', realview), ('imagview', imagview)]
    out = []
    for lab, mk in cands:
        try:
            arr = mk()
            el = space.element(arr)
            data = el.tensor.data if hasattr(el, 'tensor') else el.data
            if el in space and not data.flags.c_contiguous and np.shares_memory(data, arr):
                out.append((lab, el))
        except Exception:      # noqa
            pass
    return out


def _arrays(el):
    """The ndarrays that hold the entries of an element (one per part of a product-space element)."""
    import odl
    sp = getattr(el, 'space', None)
    if isinstance(sp, odl.ProductSpace):
        out = []
        for p_ in el:
            out += _arrays(p_)
        return out
    if hasattr(el, 'tensor'):
        return [el.tensor.data]
    if hasattr(el, 'data') and isinstance(getattr(el, 'data'), np.ndarray):
        return [el.data]
    if isinstance(el, np.ndarray):
        return [el]
    return []


def _shares_memory(a, b):
    return any(np.shares_memory(u, v) for u in _arrays(a) for v in _arrays(b))


def _single(dt):
    return np.dtype(dt) in (np.dtype('float32'), np.dtype('complex64'), np.dtype('float16'))


def _close(a, b, equal_nan=False, scale=None):
    """Values agree up to rounding of the element type (float64: 1e-9 relative, float32: 1e-4); with `scale` the
    absolute tolerance is relative to that magnitude (norm-wise comparison for badly scaled data)."""
    a, b = np.asarray(a), np.asarray(b)
    if a.shape != b.shape:
        return False
    if a.dtype == bool or b.dtype == bool or not _is_float(a.dtype):
        return bool(np.array_equal(a, b))
    rtol, atol = (1e-4, 1e-5) if (_single(a.dtype) or _single(b.dtype)) else (1e-9, 1e-11)
    if scale is not None:
        atol = rtol * float(scale) * 10
    with np.errstate(all='ignore'):
        return bool(np.allclose(a, b, rtol=rtol, atol=atol, equal_nan=equal_nan))


# probe configurations: name -> shape of the basic space (1-d below / above THRESHOLD_SMALL entries, 2-d and 3-d
# with distinct and with coinciding axis lengths)
CFGS = [('small', (3,)), ('large', (120,)), ('nd2', (2, 3)), ('nd2sq', (3, 3)), ('nd3', (3, 3, 2)), ('nd3d', (2, 3, 4)),
        ('f32', (4,)), ('f32nd', (3, 2))]
CFG_SHAPE = dict(CFGS)
# single-precision configurations: every recipe is rebuilt on float32 / complex64 spaces
CFG_DTYPE = {'f32': ('float32', 'complex64'), 'f32nd': ('float32', 'complex64')}


class _Recipes(object):
    """Constructor recipes: class name -> list of (label, builder, input kind).  `big` selects
    spaces with >= 100 entries (the other lincomb regime)."""

    def __init__(self, rng, cfg):
        import odl
        shape = CFG_SHAPE[cfg]
        big = (cfg == 'large')
        self.odl, self.rng, self.big, self.cfg, self.shape = odl, rng, big, cfg, shape
        n = shape[0]
        nd = len(shape)
        self.n = n
        rdt, cdt = CFG_DTYPE.get(cfg, ('float64', 'complex128'))
        self.rdt, self.cdt = rdt, cdt
        self.sp = odl.rn(shape, dtype=rdt)
        self.spw = odl.rn(shape, weighting=2.0, dtype=rdt)
        self.sp2 = odl.rn((n + 1,) + shape[1:], dtype=rdt)
        self.csp = odl.cn(shape, dtype=cdt)
        self.isp = odl.tensor_space(shape, dtype=int)
        self.dsp = odl.uniform_discr([0] * nd, [1] * nd, shape, dtype=rdt)
        self.shape2 = shape if nd >= 2 else ((10, 12) if big else (2, 3))
        self.dsp2 = odl.uniform_discr([0] * len(self.shape2), [1] * len(self.shape2), self.shape2, dtype=rdt)
        m = (120 if big else 3)
        self.cdsp = odl.uniform_discr(0, 1, m if m % 2 == 0 else m + 1, dtype=cdt)
        self.ps = odl.ProductSpace(self.sp, 2)
        self.pd = odl.ProductSpace(self.dsp2, 2)

    # -- small helpers
    def v(self, space, kind='any'):
        return _rand(space, self.rng, kind)

    def mat(self, m, n):
        return np.array([[float(self.rng.randint(-2, 2)) for _ in range(n)] for _ in range(m)])

    def A(self):
        return self.odl.ScalingOperator(self.sp, 3.0)

    def B(self):
        return self.odl.MultiplyOperator(self.v(self.sp))

    def alias(self):
        return self.odl.RealPart(self.sp)

    def f(self):
        return self.odl.solvers.L2NormSquared(self.sp)

    def g(self):
        return self.odl.solvers.L1Norm(self.sp)

    def table(self):
        odl, O, S = self.odl, self.odl.operator.operator, self.odl.solvers
        sp, spw, sp2, csp, dsp, dsp2, ps, pd, n = (self.sp, self.spw, self.sp2, self.csp, self.dsp, self.dsp2,
                                                   self.ps, self.pd, self.n)
        v, A, B, f, g = self.v, self.A, self.B, self.f, self.g
        T = {}

        def add(name, label, build, kind='any'):
            T.setdefault(name, []).append((label, build, kind))

        # ---- operator.py expression classes (incl. alias-returning and functional operands, user temporaries)
        add('OperatorSum', 'A+B', lambda: O.OperatorSum(A(), B()))
        add('OperatorSum', 'alias+A', lambda: O.OperatorSum(self.alias(), A()))
        add('OperatorSum', 'tmp_ran', lambda: O.OperatorSum(A(), B(), tmp_ran=sp.element()))
        add('OperatorSum', 'f+g', lambda: O.OperatorSum(f(), g()))
        add('OperatorVectorSum', 'A+v', lambda: O.OperatorVectorSum(A(), v(sp)))
        add('OperatorVectorSum', 'alias+v', lambda: O.OperatorVectorSum(self.alias(), v(sp)))
        add('OperatorComp', 'A o B', lambda: O.OperatorComp(A(), B()))
        add('OperatorComp', 'A o alias', lambda: O.OperatorComp(A(), self.alias()))
        add('OperatorComp', 'alias o A', lambda: O.OperatorComp(self.alias(), A()))
        add('OperatorComp', 'tmp', lambda: O.OperatorComp(A(), B(), tmp=sp.element()))
        add('OperatorComp', 'M o A', lambda: O.OperatorComp(odl.MatrixOperator(self.mat(n, n)), A()))
        add('OperatorComp', 'M o M', lambda: O.OperatorComp(odl.MatrixOperator(self.mat(n, n)), odl.MatrixOperator(self.mat(n, n))))
        add('OperatorComp', 'f o A', lambda: O.OperatorComp(f(), A()))
        add('OperatorPointwiseProduct', 'A*B', lambda: O.OperatorPointwiseProduct(A(), B()))
        add('OperatorPointwiseProduct', 'alias*A', lambda: O.OperatorPointwiseProduct(self.alias(), A()))
        add('OperatorLeftScalarMult', '2A', lambda: O.OperatorLeftScalarMult(B(), 2.0))
        add('OperatorLeftScalarMult', '0A', lambda: O.OperatorLeftScalarMult(B(), 0.0))
        add('OperatorLeftScalarMult', '2alias', lambda: O.OperatorLeftScalarMult(self.alias(), 2.0))
        add('OperatorRightScalarMult', 'A2', lambda: O.OperatorRightScalarMult(B(), 2.0))
        add('OperatorRightScalarMult', 'A0', lambda: O.OperatorRightScalarMult(B(), 0.0))
        add('OperatorRightScalarMult', 'tmp', lambda: O.OperatorRightScalarMult(B(), 2.0, tmp=sp.element()))
        add('OperatorRightScalarMult', 'alias2', lambda: O.OperatorRightScalarMult(self.alias(), 2.0))
        # every scratch option (tmp, tmp_ran, tmp_dom), with ordinary and with view-returning operands, and the
        # operators derived from such objects (they inherit the user's temporaries)
        flat = lambda: odl.FlatteningOperator(odl.rn(self.shape2, dtype=self.rdt))
        emb = lambda: odl.ComplexEmbedding(sp, scalar=1 + 2j)
        add('OperatorSum', 'tmp_dom', lambda: O.OperatorSum(A(), B(), tmp_dom=sp.element()))
        add('OperatorSum', 'tmp_ran,tmp_dom', lambda: O.OperatorSum(A(), B(), tmp_ran=sp.element(), tmp_dom=sp.element()))
        add('OperatorSum', 'alias+alias tmp_ran', lambda: O.OperatorSum(self.alias(), self.alias(), tmp_ran=sp.element()))
        add('OperatorSum', 'alias+B tmp_ran', lambda: O.OperatorSum(self.alias(), B(), tmp_ran=sp.element()))
        add('OperatorSum', 'tmp.adjoint', lambda: O.OperatorSum(A(), B(), tmp_ran=sp.element(), tmp_dom=sp.element()).adjoint)
        add('OperatorSum', 'tmp.derivative', lambda: O.OperatorSum(A(), B(), tmp_ran=sp.element(),
                                                                 tmp_dom=sp.element()).derivative(v(sp)))
        add('OperatorComp', 'alias o B tmp', lambda: O.OperatorComp(self.alias(), B(), tmp=sp.element()))
        add('OperatorComp', 'B o alias tmp', lambda: O.OperatorComp(B(), self.alias(), tmp=sp.element()))
        add('OperatorComp', 'alias o alias tmp', lambda: O.OperatorComp(self.alias(), self.alias(), tmp=sp.element()))
        add('OperatorComp', 'real o embed tmp', lambda: O.OperatorComp(odl.RealPart(csp), emb(), tmp=csp.element()))
        add('OperatorComp', 'imag o embed tmp', lambda: O.OperatorComp(odl.ImagPart(csp), emb(), tmp=csp.element()))
        add('OperatorComp', 'flatinv o flat tmp', lambda: O.OperatorComp(flat().inverse, flat(), tmp=flat().range.element()))
        add('OperatorComp', 'flat o flatinv tmp', lambda: O.OperatorComp(flat(), flat().inverse, tmp=flat().domain.element()))
        add('OperatorComp', 'tmp.adjoint', lambda: O.OperatorComp(self.alias(), B(), tmp=sp.element()).adjoint)
        add('OperatorComp', 'tmp.derivative', lambda: O.OperatorComp(self.alias(), B(), tmp=sp.element()).derivative(v(sp)))
        add('OperatorComp', 'tmp.inverse', lambda: O.OperatorComp(self.alias(), A(), tmp=sp.element()).inverse)
        add('OperatorRightScalarMult', 'alias2 tmp', lambda: O.OperatorRightScalarMult(self.alias(), 2.0, tmp=sp.element()))
        add('OperatorRightScalarMult', 'tmp*3', lambda: O.OperatorRightScalarMult(B(), 2.0, tmp=sp.element()) * 3.0)
        add('FunctionalLeftVectorMult', 'v*f', lambda: O.FunctionalLeftVectorMult(f(), v(sp)))
        add('OperatorLeftVectorMult', 'v*A', lambda: O.OperatorLeftVectorMult(A(), v(sp)))
        add('OperatorLeftVectorMult', 'v*alias', lambda: O.OperatorLeftVectorMult(self.alias(), v(sp)))
        add('OperatorRightVectorMult', 'A*v', lambda: O.OperatorRightVectorMult(A(), v(sp)))
        add('OperatorRightVectorMult', 'alias*v', lambda: O.OperatorRightVectorMult(self.alias(), v(sp)))
        # ---- default_ops.py
        add('ScalingOperator', 'rn', lambda: odl.ScalingOperator(sp, 2.5))
        add('ScalingOperator', 'zero', lambda: odl.ScalingOperator(sp, 0.0))
        add('ScalingOperator', 'discr', lambda: odl.ScalingOperator(dsp2, -1.0))
        add('ScalingOperator', 'pspace', lambda: odl.ScalingOperator(ps, 2.0))
        add('IdentityOperator', 'rn', lambda: odl.IdentityOperator(sp))
        add('IdentityOperator', 'pspace', lambda: odl.IdentityOperator(ps))
        add('LinCombOperator', 'a,b', lambda: odl.LinCombOperator(sp, 2.0, -1.0))
        add('LinCombOperator', '0,1', lambda: odl.LinCombOperator(sp, 0.0, 1.0))
        add('LinCombOperator', '0,0', lambda: odl.LinCombOperator(sp, 0.0, 0.0))
        add('MultiplyOperator', 'elem', lambda: odl.MultiplyOperator(v(sp)))
        add('MultiplyOperator', 'scalar', lambda: odl.MultiplyOperator(2.0, domain=sp, range=sp))
        add('MultiplyOperator', 'discr', lambda: odl.MultiplyOperator(v(dsp2)))
        add('PowerOperator', '2', lambda: odl.PowerOperator(sp, 2))
        add('PowerOperator', '3', lambda: odl.PowerOperator(sp, 3))
        add('PowerOperator', '1', lambda: odl.PowerOperator(sp, 1))
        add('PowerOperator', '0', lambda: odl.PowerOperator(sp, 0))
        add('PowerOperator', '-1', lambda: odl.PowerOperator(sp, -1), 'pos')
        add('InnerProductOperator', 'rn', lambda: odl.InnerProductOperator(v(sp)))
        add('NormOperator', 'rn', lambda: odl.NormOperator(sp))
        add('DistOperator', 'rn', lambda: odl.DistOperator(v(sp)))
        add('ConstantOperator', 'same', lambda: odl.ConstantOperator(v(sp)))
        add('ConstantOperator', 'other', lambda: odl.ConstantOperator(v(sp2), domain=sp))
        add('ZeroOperator', 'same', lambda: odl.ZeroOperator(sp))
        add('ZeroOperator', 'other', lambda: odl.ZeroOperator(sp, sp2))
        add('ZeroOperator', 'pspace', lambda: odl.ZeroOperator(ps))
        add('RealPart', 'real', lambda: odl.RealPart(sp))
        add('RealPart', 'complex', lambda: odl.RealPart(csp))
        add('ImagPart', 'real', lambda: odl.ImagPart(sp))
        add('ImagPart', 'complex', lambda: odl.ImagPart(csp))
        add('ComplexEmbedding', 'real', lambda: odl.ComplexEmbedding(sp, scalar=1 + 2j))
        add('ComplexEmbedding', 'complex', lambda: odl.ComplexEmbedding(csp, scalar=2j))
        add('ComplexModulus', 'cn', lambda: odl.ComplexModulus(csp))
        add('ComplexModulusSquared', 'cn', lambda: odl.ComplexModulusSquared(csp))
        add('ComplexModulusDerivative', 'cn', lambda: odl.ComplexModulus(csp).derivative(v(csp, 'pos')))
        add('ComplexModulusDerivativeAdjoint', 'cn', lambda: odl.ComplexModulus(csp).derivative(v(csp, 'pos')).adjoint)
        add('ComplexModulusSquaredDerivative', 'cn', lambda: odl.ComplexModulusSquared(csp).derivative(v(csp)))
        add('ComplexModulusSquaredDerivAdj', 'cn', lambda: odl.ComplexModulusSquared(csp).derivative(v(csp)).adjoint)
        # ---- pspace_ops.py
        add('BroadcastOperator', 'A,B', lambda: odl.BroadcastOperator(A(), B()))
        add('BroadcastOperator', 'alias,A', lambda: odl.BroadcastOperator(self.alias(), A()))
        add('ReductionOperator', 'A,B', lambda: odl.ReductionOperator(A(), B()))
        add('ReductionOperator', 'alias,A', lambda: odl.ReductionOperator(self.alias(), A()))
        add('DiagonalOperator', 'A,B', lambda: odl.DiagonalOperator(A(), B()))
        add('DiagonalOperator', 'alias,A', lambda: odl.DiagonalOperator(self.alias(), A()))
        add('ProductSpaceOperator', 'full', lambda: odl.ProductSpaceOperator([[A(), B()], [B(), A()]]))
        add('ProductSpaceOperator', 'sparse', lambda: odl.ProductSpaceOperator([[A(), None], [None, B()]]))
        add('ProductSpaceOperator.zero_row', 'zero-row', lambda: odl.ProductSpaceOperator([[A(), B()], [None, None]],
                                                                                  domain=ps, range=ps))
        add('ProductSpaceOperator', 'alias', lambda: odl.ProductSpaceOperator([[self.alias(), A()], [None, self.alias()]]))
        add('ComponentProjection', '0', lambda: odl.ComponentProjection(ps, 0))
        add('ComponentProjection', '[1,0]', lambda: odl.ComponentProjection(ps, [1, 0]))
        add('ComponentProjectionAdjoint', '0', lambda: odl.ComponentProjectionAdjoint(ps, 0))
        add('ComponentProjectionAdjoint', '1', lambda: odl.ComponentProjection(odl.ProductSpace(sp, 3), 1).adjoint)
        # ---- tensor_ops.py
        add('MatrixOperator', 'dense', lambda: odl.MatrixOperator(self.mat(n + 1, n)))
        add('MatrixOperator', 'sparse', lambda: odl.MatrixOperator(__import__('scipy.sparse').sparse.csr_matrix(self.mat(n, n))))
        add('MatrixOperator', 'axis', lambda: odl.MatrixOperator(self.mat(4, self.shape2[1]),
                                                                 domain=odl.rn(self.shape2, dtype=self.rdt), axis=1))
        for k in range(len(self.shape)):
            for m_ in (self.shape[k], self.shape[k] + 1):
                add('MatrixOperator', 'nd-axis%d-%dx%d' % (k, m_, self.shape[k]),
                    (lambda k=k, m_=m_: odl.MatrixOperator(self.mat(m_, self.shape[k]), domain=sp, axis=k)))
                add('MatrixOperator', 'nd-sparse-axis%d-%dx%d' % (k, m_, self.shape[k]),
                    (lambda k=k, m_=m_: odl.MatrixOperator(
                        __import__('scipy.sparse').sparse.csr_matrix(self.mat(m_, self.shape[k])), domain=sp, axis=k)))
        add('MatrixOperator', 'nd-adjoint', lambda: odl.MatrixOperator(self.mat(self.shape[-1] + 1, self.shape[-1]),
                                                                         domain=sp, axis=len(self.shape) - 1).adjoint)
        for pm in ('constant', 'symmetric', 'periodic', 'order0', 'order1'):
            add('ResizingOperator', 'nd-' + pm, (lambda pm=pm: odl.ResizingOperator(
                dsp, ran_shp=tuple(t + 2 for t in self.shape), pad_mode=pm)))
        add('ResizingOperator', 'nd-mixed', lambda: odl.ResizingOperator(
            dsp, ran_shp=tuple(t + (2 if i % 2 == 0 else -1) for i, t in enumerate(self.shape))))
        add('ResizingOperatorAdjoint', 'nd', lambda: odl.ResizingOperator(
            dsp, ran_shp=tuple(t + 2 for t in self.shape), pad_mode='symmetric').adjoint)
        for ax in range(len(self.shape)):
            add('PartialDerivative', 'nd-axis%d' % ax, (lambda ax=ax: odl.PartialDerivative(dsp, ax)))
        add('Gradient', 'nd', lambda: odl.Gradient(dsp))
        add('Divergence', 'nd', lambda: odl.Divergence(range=dsp))
        add('Laplacian', 'nd', lambda: odl.Laplacian(dsp))
        add('LinDeformFixedTempl', 'nd', lambda: odl.deform.LinDeformFixedTempl(v(dsp)), 'unit')
        add('LinDeformFixedDisp', 'nd', lambda: odl.deform.LinDeformFixedDisp(
            odl.ProductSpace(dsp, len(self.shape)).element([v(dsp, 'unit') for _ in self.shape])))
        add('Resampling', 'nd', lambda: odl.Resampling(
            dsp, odl.uniform_discr([0] * len(self.shape), [1] * len(self.shape), tuple(2 * t for t in self.shape), dtype=self.rdt),
            interp='nearest'))
        add('DiscreteFourierTransform', 'nd', lambda: odl.trafos.DiscreteFourierTransform(
            odl.uniform_discr([0] * len(self.shape), [1] * len(self.shape), self.shape, dtype=self.cdt)))
        add('DiscreteFourierTransform', 'nd-real-axes', lambda: odl.trafos.DiscreteFourierTransform(dsp, axes=(0,)))
        add('FourierTransform', 'nd', lambda: odl.trafos.FourierTransform(
            odl.uniform_discr([0] * len(self.shape), [1] * len(self.shape), self.shape, dtype=self.cdt)))
        add('FlatteningOperator', 'C', lambda: odl.FlatteningOperator(odl.rn(self.shape2, dtype=self.rdt)))
        add('FlatteningOperator', 'F', lambda: odl.FlatteningOperator(odl.rn(self.shape2, dtype=self.rdt), order='F'))
        add('FlatteningOperatorInverse', 'C', lambda: odl.FlatteningOperator(odl.rn(self.shape2, dtype=self.rdt)).inverse)
        for dname, dspace in (('discr', dsp), ('discr2', dsp2), ('tensor', sp),
                              ('discr-unitcell', odl.uniform_discr([0] * len(self.shape), list(self.shape), self.shape, dtype=self.rdt))):
            nd_ = len(dspace.shape)
            size_ = int(np.prod(dspace.shape))
            last = [t - 1 for t in dspace.shape]
            pts = {'single-flat': (size_ - 1) if nd_ == 1 else None,
                   'single-seq': [size_ - 1] if nd_ == 1 else [[t] for t in last],
                   'single-multi': last if nd_ > 1 else None,
                   'two': [0, size_ - 1] if nd_ == 1 else [[0, t] for t in last],
                   'repeated': [0, 0, size_ - 1] if nd_ == 1 else [[0, 0, t] for t in last]}
            for pname, pt in pts.items():
                if pt is None:
                    continue
                for var in ('point_eval', 'integrate'):
                    add('SamplingOperator', '%s-%s-%s' % (dname, pname, var),
                        (lambda dspace=dspace, pt=pt, var=var: odl.SamplingOperator(dspace, pt, variant=var)))
                for var in ('char_fun', 'dirac'):
                    add('WeightedSumSamplingOperator', '%s-%s-%s' % (dname, pname, var),
                        (lambda dspace=dspace, pt=pt, var=var: odl.WeightedSumSamplingOperator(dspace, pt, variant=var)))
        add('SamplingOperator', 'point', lambda: odl.SamplingOperator(dsp2, [[0, 1, 1], [0, 1, 2]]))
        add('SamplingOperator', 'integrate', lambda: odl.SamplingOperator(dsp2, [[0, 1], [2, 1]], variant='integrate'))
        add('WeightedSumSamplingOperator', 'char', lambda: odl.WeightedSumSamplingOperator(dsp2, [[0, 1, 1], [0, 1, 2]]))
        add('WeightedSumSamplingOperator', 'dirac', lambda: odl.WeightedSumSamplingOperator(dsp2, [[0, 1], [2, 1]], variant='dirac'))
        for p in (1, 2, float('inf'), 3):
            add('PointwiseNorm', 'p=%s' % p, (lambda p=p: odl.PointwiseNorm(pd, exponent=p)))
        add('PointwiseNorm', 'weighted', lambda: odl.PointwiseNorm(pd, exponent=1, weighting=[1.0, 2.0]))
        add('PointwiseNorm', 'single', lambda: odl.PointwiseNorm(odl.ProductSpace(dsp2, 1), exponent=3))
        add('PointwiseInner', 'real', lambda: odl.PointwiseInner(pd, v(pd)))
        add('PointwiseInner', 'weighted', lambda: odl.PointwiseInner(pd, v(pd), weighting=[1.0, 2.0]))
        add('PointwiseInnerAdjoint', 'real', lambda: odl.PointwiseInner(pd, v(pd)).adjoint)
        add('PointwiseInnerAdjoint', 'weighted', lambda: odl.PointwiseInner(pd, v(pd), weighting=[1.0, 2.0]).adjoint)
        add('PointwiseSum', 'real', lambda: odl.PointwiseSum(pd))
        # ---- discr
        for m, p in (('forward', 'constant'), ('backward', 'symmetric'), ('central', 'periodic'), ('forward', 'order1')):
            add('PartialDerivative', '%s-%s' % (m, p), (lambda m=m, p=p: odl.PartialDerivative(dsp2, 1, method=m, pad_mode=p)))
            add('Gradient', '%s-%s' % (m, p), (lambda m=m, p=p: odl.Gradient(dsp2, method=m, pad_mode=p)))
            add('Divergence', '%s-%s' % (m, p), (lambda m=m, p=p: odl.Divergence(range=dsp2, method=m, pad_mode=p)))
        add('PartialDerivative', 'padconst', lambda: odl.PartialDerivative(dsp2, 0, pad_const=1.0))
        add('Laplacian', 'constant', lambda: odl.Laplacian(dsp2))
        add('Laplacian', 'symmetric', lambda: odl.Laplacian(dsp2, pad_mode='symmetric'))
        add('Laplacian', 'padconst', lambda: odl.Laplacian(dsp2, pad_const=2.0))
        add('Resampling', 'up', lambda: odl.Resampling(dsp, odl.uniform_discr(0, 1, 2 * n, dtype=self.rdt), interp='nearest'))
        add('Resampling', 'down', lambda: odl.Resampling(odl.uniform_discr(0, 1, 2 * n, dtype=self.rdt), dsp, interp='linear'))
        for pm in ('constant', 'symmetric', 'periodic', 'order0', 'order1'):
            add('ResizingOperator', pm, (lambda pm=pm: odl.ResizingOperator(dsp, ran_shp=(n + 2,), pad_mode=pm)))
        add('ResizingOperator', 'crop', lambda: odl.ResizingOperator(dsp, ran_shp=(n - 1,)))
        add('ResizingOperatorAdjoint', 'constant', lambda: odl.ResizingOperator(dsp, ran_shp=(n + 2,)).adjoint)
        add('ResizingOperatorAdjoint', 'symmetric', lambda: odl.ResizingOperator(dsp, ran_shp=(n + 2,), pad_mode='symmetric').adjoint)
        # ---- trafos
        add('DiscreteFourierTransform', 'cn', lambda: odl.trafos.DiscreteFourierTransform(self.cdsp))
        add('DiscreteFourierTransform.real_pyfftw', 'real-to-complex', lambda: odl.trafos.DiscreteFourierTransform(
            odl.uniform_discr(0, 1, self.cdsp.shape[0], dtype=self.rdt)))
        add('DiscreteFourierTransform', 'pyfftw', lambda: odl.trafos.DiscreteFourierTransform(self.cdsp, impl='pyfftw'))
        for impl in ('numpy', 'pyfftw'):
            for hc in (True, False):
                add('DiscreteFourierTransformInverse', 'real-hc%s-%s' % (hc, impl),
                    (lambda impl=impl, hc=hc: odl.trafos.DiscreteFourierTransform(
                        odl.uniform_discr(0, 1, self.cdsp.shape[0], dtype=self.rdt), halfcomplex=hc, impl=impl).inverse))
                add('DiscreteFourierTransform', 'real-hc%s-%s' % (hc, impl),
                    (lambda impl=impl, hc=hc: odl.trafos.DiscreteFourierTransform(
                        odl.uniform_discr(0, 1, self.cdsp.shape[0], dtype=self.rdt), halfcomplex=hc, impl=impl)))
        add('DiscreteFourierTransformInverse', 'cn', lambda: odl.trafos.DiscreteFourierTransform(self.cdsp).inverse)
        add('DiscreteFourierTransformInverse', 'pyfftw', lambda: odl.trafos.DiscreteFourierTransform(self.cdsp, impl='pyfftw').inverse)
        add('FourierTransform', 'cn', lambda: odl.trafos.FourierTransform(self.cdsp))
        add('FourierTransform.real', 'real', lambda: odl.trafos.FourierTransform(odl.uniform_discr(0, 1, self.cdsp.shape[0], dtype=self.rdt)))
        add('FourierTransform', 'pyfftw', lambda: odl.trafos.FourierTransform(self.cdsp, impl='pyfftw'))
        add('FourierTransformInverse', 'cn', lambda: odl.trafos.FourierTransform(self.cdsp).inverse)
        add('WaveletTransform', 'haar', lambda: odl.trafos.WaveletTransform(odl.uniform_discr(0, 1, 128 if self.big else 8, dtype=self.rdt), 'haar', nlevels=2))
        add('WaveletTransformInverse', 'haar', lambda: odl.trafos.WaveletTransform(odl.uniform_discr(0, 1, 128 if self.big else 8, dtype=self.rdt), 'haar', nlevels=2).inverse)
        # ---- deform
        add('LinDeformFixedTempl', '1d', lambda: odl.deform.LinDeformFixedTempl(v(dsp)), 'unit')
        add('LinDeformFixedDisp', '1d', lambda: odl.deform.LinDeformFixedDisp(odl.ProductSpace(dsp, 1).element([v(dsp, 'unit')])))
        # ---- functionals (default_functionals.py)
        add('LpNorm', 'p=1.5', lambda: S.LpNorm(sp, 1.5))
        add('L1Norm', 'rn', lambda: S.L1Norm(sp))
        add('L2Norm', 'rn', lambda: S.L2Norm(sp))
        add('L2NormSquared', 'rn', lambda: S.L2NormSquared(sp))
        add('GroupL1Norm', 'pd', lambda: S.GroupL1Norm(pd))
        add('IndicatorGroupL1UnitBall', 'pd', lambda: S.IndicatorGroupL1UnitBall(pd))
        add('IndicatorLpUnitBall', 'p=2', lambda: S.IndicatorLpUnitBall(sp, 2))
        add('IndicatorLpUnitBall', 'p=1', lambda: S.IndicatorLpUnitBall(sp, 1))
        add('IndicatorLpUnitBall', 'p=inf', lambda: S.IndicatorLpUnitBall(sp, np.inf))
        add('ConstantFunctional', 'rn', lambda: S.ConstantFunctional(sp, 2.0))
        add('ZeroFunctional', 'rn', lambda: S.ZeroFunctional(sp))
        add('ScalingFunctional', 'field', lambda: S.ScalingFunctional(odl.RealNumbers(), 2.0))
        add('IdentityFunctional', 'field', lambda: S.IdentityFunctional(odl.RealNumbers()))
        add('IndicatorBox', 'rn', lambda: S.IndicatorBox(sp, -1, 1))
        add('IndicatorNonnegativity', 'rn', lambda: S.IndicatorNonnegativity(sp))
        add('IndicatorZero', 'rn', lambda: S.IndicatorZero(sp))
        add('IndicatorSimplex', 'rn', lambda: S.IndicatorSimplex(sp))
        add('IndicatorSumConstraint', 'rn', lambda: S.IndicatorSumConstraint(sp))
        add('KullbackLeibler', 'prior', lambda: S.KullbackLeibler(sp, prior=v(sp, 'pos')), 'pos')
        add('KullbackLeibler', 'noprior', lambda: S.KullbackLeibler(sp), 'pos')
        add('KullbackLeiblerConvexConj', 'prior', lambda: S.KullbackLeibler(sp, prior=v(sp, 'pos')).convex_conj, 'prob')
        add('KullbackLeiblerCrossEntropy', 'prior', lambda: S.KullbackLeiblerCrossEntropy(sp, prior=v(sp, 'pos')), 'pos')
        add('KullbackLeiblerCrossEntropyConvexConj', 'prior', lambda: S.KullbackLeiblerCrossEntropy(sp, prior=v(sp, 'pos')).convex_conj)
        add('SeparableSum', 'f,g', lambda: S.SeparableSum(f(), g()))
        add('QuadraticForm', 'A,b,c', lambda: S.QuadraticForm(operator=odl.ScalingOperator(sp, 2.0), vector=v(sp), constant=1.0))
        add('NuclearNorm', 'pd', lambda: S.NuclearNorm(odl.ProductSpace(odl.ProductSpace(dsp2, 2), 2)))
        add('IndicatorNuclearNormUnitBall', 'pd', lambda: S.IndicatorNuclearNormUnitBall(odl.ProductSpace(odl.ProductSpace(dsp2, 2), 2)))
        add('Huber', 'rn', lambda: S.Huber(sp, 0.5))
        add('Huber', 'pd', lambda: S.Huber(pd, 0.5))
        add('MoreauEnvelope', 'l2sq', lambda: S.MoreauEnvelope(f(), sigma=0.5))
        add('RosenbrockFunctional', 'rn', lambda: S.RosenbrockFunctional(sp))
        add('NumericalGradient', 'f', lambda: S.NumericalGradient(f()))
        add('NumericalDerivative', 'A', lambda: S.NumericalDerivative(odl.ufunc_ops.square(sp), v(sp)))
        # every method x step lengths (default, dyadic, non-dyadic small / large)
        for meth in ('forward', 'backward', 'central'):
            for step in ((None, 1e-4) if self.big else (None, 1e-4, 1e-6, 0.1, 0.5)):
                for fname, fmk in (('l2sq', f), ('l1', g)):
                    if fname == 'l1' and step not in (1e-4, 0.1):
                        continue
                    add('NumericalGradient', '%s-%s-%s' % (fname, meth, step),
                        (lambda meth=meth, step=step, fmk=fmk: S.NumericalGradient(fmk(), method=meth, step=step)))
                add('NumericalDerivative', 'square-%s-%s' % (meth, step),
                    (lambda meth=meth, step=step: S.NumericalDerivative(odl.ufunc_ops.square(sp), v(sp),
                                                                        method=meth, step=step)))
            add('NumericalDerivative', 'of-numgrad-%s' % meth,
                (lambda meth=meth: S.NumericalGradient(f(), method=meth, step=1e-4).derivative(v(sp))))
        # ---- functional.py arithmetic
        add('FunctionalLeftScalarMult', '2f', lambda: 2.0 * f())
        add('FunctionalRightScalarMult', 'f2', lambda: f() * 2.0)
        add('FunctionalComp', 'f o A', lambda: f() * A())
        add('FunctionalRightVectorMult', 'f*v', lambda: f() * v(sp))
        add('FunctionalSum', 'f+g', lambda: f() + g())
        add('FunctionalScalarSum', 'f+2', lambda: f() + 2.0)
        add('FunctionalTranslation', 'f(.-v)', lambda: f().translated(v(sp)))
        add('InfimalConvolution', 'f,g', lambda: S.InfimalConvolution(f(), g()))
        add('FunctionalQuadraticPerturb', 'f+q', lambda: S.FunctionalQuadraticPerturb(f(), quadratic_coeff=0.5, linear_term=v(sp), constant=1.0))
        add('FunctionalProduct', 'f*g', lambda: S.FunctionalProduct(f(), g()))
        add('FunctionalQuotient', 'f/g', lambda: S.FunctionalQuotient(f(), S.ConstantFunctional(sp, 2.0) + g()))
        def bregman():
            pt = v(sp)
            return S.BregmanDistance(f(), pt, f().gradient(pt))
        add('BregmanDistance', 'f', bregman)
        add('FunctionalDefaultConvexConjugate', 'f',
            lambda: odl.solvers.functional.functional.FunctionalDefaultConvexConjugate(f()))

        def ray(adjoint=False):
            shp = (12, 12) if self.big else (4, 4)
            rsp = odl.uniform_discr([-1, -1], [1, 1], shp)
            geom = odl.tomo.parallel_beam_geometry(rsp, num_angles=3)
            R = odl.tomo.RayTransform(rsp, geom, impl='skimage')
            return R.adjoint if adjoint else R
        add('RayTransform', 'skimage', ray, 'pos')
        add('RayBackProjection', 'skimage', lambda: ray(True), 'pos')
        return T

    def derived(self):
        """Operators reached through gradient / proximal / convex_conj / derivative / adjoint of the
        functional recipes and through the proximal factories (classes defined inside functions)."""
        odl, S = self.odl, self.odl.solvers
        sp, pd, v = self.sp, self.pd, self.v
        P = odl.solvers.nonsmooth.proximal_operators
        out = []

        def add(label, build, kind='any'):
            out.append((label, build, kind))

        fun = {
            'L1Norm': lambda: S.L1Norm(sp), 'L2Norm': lambda: S.L2Norm(sp), 'L2NormSquared': lambda: S.L2NormSquared(sp),
            'LpNorm1.5': lambda: S.LpNorm(sp, 1.5), 'GroupL1Norm': lambda: S.GroupL1Norm(pd),
            'IndicatorBox': lambda: S.IndicatorBox(sp, -1, 1), 'IndicatorNonnegativity': lambda: S.IndicatorNonnegativity(sp),
            'IndicatorZero': lambda: S.IndicatorZero(sp), 'IndicatorSimplex': lambda: S.IndicatorSimplex(sp),
            'IndicatorLpUnitBall2': lambda: S.IndicatorLpUnitBall(sp, 2), 'IndicatorLpUnitBall1': lambda: S.IndicatorLpUnitBall(sp, 1),
            'IndicatorLpUnitBallInf': lambda: S.IndicatorLpUnitBall(sp, np.inf),
            'IndicatorGroupL1UnitBall': lambda: S.IndicatorGroupL1UnitBall(pd),
            'ZeroFunctional': lambda: S.ZeroFunctional(sp), 'ConstantFunctional': lambda: S.ConstantFunctional(sp, 2.0),
            'KullbackLeibler': lambda: S.KullbackLeibler(sp, prior=v(sp, 'pos')),
            'KullbackLeiblerCrossEntropy': lambda: S.KullbackLeiblerCrossEntropy(sp, prior=v(sp, 'pos')),
            'Huber': lambda: S.Huber(sp, 0.5), 'QuadraticForm': lambda: S.QuadraticForm(operator=odl.ScalingOperator(sp, 2.0), vector=v(sp)),
            'SeparableSum': lambda: S.SeparableSum(S.L1Norm(sp), S.L2NormSquared(sp)),
            'NuclearNorm': lambda: S.NuclearNorm(odl.ProductSpace(odl.ProductSpace(self.dsp2, 2), 2)),
            'MoreauEnvelope': lambda: S.MoreauEnvelope(S.L1Norm(sp), sigma=0.5),
            'RosenbrockFunctional': lambda: S.RosenbrockFunctional(sp),
            '2*L1': lambda: 2.0 * S.L1Norm(sp), 'L1*2': lambda: S.L1Norm(sp) * 2.0,
            'L2sq.translated': lambda: S.L2NormSquared(sp).translated(v(sp)),
            'L1+L2sq': lambda: S.L1Norm(sp) + S.L2NormSquared(sp), 'L2sq+2': lambda: S.L2NormSquared(sp) + 2.0,
            'L2sq o A': lambda: S.L2NormSquared(sp) * odl.ScalingOperator(sp, 2.0),
            'QuadPerturb': lambda: S.FunctionalQuadraticPerturb(S.L1Norm(sp), quadratic_coeff=0.5, linear_term=v(sp)),
        }
        posfun = ('KullbackLeibler', 'KullbackLeiblerCrossEntropy')
        for name, mk in fun.items():
            kind = 'pos' if name in posfun else 'any'
            add('%s.gradient' % name, (lambda mk=mk: mk().gradient), kind)
            for sig in (0.5, 100.0):
                add('%s.proximal(%s)' % (name, sig), (lambda mk=mk, sig=sig: mk().proximal(sig)), kind)
                add('%s.convex_conj.proximal(%s)' % (name, sig), (lambda mk=mk, sig=sig: mk().convex_conj.proximal(sig)),
                    'prob' if name in posfun else 'any')
            # non-dyadic step sizes (labels starting with '~' run in the thorough tier only)
            for sig in ((0.3,) if self.rdt == 'float32' else (0.3, 0.02)):   # exp(x / 0.02) overflows float32
                add('~%s.proximal(%s)' % (name, sig), (lambda mk=mk, sig=sig: mk().proximal(sig)), kind)
                add('~%s.convex_conj.proximal(%s)' % (name, sig), (lambda mk=mk, sig=sig: mk().convex_conj.proximal(sig)),
                    'prob' if name in posfun else 'any')

            def deriv(mk=mk, kind=kind):
                fn = mk()
                return fn.derivative(_rand(fn.domain, self.rng, kind))
            add('%s.derivative' % name, deriv, kind)
            # finite-difference gradient of every functional, non-dyadic step, all methods
            for meth in ('forward', 'backward', 'central'):
                if name.startswith('Indicator'):
                    break               # values 0 / inf: a difference quotient is inf - inf
                add('%s%s.numgrad-%s' % ('' if (meth == 'forward' and not self.big) else '~', name, meth),
                    (lambda mk=mk, meth=meth: S.NumericalGradient(mk(), method=meth, step=1e-4)), kind)
            add('%s.convex_conj' % name, (lambda mk=mk: mk().convex_conj), 'prob' if name in posfun else 'any')
            add('%s.convex_conj.gradient' % name, (lambda mk=mk: mk().convex_conj.gradient), 'prob' if name in posfun else 'any')
        # proximal factories called directly, all options
        g = lambda: v(sp)
        for sig in (0.5, 100.0):
            add('proximal_const_func(%s)' % sig, (lambda sig=sig: P.proximal_const_func(sp)(sig)))
            add('proximal_box_constraint(%s)' % sig, (lambda sig=sig: P.proximal_box_constraint(sp, -1, 1)(sig)))
            add('proximal_box_constraint-lower(%s)' % sig, (lambda sig=sig: P.proximal_box_constraint(sp, lower=0)(sig)))
            add('proximal_nonnegativity(%s)' % sig, (lambda sig=sig: P.proximal_nonnegativity(sp)(sig)))
            for fac in ('proximal_l1', 'proximal_convex_conj_l1', 'proximal_l2', 'proximal_convex_conj_l2',
                        'proximal_l2_squared', 'proximal_convex_conj_l2_squared', 'proximal_linfty',
                        'proximal_convex_conj_linfty'):
                add('%s(%s)' % (fac, sig), (lambda fac=fac, sig=sig: getattr(P, fac)(sp)(sig)))
                if fac not in ('proximal_linfty', 'proximal_convex_conj_linfty'):
                    add('%s-g(%s)' % (fac, sig), (lambda fac=fac, sig=sig: getattr(P, fac)(sp, lam=2, g=g())(sig)))
            for fac in ('proximal_l1_l2', 'proximal_convex_conj_l1_l2'):
                add('%s(%s)' % (fac, sig), (lambda fac=fac, sig=sig: getattr(P, fac)(pd)(sig)))
                add('%s-g(%s)' % (fac, sig), (lambda fac=fac, sig=sig: getattr(P, fac)(pd, lam=2, g=v(pd))(sig)))
            add('proximal_convex_conj_kl(%s)' % sig, (lambda sig=sig: P.proximal_convex_conj_kl(sp, g=v(sp, 'pos'))(sig)), 'prob')
            add('proximal_convex_conj_kl_cross_entropy(%s)' % sig,
                (lambda sig=sig: P.proximal_convex_conj_kl_cross_entropy(sp, g=v(sp, 'pos'))(sig)))
            add('proximal_huber(%s)' % sig, (lambda sig=sig: P.proximal_huber(sp, 0.5)(sig)))
            base = P.proximal_l2_squared(sp)
            add('proximal_translation(%s)' % sig, (lambda sig=sig: P.proximal_translation(base, v(sp))(sig)))
            add('proximal_arg_scaling(%s)' % sig, (lambda sig=sig: P.proximal_arg_scaling(base, 2.0)(sig)))
            add('proximal_arg_scaling0(%s)' % sig, (lambda sig=sig: P.proximal_arg_scaling(base, 0.0)(sig)))
            add('proximal_quadratic_perturbation(%s)' % sig, (lambda sig=sig: P.proximal_quadratic_perturbation(base, 0.5, v(sp))(sig)))
            add('proximal_composition(%s)' % sig, (lambda sig=sig: P.proximal_composition(base, odl.ScalingOperator(sp, 2.0), 4.0)(sig)))
            add('proximal_convex_conj(%s)' % sig, (lambda sig=sig: P.proximal_convex_conj(base)(sig)))
            add('combine_proximals(%s)' % sig, (lambda sig=sig: P.combine_proximals(base, P.proximal_l1(sp))(sig)))
        # derivative / adjoint / inverse of operator recipes
        add('Gradient.adjoint', lambda: odl.Gradient(self.dsp2).adjoint)
        add('Divergence.adjoint', lambda: odl.Divergence(range=self.dsp2).adjoint)
        add('PartialDerivative.adjoint', lambda: odl.PartialDerivative(self.dsp2, 0).adjoint)
        add('Laplacian.adjoint', lambda: odl.Laplacian(self.dsp2).adjoint)
        add('PointwiseNorm.derivative', lambda: odl.PointwiseNorm(pd).derivative(v(pd, 'pos')))
        add('PowerOperator.derivative', lambda: odl.PowerOperator(sp, 3).derivative(v(sp)))
        add('SamplingOperator.adjoint', lambda: odl.SamplingOperator(self.dsp2, [[0, 1], [2, 1]]).adjoint)
        add('MatrixOperator.adjoint', lambda: odl.MatrixOperator(self.mat(self.n + 1, self.n)).adjoint)
        add('ufunc.sin.derivative', lambda: odl.ufunc_ops.sin(sp).derivative(v(sp)))
        return out


UFUNC_INPUT = {'arccos': 'unit', 'arcsin': 'unit', 'arctanh': 'unit', 'arccosh': 'ge1', 'log': 'pos', 'log10': 'pos',
               'log2': 'pos', 'log1p': 'pos', 'sqrt': 'pos', 'reciprocal': 'pos', 'power': 'pos', 'divide': 'pos',
               'true_divide': 'pos', 'floor_divide': 'pos', 'mod': 'pos', 'fmod': 'pos', 'remainder': 'pos',
               'left_shift': 'pos', 'right_shift': 'pos'}


def _ufunc_ops(rng, cfg):
    """(label, builder, kind) for every name of odl.util.ufuncs.UFUNCS on float and int spaces."""
    import odl
    from odl.util.ufuncs import UFUNCS
    n = CFG_SHAPE[cfg]
    out = []
    for entry in UFUNCS:
        name = entry[0]
        kind = UFUNC_INPUT.get(name, 'any')
        for tag, sp in (('float', odl.rn(n, dtype=CFG_DTYPE.get(cfg, ('float64',))[0])),
                        ('int', odl.tensor_space(n, dtype=int))):
            out.append(('%s-%s' % (name, tag), (lambda name=name, sp=sp: getattr(odl.ufunc_ops, name)(sp)),
                        kind, name))
        out.append(('%s-field' % name, (lambda name=name: getattr(odl.ufunc_ops, name)(odl.RealNumbers())),
                    kind, name))
    return out


def _snippet(setup, label):
    return ("import numpy as np, odl, random, sys\nsys.path.insert(0, %r)\nfrom harness import c03\n"
            "ok, observed = c03.replay_probe(%r, %r)\n" % (C.VERIF, setup, label))


def probe_operator(op, kind, rng, cls, label, sizeclass, setup, rebuild=None):
    """Evaluate the property on one operator instance.  Returns a list of C.Probe."""
    import odl
    from odl.operator.operator import OpDomainError, OpRangeError
    res = []
    tag = '%s[%s]' % (cls, label)

    def P(ok, clause, what, detail=None):
        # memory-layout clauses are keyed without the size configuration (the same 1-d recipes recur in every one)
        key = ('%s:%s' % (cls, clause)) if ('-layout-' in clause or clause == 'zero-input') \
            else '%s:%s:%s' % (cls, clause, sizeclass)
        res.append(C.Probe(bool(ok), key, '%s %s: %s' % (tag, sizeclass, what), _snippet(setup, clause), detail))

    dom, ran = op.domain, op.range
    scalar_dom = isinstance(dom, odl.set.sets.Field)
    x = _rand(dom, rng, kind)
    if not scalar_dom:
        xb = _flat(x).tobytes()
    functional = isinstance(ran, odl.set.sets.Field)
    # ---- out-of-place
    try:
        r1 = op(x)
    except NotImplementedError as e:
        P(True, 'call-not-implemented', 'op(x) is not implemented (nothing to check)')
        return res
    except Exception as e:      # noqa
        P(False, 'oop-raises', 'op(x) raised %s: %s' % (type(e).__name__, str(e)[:100]))
        return res
    P(r1 in ran, 'range', 'op(x) is an element of op.range')
    if not scalar_dom:
        P(_flat(x).tobytes() == xb, 'x-changed-oop', 'x bit-for-bit unchanged by op(x)')
    if not scalar_dom and not functional:
        # NOT a violation criterion (the property speaks about x being unchanged BY THE CALL, not about the
        # result being independent of x afterwards): recorded as a statistic, see extra_coverage()
        ALIASING.setdefault(cls, set())
        if _shares_memory(r1, x):
            ALIASING[cls].add(label)
    v1 = np.array([r1]) if functional else np.array(_flat(r1), copy=True)
    # the same call again must give the same values (first-call effects, hidden state)
    try:
        r1r = op(x)
        v1r = np.array([r1r]) if functional else np.array(_flat(r1r), copy=True)
        same = _close(v1r, v1)
        P(same, 'repeat-call', 'op(x) evaluated twice gives the same values',
          {'first': v1[:6].tolist(), 'second': v1r[:6].tolist()})
        if not same:
            v1 = v1r
    except Exception as e:      # noqa
        P(False, 'oop-raises', 'second op(x) raised %s' % type(e).__name__)
    # determinism w.r.t. uninitialised memory: same call after NaN blocks were freed
    if not functional and not scalar_dom:
        try:
            _poison_allocator(ran)
            _poison_allocator(dom)
            r1b = op(x)
            P(_close(_flat(r1b), v1), 'oop-uninit', 'op(x) does not depend on the contents of uninitialised memory',
              {'first': v1[:6].tolist(), 'second': _flat(r1b)[:6].tolist()})
        except Exception as e:      # noqa
            P(False, 'oop-raises', 'second op(x) raised %s' % type(e).__name__)
    # ---- in-place
    if functional:
        try:
            op(x, out=2.0)
            P(False, 'functional-out', 'functional called with out must raise')
        except (TypeError, OpRangeError):
            P(True, 'functional-out', 'functional called with out raises a type error')
        except Exception as e:      # noqa
            P(False, 'functional-out', 'functional called with out raised %s' % type(e).__name__)
    elif not scalar_dom:
        for init in ('nan', 'rand'):
            y = _poison(ran) if init == 'nan' else _rand(ran, rng)
            try:
                r2 = op(x, out=y)
            except Exception as e:      # noqa
                P(False, 'ip-raises', 'op(x, out=y) raised %s: %s' % (type(e).__name__, str(e)[:100]))
                break
            P(r2 is y, 'identity', 'op(x, out=y) returns the object y')
            P(_close(_flat(y), v1), 'ip-neq-oop-%s' % init,
              'op(x, out=y) holds the values of op(x) (y initially %s)' % ('NaN-filled' if init == 'nan' else 'random'),
              {'oop': v1[:6].tolist(), 'ip': _flat(y)[:6].tolist()})
            P(_flat(x).tobytes() == xb, 'x-changed-ip', 'x bit-for-bit unchanged by op(x, out=y)')
        # ---- memory layout: legal non-C-contiguous out / x (Fortran order, strided view, .real/.imag of complex)
        for lab, y in _layout_variants(ran, None, rng, fill=True):
            try:
                r2 = op(x, out=y)
                P(r2 is y and _close(_flat(y), v1), 'ip-layout-%s' % lab,
                  'op(x, out=y) with y %s (not C-contiguous, NaN-filled) returns y holding the values of op(x)' % lab,
                  {'oop': v1[:6].tolist(), 'ip': _flat(y)[:6].tolist()})
            except Exception as e:      # noqa
                P(False, 'ip-layout-%s' % lab, 'op(x, out=y) with y %s raised %s: %s'
                  % (lab, type(e).__name__, str(e)[:80]))
        for lab, xl in _layout_variants(dom, x, rng):
            try:
                xlb = _flat(xl).tobytes()
                r3 = op(xl)
                ok3 = _close(_flat(r3), v1) and _flat(xl).tobytes() == xlb
                y = _poison(ran)
                r4 = op(xl, out=y)
                ok4 = (r4 is y) and _close(_flat(y), v1) and _flat(xl).tobytes() == xlb
                P(ok3 and ok4, 'x-layout-%s' % lab,
                  'op(x) and op(x, out=y) with x %s (not C-contiguous) give the values of op(x), x unchanged' % lab,
                  {'oop': v1[:6].tolist(), 'oop_layout': _flat(r3)[:6].tolist(), 'ip_layout': _flat(y)[:6].tolist()})
            except Exception as e:      # noqa
                P(False, 'x-layout-%s' % lab, 'call with x %s raised %s: %s' % (lab, type(e).__name__, str(e)[:80]))
        # ---- rejections
        try:
            bad_out = odl.rn(int(np.prod(getattr(ran, 'shape', (1,)))) + 5).element()
            before = _flat(x).tobytes()
            op(x, out=bad_out)
            P(False, 'reject-range', 'out from another space must be rejected')
        except OpRangeError:
            P(_flat(x).tobytes() == before, 'reject-range', 'out from another space raises OpRangeError, x untouched')
        except Exception as e:      # noqa
            P(False, 'reject-range', 'out from another space raised %s instead of OpRangeError' % type(e).__name__)
        if hasattr(ran, 'shape') and hasattr(ran, 'dtype') and _is_float(np.dtype(ran.dtype)):
            try:
                foreign = odl.tensor_space(ran.shape, dtype=ran.dtype, weighting=3.7).element(
                    np.zeros(ran.shape, dtype=ran.dtype))
                before = _flat(x).tobytes()
                op(x, out=foreign)
                P(False, 'reject-range-sameshape', 'out of the same shape from another space must be rejected')
            except OpRangeError:
                P(_flat(x).tobytes() == before and not _flat(foreign).any(), 'reject-range-sameshape',
                  'out of the same shape from another space raises OpRangeError; neither x nor out touched')
            except Exception as e:      # noqa
                P(False, 'reject-range-sameshape', 'foreign out raised %s instead of OpRangeError' % type(e).__name__)
    if not scalar_dom and kind == 'any':
        # the zero element: a linear operator maps it to zero; any operator either refuses it with a domain-type
        # error or returns an element of the range (an OpRangeError is `result not in range`)
        z = dom.zero()
        zb = _flat(z).tobytes()
        try:
            rz = op(z)
            okz = (rz in ran) and _flat(z).tobytes() == zb
            if okz and op.is_linear and not functional:
                okz = not np.any(_flat(rz))
            if okz and not functional:
                yz = _poison(ran)
                okz = op(z, out=yz) is yz and _close(_flat(yz), _flat(rz), equal_nan=True)
            P(okz, 'zero-input', 'op(0) is in the range (0 for a linear operator), op(0, out=y) agrees, input unchanged')
        except OpRangeError as e:
            P(False, 'zero-input', 'op(0) raised OpRangeError: %s' % str(e)[:100])
        except Exception as e:      # noqa
            if op.is_linear:
                P(False, 'zero-input', 'linear operator: op(0) raised %s: %s' % (type(e).__name__, str(e)[:100]))
    if not scalar_dom:
        _probe_inputs(op, kind, rng, x, P)
        if not functional and rebuild is not None:
            _probe_history(op, rebuild, kind, rng, P)
    if isinstance(dom, odl.ProductSpace) and len(dom) >= 1 and not scalar_dom:
        parts = list(x)
        for lab, bad in (('too-long', parts + [parts[-1].copy()]), ('too-short', parts[:-1])):
            for with_out in ((False, True) if not functional else (False,)):
                y = _poison(ran) if with_out else None
                yb = _flat(y).tobytes() if with_out else None
                try:
                    if with_out:
                        op(bad, out=y)
                    else:
                        op(bad)
                    P(False, 'reject-domain-%s' % lab,
                      'a list of %d ready-made components for a domain with %d parts must be rejected'
                      % (len(bad), len(dom)))
                except (OpDomainError, TypeError):
                    P(y is None or _flat(y).tobytes() == yb, 'reject-domain-%s' % lab,
                      'wrong-length component list raises OpDomainError/TypeError and out is untouched')
                except Exception as e:      # noqa
                    P(False, 'reject-domain-%s' % lab, 'wrong-length component list raised %s instead of '
                      'OpDomainError' % type(e).__name__)
    if (not scalar_dom and not isinstance(dom, odl.ProductSpace) and hasattr(dom, 'shape') and hasattr(dom, 'dtype')
            and _is_float(np.dtype(dom.dtype)) and len(dom.shape) >= 1):
        # input that cannot be converted is rejected: raw array-likes whose shape differs from the domain shape
        # (also only by singleton axes) or whose dtype kind does not fit, before _call runs, out untouched
        shp = tuple(dom.shape)
        base = np.array(np.asarray(x), copy=True).reshape(shp)
        bads = [('lead1', base.reshape((1,) + shp)), ('trail1', base.reshape(shp + (1,))),
                ('mid1', base.reshape(shp[:1] + (1,) + shp[1:])),
                ('too-long', np.concatenate([base.ravel(), base.ravel()[:1]])),
                ('too-short', base.ravel()[:-1]), ('strings', np.array(['a'] * base.size).reshape(shp))]
        # (an object array of None is converted to NaN by NumPy and accepted: existing behaviour, no claim)
        if len(shp) >= 2:
            bads.append(('flattened', base.ravel()))
            if shp != shp[::-1]:
                bads.append(('transposed', np.ascontiguousarray(base.T)))
        if 1 in shp and base.size > 1:
            bads.append(('squeezed', base.squeeze()))
        for lab, bad in bads:
            for form in (('ndarray', 'list') if lab in ('lead1', 'trail1', 'squeezed') else ('ndarray',)):
                arg = bad if form == 'ndarray' else bad.tolist()
                for with_out in ((False,) if functional else (False, True)):
                    y = _poison(ran) if with_out else None
                    yb = _flat(y).tobytes() if with_out else None
                    clause = 'reject-shape-%s' % lab
                    what = ('a raw %s of shape %s (%s) for a domain of shape %s' % (form, bad.shape, lab, shp))
                    try:
                        op(arg, out=y) if with_out else op(arg)
                        P(False, clause, what + ' must be rejected, but the call returned'
                          + (' and wrote into out' if with_out and _flat(y).tobytes() != yb else ''))
                    except (OpDomainError, TypeError):
                        P(y is None or _flat(y).tobytes() == yb, clause, what + ' raises OpDomainError/TypeError, out untouched')
                    except Exception as e:      # noqa
                        P(False, clause, what + ' raised %s instead of OpDomainError' % type(e).__name__)
    try:
        op('not an element')
        P(False, 'reject-domain', 'a string argument must be rejected')
    except OpDomainError:
        P(True, 'reject-domain', 'a string argument raises OpDomainError')
    except Exception as e:      # noqa
        P(False, 'reject-domain', 'a string argument raised %s instead of OpDomainError' % type(e).__name__)
    return res


def _scaled(space, rng, kind, how):
    """An element whose entries use the whole mantissa (`mant`), additionally scaled to tiny / huge magnitudes or to
    magnitudes differing by 18 orders (`mixed`).  None when the space has no floating-point entries."""
    import odl
    if isinstance(space, odl.ProductSpace):
        parts = [_scaled(s, rng, kind, how) for s in space.spaces]
        return None if (not parts or any(p_ is None for p_ in parts)) else space.element(parts)
    if not hasattr(space, 'dtype') or not hasattr(space, 'shape') or isinstance(space, odl.set.sets.Field):
        return None
    dt = np.dtype(space.dtype)
    if not _is_float(dt):
        return None
    n = int(np.prod(space.shape))
    lo, hi = {'any': (-3, 3), 'pos': (0.1, 3), 'unit': (-1, 1), 'prob': (0.01, 0.99), 'ge1': (1, 3)}[kind]

    def draw():
        a = np.array([rng.uniform(lo, hi) for _ in range(n)])
        if how == 'tiny':
            a = a * 1e-9
        elif how == 'huge':
            a = a * 1e9
        elif how == 'mixed':
            a = a * np.array([10.0 ** rng.choice((-12, -6, 0, 6)) for _ in range(n)])
        return a
    arr = draw()
    if np.issubdtype(dt, np.complexfloating):
        arr = arr + 1j * draw()
    return space.element(arr.astype(dt).reshape(space.shape))


def _raw(x, how):
    """The values of element x as `how` = 'ndarray' (C-contiguous array of the space's dtype and shape: what
    `space.element` wraps WITHOUT copying) or 'list' (nested lists); product-space elements give a list of those.
    Returns (object, [ndarrays inside it])."""
    import odl
    sp = getattr(x, 'space', None)
    if isinstance(sp, odl.ProductSpace):
        objs, watch = [], []
        for part in x:
            o, w = _raw(part, how)
            objs.append(o)
            watch += w
        return objs, watch
    a = np.array(np.asarray(x), dtype=sp.dtype, order='C', copy=True).reshape(sp.shape)
    if how == 'ndarray':
        return a, [a]
    return a.tolist(), []


def _probe_inputs(op, kind, rng, x, P):
    """`x bit-for-bit unchanged` for every way of passing the input -- element, matching ndarray handed over
    directly (wrapped without a copy by domain.element, so the operator works on the caller's memory), nested
    list -- and for inputs with full-mantissa / tiny / huge / mixed-magnitude entries; out of place and in place.
    The values must agree with the call on the element."""
    import odl
    import warnings
    dom, ran = op.domain, op.range
    functional = isinstance(ran, odl.set.sets.Field)
    hows = ['mant'] + (['tiny', 'huge', 'mixed'] if kind in ('any', 'pos') else ['tiny'] if kind in ('unit', 'prob')
                       else [])
    variants = [('nice', x)]
    for h in hows:
        xv = _scaled(dom, rng, kind, h)
        if xv is not None:
            variants.append((h, xv))
    with warnings.catch_warnings(), np.errstate(all='ignore'):
        warnings.simplefilter('ignore')
        for vlab, xv in variants:
            xb = _flat(xv).tobytes()
            try:
                ref = op(xv)
            except Exception as e:      # noqa
                # no claim about values outside the nice range, but x must not have been modified
                P(_flat(xv).tobytes() == xb, 'x-changed-%s' % vlab, 'x bit-for-bit unchanged by a raising op(x) '
                  '(%s entries; %s)' % (vlab, type(e).__name__))
                continue
            vref = np.array([ref]) if functional else np.array(_flat(ref), copy=True)
            scale = max([1e-300] + [float(np.max(np.abs(t))) for t in (_flat(xv), vref)
                                    if t.size and np.all(np.isfinite(t))])
            # overflow (inf / inf - inf) at badly scaled inputs: no claim about values, only about x
            finite = bool(np.all(np.isfinite(vref)))

            def agree(a_, b_):
                return (not finite) or _close(a_, b_, equal_nan=True, scale=scale)
            if vlab != 'nice':
                P(_flat(xv).tobytes() == xb, 'x-changed-%s' % vlab,
                  'x (%s entries) bit-for-bit unchanged by op(x)' % vlab,
                  {'x_before': np.frombuffer(xb, dtype=_flat(xv).dtype)[:6].tolist(), 'x_after': _flat(xv)[:6].tolist()})
                if not functional:
                    y = _poison(ran)
                    try:
                        r = op(xv, out=y)
                        P(r is y and agree(_flat(y), vref) and _flat(xv).tobytes() == xb,
                          'ip-%s' % vlab, 'op(x, out=y) with %s entries returns y holding the values of op(x), x '
                          'bit-for-bit unchanged' % vlab, {'oop': vref[:6].tolist(), 'ip': _flat(y)[:6].tolist()})
                    except Exception as e:      # noqa
                        P(False, 'ip-%s' % vlab, 'op(x, out=y) with %s entries raised %s: %s'
                          % (vlab, type(e).__name__, str(e)[:80]))
            for how in ('ndarray', 'list'):
                if how == 'list' and vlab not in ('nice', 'mant'):
                    continue
                try:
                    obj, watch = _raw(xv, how)
                    dom.element(_raw(xv, how)[0])
                except Exception:      # noqa
                    continue            # the space does not take this kind of input
                before = [w.tobytes() for w in watch] + [repr(obj)]
                clause = 'input-%s-%s' % (how, vlab)
                try:
                    r = op(obj)
                    vr = np.array([r]) if functional else _flat(r)
                    same = [w.tobytes() for w in watch] + [repr(obj)] == before
                    ok = same and agree(vr, vref)
                    what = ('op(a) with a = the entries of x as %s (%s entries): a bit-for-bit unchanged and the '
                            'values of op(x)' % (how, vlab))
                    detail = {'input_unchanged': same, 'oop_element': vref[:6].tolist(), 'oop_raw': vr[:6].tolist()}
                    if ok and not functional:
                        y = _poison(ran)
                        r = op(obj, out=y)
                        same = [w.tobytes() for w in watch] + [repr(obj)] == before
                        ok = same and r is y and agree(_flat(y), vref)
                        what = ('op(a, out=y) with a = the entries of x as %s (%s entries): a bit-for-bit unchanged, '
                                'y holds the values of op(x)' % (how, vlab))
                        detail = {'input_unchanged': same, 'oop_element': vref[:6].tolist(), 'ip_raw': _flat(y)[:6].tolist()}
                    P(ok, clause, what, detail)
                except Exception as e:      # noqa
                    P(False, clause, 'call with the entries of x as %s (%s entries) raised %s: %s'
                      % (how, vlab, type(e).__name__, str(e)[:80]))


def _in_kind(x, kind):
    """The entries of x satisfy the input restriction `kind` of a recipe."""
    a = _flat(x)
    if not _is_float(a.dtype):
        return True
    if kind == 'any':
        return bool(np.all(np.isfinite(a)))
    if not np.all(np.isfinite(a)):
        return False
    a = np.abs(a) if np.iscomplexobj(a) else a
    return bool({'pos': np.all(a > 0), 'unit': np.all(np.abs(a) <= 1), 'prob': np.all((a > 0) & (a < 1)),
                 'ge1': np.all(a >= 1)}[kind])


def _probe_history(op, rebuild, kind, rng, P):
    """Call histories on ONE operator object: a previous result is fed back as the input (x = op(x); op(x)).  The
    call must leave that input bit-for-bit unchanged, and give the values a FRESH operator object (same
    constructor arguments, own scratch memory) gives on a copy; out of place and in place."""
    import warnings
    dom, ran = op.domain, op.range
    if ran != dom:
        return
    with warnings.catch_warnings(), np.errstate(all='ignore'):
        warnings.simplefilter('ignore')
        x0 = _rand(dom, rng, kind)
        try:
            fresh = rebuild()
            for mode in ('oop', 'ip'):
                x1 = op(x0)
                if x1 not in dom or not _in_kind(x1, kind) or not np.any(_flat(x1)):
                    return              # the result is no admissible input of this operator (e.g. log of x <= 0);
                    #                     the zero element has its own clause (zero-input)
                keep = x1.copy()
                x1b = _flat(x1).tobytes()
                want = np.array(_flat(fresh(keep)), copy=True)
                if mode == 'oop':
                    x2 = op(x1)
                else:
                    x2 = _poison(ran)
                    op(x1, out=x2)
                same = _flat(x1).tobytes() == x1b
                P(same, 'history-x-changed-%s' % mode,
                  'x = op(x0); then %s: x (a previous result of this operator object) bit-for-bit unchanged by the '
                  'call' % ('op(x)' if mode == 'oop' else 'op(x, out=y)'),
                  {'x_before': _flat(keep)[:6].tolist(), 'x_after': _flat(x1)[:6].tolist()})
                if np.all(np.isfinite(want)):
                    P(_close(_flat(x2), want, equal_nan=True), 'history-value-%s' % mode,
                      'x = op(x0); then %s has the values a fresh operator object gives on a copy of x'
                      % ('op(x)' if mode == 'oop' else 'op(x, out=y)'),
                      {'fresh': want[:6].tolist(), 'got': _flat(x2)[:6].tolist()})
        except Exception as e:      # noqa
            P(False, 'history-raises', 'x = op(x0); op(x) raised %s: %s' % (type(e).__name__, str(e)[:80]))


def _expr_tree(R, rng, depth):
    """A random expression over the classes of operator.py on R.sp -> R.sp.  Every node that takes scratch memory
    (tmp, tmp_ran, tmp_dom) gets its OWN user-supplied temporaries with probability 1/2; leaves include the
    view-returning operators (RealPart / ImagPart of a complex embedding, flattening and its inverse)."""
    odl, O, sp = R.odl, R.odl.operator.operator, R.sp
    if depth <= 0 or rng.random() < 0.2:
        pick = rng.randrange(8)
        if pick == 0:
            return odl.ScalingOperator(sp, rng.choice((3.0, -0.5, 0.0, 1.0)))
        if pick == 1:
            return odl.MultiplyOperator(R.v(sp))
        if pick == 2:
            return odl.RealPart(sp)
        if pick == 3:
            return odl.IdentityOperator(sp)
        if pick == 4:
            return odl.PowerOperator(sp, 2)
        if pick == 5:
            emb = odl.ComplexEmbedding(sp, scalar=rng.choice((1 + 2j, 2j, 1.0)))
            part = rng.choice((odl.RealPart, odl.ImagPart))(R.csp)
            return O.OperatorComp(part, emb, tmp=(R.csp.element() if rng.random() < 0.5 else None))
        if pick == 6 and len(R.shape) >= 2:
            fl = odl.FlatteningOperator(sp)
            return O.OperatorComp(fl.inverse, fl, tmp=(fl.range.element() if rng.random() < 0.5 else None))
        return odl.ConstantOperator(R.v(sp))
    t = lambda: (sp.element() if rng.random() < 0.5 else None)
    sub = lambda: _expr_tree(R, rng, depth - 1)
    pick = rng.randrange(8)
    if pick == 0:
        return O.OperatorSum(sub(), sub(), tmp_ran=t(), tmp_dom=t())
    if pick == 1:
        return O.OperatorComp(sub(), sub(), tmp=t())
    if pick == 2:
        return O.OperatorRightScalarMult(sub(), rng.choice((2.0, 0.0, -1.5)), tmp=t())
    if pick == 3:
        return O.OperatorLeftScalarMult(sub(), rng.choice((2.0, 0.0, -1.5)))
    if pick == 4:
        return O.OperatorVectorSum(sub(), R.v(sp))
    if pick == 5:
        return O.OperatorLeftVectorMult(sub(), R.v(sp))
    if pick == 6:
        return O.OperatorRightVectorMult(sub(), R.v(sp))
    return O.OperatorPointwiseProduct(sub(), sub())


def _tree_builder(cfg, seed, i):
    """A repeatable builder of the i-th random expression of (cfg, seed)."""
    import random

    def build():
        rng = random.Random(seed * 7919 + i * 104729 + 17)
        return _expr_tree(_Recipes(rng, cfg), rng, 1 + i % 3)
    return build


def _long_history(op, rebuild, rng, P, steps=6):
    """A longer call history on ONE operator object.  Every step calls it out of place or in place on a new
    random input, on the previous result, or on an earlier result.  Obligations per step: the input is
    bit-for-bit unchanged by the call, and the values are those a fresh operator object gives on a copy."""
    import warnings
    dom, ran = op.domain, op.range
    if dom != ran:
        return
    with warnings.catch_warnings(), np.errstate(all='ignore'):
        warnings.simplefilter('ignore')
        try:
            results = []
            trace = []
            for step in range(steps):
                src = rng.choice(('new', 'prev', 'earlier')) if results else 'new'
                x = _rand(dom, rng) if src == 'new' else (results[-1] if src == 'prev' else rng.choice(results))
                mode = rng.choice(('oop', 'ip'))
                trace.append('%s(%s)' % (mode, src))
                keep = x.copy()
                xb = _flat(x).tobytes()
                want = np.array(_flat(rebuild()(keep)), copy=True)
                if mode == 'oop':
                    r = op(x)
                else:
                    r = _poison(ran)
                    op(x, out=r)
                same = _flat(x).tobytes() == xb
                hist = ' -> '.join(trace)
                P(same, 'history-x-changed-%s' % mode, 'call history %s: the input of the last call (%s) is '
                  'bit-for-bit unchanged by that call' % (hist, {'new': 'a new element', 'prev': 'the previous '
                                                                   'result', 'earlier': 'an earlier result'}[src]),
                  {'x_before': _flat(keep)[:6].tolist(), 'x_after': _flat(x)[:6].tolist()})
                if not np.all(np.isfinite(want)):
                    return              # overflow: the history has left the finite numbers, no further claim
                P(_close(_flat(r), want, equal_nan=True), 'history-value-%s' % mode,
                  'call history %s: the last call gives the values of a fresh operator object on a copy of its input'
                  % hist, {'fresh': want[:6].tolist(), 'got': _flat(r)[:6].tolist()})
                if not same:
                    return
                results.append(r)
        except Exception as e:      # noqa
            P(False, 'history-raises', 'call history %s raised %s: %s' % (' -> '.join(trace), type(e).__name__,
                                                                         str(e)[:80]))


def tree_probes(cfg, seed, i):
    """All clauses of probe_operator plus a long call history for the i-th random expression of (cfg, seed)."""
    import random
    build = _tree_builder(cfg, seed, i)
    setup = ('tree', cfg, seed, i)
    op = build()
    res = probe_operator(op, 'any', random.Random(seed + i), 'ExprTree', 'tree %d' % i, cfg, setup, rebuild=build)

    def P(ok, clause, what, detail=None):
        res.append(C.Probe(bool(ok), 'ExprTree:%s:%s' % (clause, cfg), 'ExprTree[tree %d] %s: %s' % (i, cfg, what),
                           _snippet(setup, clause), detail))
    _long_history(build(), build, random.Random(seed + i + 1), P)
    return res


def search(rng, broken):
    """Directed search for a concrete input when an obligation broke but no probe failed: call histories (results
    fed back as inputs, out of place and in place) on operator objects built with every scratch option -- the
    scratch-option recipes with more seeds and a larger number of random expressions with user temporaries."""
    import random
    known = {}
    try:
        known = json.load(open(os.path.join(C.VERIF, 'findings', 'C03.json')))
    except Exception:      # noqa
        pass
    for rnd in range(4):
        seed = rng.randrange(10 ** 6)
        for cfg, _shape in CFGS:
            for i in range(40):
                try:
                    ps = tree_probes(cfg, seed, i)
                except Exception:      # noqa
                    continue
                for p in ps:
                    if not p.ok and p.key not in known:
                        return p
            recs = _all_recipes(random.Random(seed), cfg)
            for idx, (cls, label, build, kind) in enumerate(recs):
                if 'tmp' not in label:
                    continue
                try:
                    op = build()
                except Exception:      # noqa
                    continue
                name = cls or type(op).__name__
                for p in probe_operator(op, kind, random.Random(seed + 1), name, label, cfg, (cfg, idx, seed),
                                        rebuild=build):
                    if not p.ok and p.key not in known:
                        return p
    return None


def big_layout_probes(rng):
    """In-place calls of the lincomb-based operators with non-contiguous `out` and `x` in all three regimes of
    _lincomb_impl (below THRESHOLD_SMALL, below THRESHOLD_MEDIUM, BLAS: 50000 exactly and above), for
    float32 / float64 / complex128, compared with the out-of-place result on contiguous data."""
    import odl
    O = odl.operator.operator
    out = []
    shapes = [(99,), (100,), (49999,), (50000,), (65536,), (250, 200), (260, 200)]

    def regime(n):
        return 'small' if n < 100 else ('medium' if n < 50000 else 'blas')

    for shape in shapes:
        n = int(np.prod(shape))
        for dt in ('float32', 'float64', 'complex128'):
            sp = odl.tensor_space(shape, dtype=dt)
            rtol = 1e-4 if dt == 'float32' else 1e-9
            vals = (np.arange(n) % 7 - 3).astype(dt).reshape(shape)
            if dt == 'complex128':
                vals = vals + 1j * ((np.arange(n) % 5) - 2).reshape(shape)
            x = sp.element(vals)
            v = sp.element(((np.arange(n) % 3) + 1).astype(dt).reshape(shape))
            ops = [('ScalingOperator', lambda: odl.ScalingOperator(sp, 2.5)),
                   ('ScalingOperator0', lambda: odl.ScalingOperator(sp, 0.0)),
                   ('IdentityOperator', lambda: odl.IdentityOperator(sp)),
                   ('ZeroOperator', lambda: odl.ZeroOperator(sp)),
                   ('MultiplyOperator.scalar', lambda: odl.MultiplyOperator(2.0, domain=sp, range=sp)),
                   ('MultiplyOperator.elem', lambda: odl.MultiplyOperator(v)),
                   ('ConstantOperator', lambda: odl.ConstantOperator(v)),
                   ('OperatorLeftScalarMult', lambda: O.OperatorLeftScalarMult(odl.MultiplyOperator(v), 3.0)),
                   ('OperatorRightScalarMult', lambda: O.OperatorRightScalarMult(odl.MultiplyOperator(v), 3.0)),
                   ('OperatorSum', lambda: O.OperatorSum(odl.IdentityOperator(sp), odl.ScalingOperator(sp, 2.0))),
                   ('OperatorVectorSum', lambda: O.OperatorVectorSum(odl.IdentityOperator(sp), v)),
                   ('OperatorLeftVectorMult', lambda: O.OperatorLeftVectorMult(odl.IdentityOperator(sp), v)),
                   ('ProximalL2Squared', lambda: odl.solvers.proximal_l2_squared(sp)(0.5))]
            if len(shape) == 1:
                ops.append(('LinCombOperator', lambda: odl.LinCombOperator(sp, 2.0, -1.0)))
            for cls, mk in ops:
                try:
                    op = mk()
                except Exception:      # noqa
                    continue
                xin = op.domain.element([x, v]) if cls == 'LinCombOperator' else x
                try:
                    ref = np.array(_flat(op(xin)), copy=True)
                except Exception as e:      # noqa
                    out.append(C.Probe(False, '%s:big-layout-raises:%s' % (cls, regime(n)),
                                       '%s on %s %s: op(x) raised %s' % (cls, dt, shape, type(e).__name__), None))
                    continue
                xvars = [('contig', xin)] + _layout_variants(op.domain, xin, rng)
                for ylab, y in [('contig', _poison(op.range))] + _layout_variants(op.range, None, rng, fill=True):
                    for xlab, xl in xvars:
                        if ylab == 'contig' and xlab == 'contig':
                            continue
                        if ylab != 'contig' and xlab not in ('contig', ylab):
                            continue        # (strided, strided), (F, F) ... and each against contiguous
                        yy = y if xlab == xvars[0][0] or ylab == 'contig' else y
                        for a_ in _arrays(yy):
                            a_[...] = np.nan if _is_float(a_.dtype) else 77
                        xb = _flat(xl).tobytes()
                        try:
                            r = op(xl, out=yy)
                            got = _flat(yy)
                            ok = (r is yy) and got.shape == ref.shape and bool(
                                np.allclose(got, ref, rtol=rtol, atol=1e-6 if dt == 'float32' else 1e-11)) \
                                and _flat(xl).tobytes() == xb
                            detail = {'expected': ref[:4].tolist(), 'got': got[:4].tolist()}
                        except Exception as e:      # noqa
                            ok, detail = False, '%s: %s' % (type(e).__name__, str(e)[:100])
                        rp = ("import sys\nsys.path.insert(0, %r)\nfrom harness import c03\nimport random\n"
                              "ps = c03.big_layout_probes(random.Random(0))\n"
                              "bad = [p for p in ps if not p.ok and p.key == %r]\nok = not bad\nobserved = [p.what for p in bad][:3]\n"
                              % (C.VERIF, '%s:big-layout:%s' % (cls, regime(n))))
                        out.append(C.Probe(ok, '%s:big-layout:%s' % (cls, regime(n)),
                                           '%s on %s %s: op(x, out=y) with y %s, x %s holds op(x), returns y, x unchanged'
                                           % (cls, dt, shape, ylab, xlab), rp, detail))
    return out


def _all_recipes(rng, cfg):
    """[(class name, label, builder, kind, setup-key)]"""
    base = rng.randrange(2 ** 30)
    R = _Recipes(rng, cfg)
    out = []
    for cls, lst in sorted(R.table().items()):
        for label, build, kind in lst:
            out.append((cls, label, build, kind))
    for label, build, kind in R.derived():
        out.append((None, label, build, kind))
    for label, build, kind, name in _ufunc_ops(rng, cfg):
        out.append(('ufunc_' + name, label, build, kind))

    def fixed(idx, build):
        # the random vectors / matrices of recipe idx depend on (seed, idx) only: calling the builder again gives
        # a second, independent operator object with identical data (replays, and the `fresh operator` of the
        # call-history clauses)
        def again():
            rng.seed(base * 100003 + idx)
            return build()
        return again
    return [(cls, label, fixed(i, build), kind) for i, (cls, label, build, kind) in enumerate(out)]


def enumerate_classes():
    """Every concrete Operator subclass importable from the odl package (contrib excluded)."""
    import importlib
    import inspect
    import pkgutil
    import odl
    from odl.operator import Operator
    for m in pkgutil.walk_packages(odl.__path__, 'odl.'):
        if '.test' in m.name or m.name.startswith('odl.contrib'):
            continue
        try:
            importlib.import_module(m.name)
        except Exception:      # noqa
            pass

    def subs(c):
        o = set()
        for s in c.__subclasses__():
            o.add(s)
            o |= subs(s)
        return o
    return sorted((c for c in subs(Operator) if not c.__module__.startswith('odl.contrib')
                   and not c.__module__.startswith('harness')),
                  key=lambda c: (c.__module__, c.__qualname__))


COVERAGE = {}
# class -> recipe labels whose out-of-place result shares memory with x (statistic, not an alarm)
ALIASING = {}
# base classes whose `_call` is abstract / delegates to a subclass hook; never instantiated on their own
ABSTRACT_BASES = ('Functional', 'DiscreteFourierTransformBase', 'FourierTransformBase', 'WaveletTransformBase',
                  'PointwiseInnerBase', 'PointwiseTensorFieldOperator')


def replay_probe(setup, clause):
    """Re-run one recipe (identified by (big, index, seed)) and report the named clause."""
    import random
    if setup[0] == 'tree':
        ps = tree_probes(*setup[1:])
        bad = [p for p in ps if not p.ok and p.key.split(':')[1] == clause]
        return (not bad), [p.what for p in bad]
    cfg, idx, seed = setup
    rng = random.Random(seed)
    recs = _all_recipes(rng, cfg)
    cls, label, build, kind = recs[idx]
    op = build()
    name = cls or type(op).__name__
    ps = probe_operator(op, kind, random.Random(seed + 1), name, label, cfg, setup, rebuild=build)
    bad = [p for p in ps if not p.ok and p.key.split(':')[1] == clause]
    return (not bad), [p.what for p in bad]


def extra_coverage():
    """Measurements of the last probes() run that are information, not obligations."""
    aliasing = {k: sorted(v) for k, v in sorted(ALIASING.items()) if v}
    return {'classes_total': COVERAGE.get('classes_total'),
            'classes_probed': len(COVERAGE.get('classes_probed', [])),
            'abstract_bases': COVERAGE.get('abstract_bases'),
            'classes_without_recipe': COVERAGE.get('classes_without_recipe'),
            'recipe_variants_not_buildable': len(COVERAGE.get('recipes_failed_to_build', [])),
            'shape_configurations': [c for c, _ in CFGS],
            'operators_whose_result_shares_memory_with_x': aliasing,
            'note': 'a result aliasing x (RealPart/ImagPart views, FlatteningOperator order C and its inverse) is '
                    'NOT a C03 violation: the property requires x unchanged by the call, which is checked bit-wise'}


def probes(rng, tier):
    import random
    ALIASING.clear()
    out = []
    seen_classes = set()
    failed_build = []
    seeds = [rng.randrange(10 ** 6)] if tier == 'quick' else [rng.randrange(10 ** 6) for _ in range(2)]
    for seed in seeds:
        for cfg, _shape in CFGS:
            recs = _all_recipes(random.Random(seed), cfg)
            for idx, (cls, label, build, kind) in enumerate(recs):
                if tier == 'quick' and label.startswith('~'):
                    continue
                try:
                    op = build()
                except Exception as e:      # noqa
                    failed_build.append('%s[%s]: %s' % (cls, label, type(e).__name__))
                    continue
                name = cls or type(op).__name__
                seen_classes.add(type(op).__name__)
                # classes reached below the top object (operands) count as covered, too
                out += probe_operator(op, kind, random.Random(seed + 1), name, label, cfg, (cfg, idx, seed),
                                      rebuild=build)
        for cfg, _shape in CFGS:
            for i in range(10 if tier == 'quick' else 25):
                try:
                    out += tree_probes(cfg, seed, i)
                    seen_classes.add('ExprTree')
                except Exception as e:      # noqa
                    failed_build.append('ExprTree[%s %d]: %s' % (cfg, i, type(e).__name__))
    seen_classes.discard('ExprTree')
    out += big_layout_probes(random.Random(seeds[0]))
    allc = enumerate_classes()
    names = sorted(set(c.__name__ for c in allc))
    COVERAGE['classes_total'] = len(allc)
    COVERAGE['classes_probed'] = sorted(seen_classes)
    COVERAGE['abstract_bases'] = [n for n in names if n not in seen_classes and n in ABSTRACT_BASES]
    COVERAGE['classes_without_recipe'] = [n for n in names if n not in seen_classes and n not in ABSTRACT_BASES]
    COVERAGE['recipes_failed_to_build'] = sorted(set(failed_build))
    C.write_replay(PID, 'coverage', COVERAGE)
    # make the measured class coverage visible in evidence/C03.json (the driver copies ASSUMPTIONS at the end)
    note = ('probe coverage of this run: %d of %d distinct class names (%d concrete Operator classes found by '
            'introspection) were instantiated and probed (abstract bases: %s; without recipe: %s; %d recipe variants could not be built, mostly '
            'NotImplemented gradient/proximal/convex_conj combinations)'
            % (len(seen_classes & set(names)), len(names), len(allc), ', '.join(COVERAGE['abstract_bases']) or 'none',
               ', '.join(COVERAGE['classes_without_recipe']) or 'none', len(COVERAGE['recipes_failed_to_build'])))
    ASSUMPTIONS[:] = [a for a in ASSUMPTIONS if not a.startswith('probe coverage of this run')] + [note]
    return out
