"""C03 operator call protocol: translator + correspondence + probes."""
import numpy as np

from . import common as C
from translate import call_bodies as T

PID = 'C03'
SHARD_SIZE = 150
RULE = ('random operator trees (depth 0..3/4) over the 9 expression classes of operator.py and translated / '
        'primitive leaves (Scaling, Identity, Zero, Constant, Multiply, Matrix, ufunc absolute/square, RealPart, '
        'InnerProduct, L2NormSquared, harness-defined in-place-only / out-of-place-only matrix operators), '
        'sizes 2..4 and 100..130 (both lincomb regimes), user-supplied or fresh temporaries; each tree is called '
        'out-of-place and in-place (out NaN-filled or random), with x an element / list / ndarray / foreign-space '
        'element / None / junk and out possibly outside the range; a case is non-trivial when the call reaches a '
        '_call body; distinct by (tree signature, sizes, call mode, argument kinds)')
ASSUMPTIONS = ['exact arithmetic: entries and scalars are small integers / dyadic rationals, results compared with '
               'tolerance 1e-12; NaN and uninitialised memory are one absorbing value (None)',
               'sizes below THRESHOLD_MEDIUM only (the BLAS regime of _lincomb_impl is not modelled)',
               'space.element(v) of a foreign element or ndarray is modelled as a copy (NumPy may share memory)',
               'flat real tensor spaces only in the Coq model; product spaces, complex dtypes, discretized '
               'spaces and all other leaf classes are covered by probes (measured contract), not by the model']
TRUSTED = ['translate/call_bodies.py (Python ast -> C03/Syntax.v terms), fail-closed',
           'C03/Model.v interpreter of the body language and hand-written model of LinearSpace arithmetic '
           '(lincomb regimes, multiply, copy), validated by the correspondence',
           'harness/c03.py tree generator and constructor-recipe registry']


def translate():
    return {'Gen/C03Bodies.v': T.translate()}


# --------------------------------------------------------------------- literals
def oqs(xs):
    return C.lst([C.oq(float(v)) for v in xs])


def sp_term(sp):
    return '(%d, %d)%%nat' % sp


def rsp_term(r):
    return 'RField' if r == 'F' else '(RSp %s)' % sp_term(r)


def nats_opt(l):
    return C.lst(['None' if i is None else '(Some %d%%nat)' % i for i in l])


# ------------------------------------------------------------------ tree builder
class Reg(object):
    """Objects that exist before the call; identity = index."""

    def __init__(self):
        self.objs = []
        self.sps = []

    def add(self, el, sp):
        self.objs.append(el)
        self.sps.append(sp)
        return len(self.objs) - 1

    def index_of(self, el):
        for i, o in enumerate(self.objs):
            if o is el:
                return i
        return None

    def store_term(self):
        return C.lst(['(%s, %s)' % (sp_term(sp), oqs(np.asarray(o).ravel())) for o, sp in zip(self.objs, self.sps)])

    def snapshot(self):
        return [np.array(np.asarray(o).ravel(), copy=True) for o in self.objs]


_SPACES = {}


def space_of(sp):
    import odl
    if sp not in _SPACES:
        n, tag = sp
        _SPACES[sp] = odl.rn(n) if tag == 0 else odl.rn(n, weighting=float(tag + 1))
    return _SPACES[sp]


def weight_of(sp):
    return 1.0 if sp[1] == 0 else float(sp[1] + 1)


_CUSTOM = {}


def custom_classes():
    """Harness-defined leaves exercising the three dispatch outcomes on the real Operator base."""
    import odl
    if _CUSTOM:
        return _CUSTOM

    class IpMat(odl.Operator):
        def __init__(self, M, dom, ran):
            super(IpMat, self).__init__(dom, ran, linear=True)
            self.M = M

        def _call(self, x, out):
            out[:] = self.M.dot(x.asarray())

    class OopMat(odl.Operator):
        def __init__(self, M, dom, ran):
            super(OopMat, self).__init__(dom, ran, linear=True)
            self.M = M

        def _call(self, x):
            return self.M.dot(x.asarray())

    class BothMat(odl.Operator):
        def __init__(self, M, dom, ran):
            super(BothMat, self).__init__(dom, ran, linear=True)
            self.M = M

        def _call(self, x, out=None):
            if out is None:
                return self.range.element(self.M.dot(x.asarray()))
            out[:] = self.M.dot(x.asarray())
            return out

    class KwBothMat(odl.Operator):
        def __init__(self, M, dom, ran):
            super(KwBothMat, self).__init__(dom, ran, linear=True)
            self.M = M

        def _call(self, x, *, out=None):
            if out is None:
                return self.M.dot(x.asarray())
            out[:] = self.M.dot(x.asarray())

    class IpMatBadRet(odl.Operator):
        def __init__(self, M, dom, ran):
            super(IpMatBadRet, self).__init__(dom, ran, linear=True)
            self.M = M

        def _call(self, x, out):
            out[:] = self.M.dot(x.asarray())
            return x

    _CUSTOM.update(IpMat=IpMat, OopMat=OopMat, BothMat=BothMat, KwBothMat=KwBothMat, IpMatBadRet=IpMatBadRet)
    return _CUSTOM


SCALARS = [0.0, 1.0, -1.0, 2.0, 0.5, -3.0, 4.0]


def rvec(rng, n):
    return [float(rng.randint(-4, 4)) for _ in range(n)]


class Node(object):
    def __init__(self, op, coq, dom, ran, sig):
        self.op, self.coq, self.dom, self.ran, self.sig = op, coq, dom, ran, sig


def leaf_term(kind, fun, dom, ran, alias=False, quirk='QNone'):
    return ('(Lf {| lf_kind := %s; lf_fun := %s; lf_alias := %s; lf_quirk := %s |} %s %s)'
            % (kind, fun, C.b(alias), quirk, sp_term(dom), rsp_term(ran)))


def op_term(cls, dom, ran, pars=(), vecs=(), owns=(), kids=()):
    return ('(Op cls_%s %s %s %s %s %s %s)'
            % (cls, sp_term(dom), rsp_term(ran), oqs(pars), C.lst(['%d%%nat' % v for v in vecs]),
               nats_opt(owns), C.lst([k.coq for k in kids])))


def gen_leaf(rng, reg, dom, ran, big):
    import odl
    D = space_of(dom)
    n = dom[0]
    if ran == 'F':
        c = rng.choice(['inner', 'sumsq'])
        w = weight_of(dom)
        if c == 'inner':
            v = rvec(rng, n)
            vi_el = D.element(v)
            op = odl.InnerProductOperator(vi_el)
            return Node(op, leaf_term('KOop', '(PInner %s)' % oqs([w * t for t in v]), dom, ran), dom, ran, 'inner')
        op = odl.solvers.L2NormSquared(D)
        # weighted: ||x||^2 = w * sum x^2  -> model as inner with itself is not linear; use PSumSq only unweighted
        if w != 1.0:
            v = rvec(rng, n)
            op = odl.InnerProductOperator(D.element(v))
            return Node(op, leaf_term('KOop', '(PInner %s)' % oqs([w * t for t in v]), dom, ran), dom, ran, 'inner')
        return Node(op, leaf_term('KOop', 'PSumSq', dom, ran), dom, ran, 'sumsq')
    R = space_of(ran)
    m = ran[0]
    choices = ['matrix', 'ipmat', 'oopmat', 'bothmat', 'kwbothmat'] if not big else []
    if not big and rng.random() < 0.06:
        choices = ['ipmat_badret', 'oopmat_wrongsize']
    if dom != ran:
        choices += ['zero_diff']
    if dom == ran:
        choices += ['scaling', 'identity', 'zero_same', 'constant', 'multiply', 'abs', 'square', 'realpart',
                    'scaling', 'multiply', 'constant']
    else:
        choices += ['constant2']
    c = rng.choice(choices)
    if c == 'ipmat_badret':
        M = np.array([[float(rng.randint(-2, 2)) for _ in range(n)] for _ in range(m)])
        mt = '(PMat %s)' % C.lst([oqs(r) for r in M.tolist()])
        return Node(custom_classes()['IpMatBadRet'](M, D, R), leaf_term('KIp', mt, dom, ran, quirk='QReturnsX'),
                    dom, ran, c)
    if c == 'oopmat_wrongsize':
        M = np.array([[float(rng.randint(-2, 2)) for _ in range(n)] for _ in range(m + 1)])
        mt = '(PMat %s)' % C.lst([oqs(r) for r in M.tolist()])
        return Node(custom_classes()['OopMat'](M, D, R), leaf_term('KOop', mt, dom, ran), dom, ran, c)
    if c in ('matrix', 'ipmat', 'oopmat', 'bothmat', 'kwbothmat'):
        M = np.array([[float(rng.randint(-2, 2)) for _ in range(n)] for _ in range(m)])
        mt = '(PMat %s)' % C.lst([oqs(r) for r in M.tolist()])
        if c == 'matrix':
            if dom[1] != ran[1]:
                op = odl.MatrixOperator(M, domain=D, range=R)
            else:
                op = odl.MatrixOperator(M, domain=D, range=R)
            return Node(op, leaf_term('KBoth', mt, dom, ran), dom, ran, c)
        cl = custom_classes()
        kind = {'ipmat': ('IpMat', 'KIp'), 'oopmat': ('OopMat', 'KOop'), 'bothmat': ('BothMat', 'KBoth'),
                'kwbothmat': ('KwBothMat', 'KBoth')}[c]
        return Node(cl[kind[0]](M, D, R), leaf_term(kind[1], mt, dom, ran), dom, ran, c)
    if c == 'zero_diff':
        return Node(odl.ZeroOperator(D, R), op_term('ZeroOperator_diff', dom, ran), dom, ran, c)
    if c == 'constant2':
        v = rvec(rng, m)
        el = R.element(v)
        i = reg.add(el, ran)
        op = odl.ConstantOperator(el, domain=D, range=R)
        # ConstantOperator stores range.element(constant) = the same object
        assert op.constant is el
        return Node(op, op_term('ConstantOperator', dom, ran, vecs=[i]), dom, ran, c)
    if c == 'scaling':
        s = rng.choice(SCALARS)
        return Node(odl.ScalingOperator(D, s), op_term('ScalingOperator', dom, ran, pars=[s]), dom, ran, c)
    if c == 'identity':
        return Node(odl.IdentityOperator(D), op_term('ScalingOperator', dom, ran, pars=[1.0]), dom, ran, c)
    if c == 'zero_same':
        return Node(odl.ZeroOperator(D), op_term('ZeroOperator_same', dom, ran), dom, ran, c)
    if c == 'constant':
        v = rvec(rng, n)
        el = D.element(v)
        i = reg.add(el, dom)
        op = odl.ConstantOperator(el)
        assert op.constant is el
        return Node(op, op_term('ConstantOperator', dom, ran, vecs=[i]), dom, ran, c)
    if c == 'multiply':
        v = rvec(rng, n)
        el = D.element(v)
        i = reg.add(el, dom)
        op = odl.MultiplyOperator(el)
        assert op.multiplicand is el
        return Node(op, op_term('MultiplyOperator', dom, ran, vecs=[i]), dom, ran, c)
    if c == 'abs':
        return Node(odl.ufunc_ops.absolute(D), leaf_term('KBoth', 'PAbs', dom, ran), dom, ran, c)
    if c == 'square':
        return Node(odl.ufunc_ops.square(D), leaf_term('KBoth', 'PSquare', dom, ran), dom, ran, c)
    if c == 'realpart':
        return Node(odl.RealPart(D), leaf_term('KOop', 'PIdent', dom, ran, alias=True), dom, ran, c)
    raise AssertionError(c)


def mid_space(rng, big, like):
    if big:
        return like
    return (rng.choice([1, 2, 3, 4]), like[1])


def gen_tree(rng, reg, depth, dom, ran, big=False):
    """Random operator dom -> ran of the given depth; returns Node."""
    import odl
    from odl.operator import operator as O
    if depth == 0:
        return gen_leaf(rng, reg, dom, ran, big)
    D = space_of(dom)
    kinds = ['sum', 'comp', 'pprod', 'lscal', 'rscal', 'rvec']
    if ran != 'F':
        kinds += ['vecsum', 'lvec', 'flvec', 'sum', 'comp']
    c = rng.choice(kinds)
    d1 = rng.randint(0, depth - 1)
    d2 = rng.randint(0, depth - 1)
    if c == 'sum':
        l = gen_tree(rng, reg, d1, dom, ran, big)
        r = gen_tree(rng, reg, d2, dom, ran, big)
        owns = [None, None]
        kw = {}
        if ran != 'F' and rng.random() < 0.3:
            t = space_of(ran).element([np.nan] * ran[0])
            owns[0] = reg.add(t, ran)
            kw['tmp_ran'] = t
        if rng.random() < 0.15:
            t = D.element([np.nan] * dom[0])
            owns[1] = reg.add(t, dom)
            kw['tmp_dom'] = t
        op = O.OperatorSum(l.op, r.op, **kw)
        return Node(op, op_term('OperatorSum', dom, ran, owns=owns, kids=[l, r]), dom, ran,
                    ('sum', l.sig, r.sig, tuple(o is not None for o in owns)))
    if c == 'vecsum':
        a = gen_tree(rng, reg, d1, dom, ran, big)
        el = space_of(ran).element(rvec(rng, ran[0]))
        i = reg.add(el, ran)
        op = O.OperatorVectorSum(a.op, el)
        assert op.vector is el
        return Node(op, op_term('OperatorVectorSum', dom, ran, vecs=[i], kids=[a]), dom, ran, ('vecsum', a.sig))
    if c == 'comp':
        mid = mid_space(rng, big, dom)
        r = gen_tree(rng, reg, d2, dom, mid, big)
        l = gen_tree(rng, reg, d1, mid, ran, big)
        owns = [None]
        kw = {}
        if rng.random() < 0.3:
            t = space_of(mid).element([np.nan] * mid[0])
            owns[0] = reg.add(t, mid)
            kw['tmp'] = t
        op = O.OperatorComp(l.op, r.op, **kw)
        return Node(op, op_term('OperatorComp', dom, ran, owns=owns, kids=[l, r]), dom, ran,
                    ('comp', l.sig, r.sig, owns[0] is not None))
    if c == 'pprod':
        l = gen_tree(rng, reg, d1, dom, ran, big)
        r = gen_tree(rng, reg, d2, dom, ran, big)
        op = O.OperatorPointwiseProduct(l.op, r.op)
        return Node(op, op_term('OperatorPointwiseProduct', dom, ran, kids=[l, r]), dom, ran, ('pprod', l.sig, r.sig))
    if c == 'lscal':
        a = gen_tree(rng, reg, d1, dom, ran, big)
        s = rng.choice(SCALARS)
        op = O.OperatorLeftScalarMult(a.op, s)
        if isinstance(a.op, O.OperatorLeftScalarMult):
            # __init__ merges the scalars and drops one level; mirror it
            inner = a.kid0
            s_eff = s * a.par0
            n = Node(op, op_term('OperatorLeftScalarMult', dom, ran, pars=[s_eff], kids=[inner]), dom, ran,
                     ('lscal', inner.sig, s_eff))
            n.kid0, n.par0 = inner, s_eff
            return n
        n = Node(op, op_term('OperatorLeftScalarMult', dom, ran, pars=[s], kids=[a]), dom, ran, ('lscal', a.sig, s))
        n.kid0, n.par0 = a, s
        return n
    if c == 'rscal':
        a = gen_tree(rng, reg, d1, dom, ran, big)
        s = rng.choice(SCALARS)
        owns = [None]
        kw = {}
        if rng.random() < 0.3:
            t = D.element([np.nan] * dom[0])
            owns[0] = reg.add(t, dom)
            kw['tmp'] = t
        op = O.OperatorRightScalarMult(a.op, s, **kw)
        if isinstance(a.op, O.OperatorRightScalarMult):
            inner = a.kid0
            s_eff = s * a.par0
            n = Node(op, op_term('OperatorRightScalarMult', dom, ran, pars=[s_eff], owns=owns, kids=[inner]),
                     dom, ran, ('rscal', inner.sig, s_eff, owns[0] is not None))
            n.kid0, n.par0 = inner, s_eff
            return n
        n = Node(op, op_term('OperatorRightScalarMult', dom, ran, pars=[s], owns=owns, kids=[a]), dom, ran,
                 ('rscal', a.sig, s, owns[0] is not None))
        n.kid0, n.par0 = a, s
        return n
    if c == 'lvec':
        a = gen_tree(rng, reg, d1, dom, ran, big)
        el = space_of(ran).element(rvec(rng, ran[0]))
        i = reg.add(el, ran)
        op = O.OperatorLeftVectorMult(a.op, el)
        return Node(op, op_term('OperatorLeftVectorMult', dom, ran, vecs=[i], kids=[a]), dom, ran, ('lvec', a.sig))
    if c == 'rvec':
        a = gen_tree(rng, reg, d1, dom, ran, big)
        el = D.element(rvec(rng, dom[0]))
        i = reg.add(el, dom)
        op = O.OperatorRightVectorMult(a.op, el)
        return Node(op, op_term('OperatorRightVectorMult', dom, ran, vecs=[i], kids=[a]), dom, ran, ('rvec', a.sig))
    if c == 'flvec':
        f = gen_tree(rng, reg, d1, dom, 'F', big)
        el = space_of(ran).element(rvec(rng, ran[0]))
        i = reg.add(el, ran)
        op = O.FunctionalLeftVectorMult(f.op, el)
        return Node(op, op_term('FunctionalLeftVectorMult', dom, ran, vecs=[i], kids=[f]), dom, ran, ('flvec', f.sig))
    raise AssertionError(c)


# ------------------------------------------------------------------ running a case
def classify_exc(e):
    from odl.operator.operator import OpDomainError, OpRangeError
    if isinstance(e, OpDomainError):
        return 'EDomain'
    if isinstance(e, OpRangeError):
        return 'ERange'
    if isinstance(e, TypeError):
        return 'EFunctionalOut'
    if isinstance(e, ValueError):
        return 'EBadReturn'
    return 'EOther'


def run_call(node, reg, x_py, out_py, use_out):
    """Run the real call; returns (iout term, post term)."""
    from odl.set.space import LinearSpaceElement
    try:
        r = node.op(x_py, out=out_py) if use_out else node.op(x_py)
    except Exception as e:      # noqa
        return 'IErr %s' % classify_exc(e), C.lst([oqs(d) for d in reg.snapshot()])
    post = C.lst([oqs(d) for d in reg.snapshot()])
    if isinstance(r, LinearSpaceElement):
        i = reg.index_of(r)
        ident = 'None' if i is None else '(Some %d%%nat)' % i
        return 'IElem %s %s' % (ident, oqs(np.asarray(r).ravel())), post
    if isinstance(r, (float, int, complex, np.floating, np.integer)):
        return 'ISc %s' % C.oq(float(np.real(r))), post
    return 'IOther', post


def make_case(rng, depth, big, mode):
    """mode: oop | ip_nan | ip_rand | xlist | xarr | xforeign | xnone | xjunk | xwrong |
             out_foreign | out_wrongsize | out_array | out_scalar | f_out_elem | f_out_scalar"""
    reg = Reg()
    n = rng.choice([100, 101, 130]) if big else rng.choice([2, 3, 3, 4])
    tag = 0 if rng.random() < 0.8 else 1
    dom = (n, tag)
    functional = mode in ('f_out_elem', 'f_out_scalar') or (mode == 'oop' and rng.random() < 0.2)
    if functional:
        ran = 'F'
    else:
        ran = dom if (big or rng.random() < 0.6) else (rng.choice([2, 3, 4]), tag)
    # x and out come first in the registry
    D = space_of(dom)
    xdata = rvec(rng, n)
    x_el = D.element(xdata)
    x_term = None
    if mode == 'xlist':
        x_py, x_term = list(xdata), '(VArr %s)' % oqs(xdata)
    elif mode == 'xarr':
        x_py, x_term = np.array(xdata), '(VArr %s)' % oqs(xdata)
    elif mode == 'xforeign':
        fsp = (n, 1 - tag)
        x_py = space_of(fsp).element(xdata)
        x_term = '(VElem %d%%nat)' % reg.add(x_py, fsp)
    elif mode == 'xnone':
        x_py, x_term = None, 'VNone'
    elif mode == 'xjunk':
        x_py, x_term = 'abc', 'VJunk'
    elif mode == 'xwrong':
        if rng.random() < 0.5:
            x_py = list(xdata) + [1.0]
            x_term = '(VArr %s)' % oqs(x_py)
        else:
            wsp = (n + 1, tag)
            x_py = space_of(wsp).element(xdata + [1.0])
            x_term = '(VElem %d%%nat)' % reg.add(x_py, wsp)
    else:
        x_py = x_el
        x_term = '(VElem %d%%nat)' % reg.add(x_el, dom)
    use_out = mode in ('ip_nan', 'ip_rand', 'out_foreign', 'out_wrongsize', 'out_array', 'out_scalar',
                       'f_out_elem', 'f_out_scalar') or (mode.startswith('x') and rng.random() < 0.4 and ran != 'F')
    out_py, out_term = None, 'None'
    if use_out:
        if ran == 'F':
            if mode == 'f_out_scalar':
                out_py, out_term = 5.0, '(Some (VSc %s))' % C.oq(5.0)
            else:
                out_py = D.element([np.nan] * n)
                out_term = '(Some (VElem %d%%nat))' % reg.add(out_py, dom)
        else:
            m = ran[0]
            if mode == 'out_foreign':
                osp = (m, 1 - ran[1])
            elif mode == 'out_wrongsize':
                osp = (m + 1, ran[1])
            else:
                osp = ran
            if mode == 'out_array':
                out_py, out_term = np.zeros(m), '(Some (VArr %s))' % oqs([0.0] * m)
            elif mode == 'out_scalar':
                out_py, out_term = 5.0, '(Some (VSc %s))' % C.oq(5.0)
            else:
                init = rvec(rng, osp[0]) if mode == 'ip_rand' else [np.nan] * osp[0]
                out_py = space_of(osp).element(init)
                out_term = '(Some (VElem %d%%nat))' % reg.add(out_py, osp)
    node = gen_tree(rng, reg, depth, dom, ran, big)
    store = reg.store_term()
    res, post = run_call(node, reg, x_py, out_py, use_out)
    term = ('{| k_store := %s;\n     k_op := %s;\n     k_x := %s; k_out := %s;\n     k_res := %s;\n     k_post := %s; k_cmp := %s |}'
            % (store, node.coq, x_term, out_term, res, post, C.b(mode != 'xnone')))
    desc = {'mode': mode, 'dom': dom, 'ran': ran, 'tree': repr(node.sig)[:300], 'result': res[:60]}
    key = (mode, dom, ran if ran == 'F' else tuple(ran), repr(node.sig), use_out)
    return term, desc, key


MODES = ['oop', 'ip_nan', 'ip_rand', 'oop', 'ip_nan', 'ip_nan', 'xlist', 'xarr', 'xforeign', 'xnone', 'xjunk',
         'xwrong', 'out_foreign', 'out_wrongsize', 'out_array', 'out_scalar', 'f_out_elem', 'f_out_scalar']


def kind_cases():
    """Dispatch kind of every class of the anchored files: table from the source vs Operator.__new__."""
    import importlib
    import inspect
    from odl.operator import Operator
    cs = C.CaseSet('kinds', ['C03.Syntax', 'Gen.C03Bodies', 'C03.Model', 'C03.Corr'], 'kcheck', 'kcase')
    seen = set()
    for src in T.ANCHORED:
        mod = importlib.import_module(src[:-3].replace('/', '.'))
        for name, obj in sorted(vars(mod).items()):
            if not (inspect.isclass(obj) and issubclass(obj, Operator)) or obj.__module__ != mod.__name__:
                continue
            if '_call' not in obj.__dict__ or obj in seen:
                continue
            seen.add(obj)
            # Operator.__new__ sets the flags on first instantiation; ask the real dispatcher instead
            from odl.operator.operator import _dispatch_call_args
            try:
                has_out, out_optional, _ = _dispatch_call_args(obj)
            except Exception:
                continue
            cs.add('{| kc_name := "%s"%%string; kc_has_out := %s; kc_out_optional := %s |}'
                   % (name, C.b(has_out), C.b(out_optional)),
                   {'class': name, 'has_out': has_out, 'out_optional': out_optional}, ('kind', name))
    return cs


def prox_cases(rng, tier):
    """proximal_l2(space)(sigma) in the branch sigma*lam >= ||x|| (translated body: out.set_zero()).
    Out-of-place calls on fewer than THRESHOLD_SMALL entries read uninitialised memory and are
    not deterministic (finding set-zero-reads-out): they are probed, not compared."""
    import odl
    cs = C.CaseSet('prox_l2_bigstep', ['C03.Syntax', 'Gen.C03Bodies', 'C03.Poison', 'C03.Model', 'C03.Corr'],
                   'check', 'case')
    sizes = [1, 2, 3, 7, 99, 100, 101, 130] if tier == 'quick' else [1, 2, 3, 5, 7, 50, 98, 99, 100, 101, 102, 130, 200]
    for n in sizes:
        for tag in (0, 1):
            for mode in ('ip_nan', 'ip_rand', 'ip_partnan', 'oop'):
                if mode == 'oop' and n < 100:
                    continue
                sp = (n, tag)
                D = space_of(sp)
                reg = Reg()
                xdata = rvec(rng, n) if rng.random() < 0.8 else [0.0] * n
                x = D.element(xdata)
                xi = reg.add(x, sp)
                out_py, out_term = None, 'None'
                if mode != 'oop':
                    init = {'ip_nan': [np.nan] * n, 'ip_rand': rvec(rng, n),
                            'ip_partnan': [np.nan if i % 2 else 1.0 for i in range(n)]}[mode]
                    out_py = D.element(init)
                    out_term = '(Some (VElem %d%%nat))' % reg.add(out_py, sp)
                op = odl.solvers.proximal_l2(D)(1000.0)
                node = Node(op, op_term('ProximalL2_bigstep', sp, sp), sp, sp, 'prox_l2_bigstep')
                store = reg.store_term()
                res, post = run_call(node, reg, x, out_py, mode != 'oop')
                term = ('{| k_store := %s;\n     k_op := %s;\n     k_x := (VElem %d%%nat); k_out := %s;\n'
                        '     k_res := %s;\n     k_post := %s; k_cmp := true |}'
                        % (store, node.coq, xi, out_term, res, post))
                cs.add(term, {'op': 'proximal_l2(space)(1000.0)', 'n': n, 'tag': tag, 'mode': mode,
                              'result': res[:60]}, ('prox', n, tag, mode))
    return cs


SIGS = ['self, x', 'self, x, out', 'self, x, out=None', 'self, x, *, out=None', 'self, x, *, out=1',
        'self, out', 'self, out, x', 'self, x, y', 'self, x, out=1', 'self, x=None, out=None', 'self, x, *args',
        'self, x, out, *args', 'self', 'self, x, out, z', 'self, x, **kwargs', 'self, x, out, **kwargs',
        'self, x, out=None, **kwargs', 'self, x, *, out=None, **kwargs', 'self, x, *, other=None',
        'self, y', 'self, y, out', 'self, x, OUT', 'self, x=3', 'self, x, *, out']


def dispatch_cases():
    """The real _dispatch_call_args on classes with every signature shape vs the Coq decision table."""
    import inspect
    from odl.operator.operator import _dispatch_call_args
    cs = C.CaseSet('dispatch', ['C03.Syntax', 'Gen.C03Bodies', 'C03.Model', 'C03.Corr'], 'dcheck', 'dcase')
    for sig in SIGS:
        env = {}
        exec('class K(object):\n    def _call(%s):\n        pass\n' % sig, env)
        K = env['K']
        try:
            has_out, out_optional, _ = _dispatch_call_args(K)
            res = '(Some (%s, %s))' % (C.b(has_out), C.b(out_optional))
        except ValueError:
            res = 'None'
        except (TypeError, KeyError):
            # `_call(self, x, *, out)` (keyword-only out WITHOUT default) makes the dispatcher itself crash
            # on kw_only_defaults['out']; not a call-protocol matter, kept out of the table (see notes)
            continue
        sp = inspect.getfullargspec(K._call)
        pos = sp.args[1:]
        ndef = len(sp.defaults or ())
        last_none = bool(sp.defaults) and sp.defaults[-1] is None
        if 'out' in sp.kwonlyargs:
            kd = (sp.kwonlydefaults or {}).get('out', 'nodefault')
            kwout = '(Some %s)' % C.b(kd is None)
            if kd == 'nodefault':
                kwout = None
        else:
            kwout = 'None'
        if kwout is None:
            # keyword-only out without default: the real code raises KeyError; keep it out of the table
            continue
        term = ('{| dc_sig := {| s_pos := %s; s_ndef := %d; s_last_none := %s; s_vararg := %s; s_kwout := %s |}; '
                'dc_res := %s |}' % (C.lst(['"%s"%%string' % a for a in pos]), ndef, C.b(last_none),
                                     C.b(sp.varargs is not None), kwout, res))
        cs.add(term, {'signature': '_call(%s)' % sig, 'result': res}, ('sig', sig))
    return cs


def correspondence(rng, tier):
    cs = C.CaseSet('trees', ['C03.Syntax', 'Gen.C03Bodies', 'C03.Poison', 'C03.Model', 'C03.Corr'], 'check', 'case')
    nsmall = 420 if tier == 'quick' else 3000
    nbig = 40 if tier == 'quick' else 300
    maxd = 3 if tier == 'quick' else 4
    for k in range(nsmall):
        mode = MODES[k % len(MODES)]
        depth = rng.choice([0, 1, 1, 2, 2, 3][:maxd + 2]) if maxd == 3 else rng.choice([0, 1, 1, 2, 2, 3, 3, 4])
        term, desc, key = make_case(rng, depth, False, mode)
        cs.add(term, desc, key)
    for k in range(nbig):
        mode = ['oop', 'ip_nan', 'ip_rand', 'ip_nan'][k % 4]
        term, desc, key = make_case(rng, rng.choice([0, 1, 2, 2]), True, mode)
        cs.add(term, desc, key)
    return [cs, prox_cases(rng, tier), kind_cases(), dispatch_cases()]


def probes(rng, tier):
    return []


LEVEL_TEXT = ('Partial proof. Coq proves, for EVERY store, every NaN-free input, every (NaN-filled or not) content of '
              'out and of uninitialised memory: (1) for ANY `_call` implementation, op(x, out=y) can only return y, '
              'op(x) is in op.range, uncastable input / out outside the range / out for a functional are rejected '
              'before any slot runs with the store untouched; (2) both default bridges are correct for all three '
              'dispatch kinds; (3) space.lincomb writes a*x1+b*x2 in both size regimes and all alias patterns; '
              '(4) by structural induction over operator trees of ANY depth built from the nine expression classes '
              '(bodies regenerated from operator.py), five translated leaf classes and primitive leaves of all three '
              'dispatch kinds incl. alias-returning ones: in-place = out-of-place = the denoted function, result is y / '
              'an element of the range, no other pre-existing object (in particular x) is modified; same for '
              'functional-valued trees. Refuted (and recorded): out.set_zero() on < 100 entries keeps NaN, hence '
              'proximal_l2 (step >= 1) in place AND out of place, and three more operators found by the probes. '
              'All other leaf classes (199 of 211 classes + 24 proximal factories + 72 ufuncs x 3 space kinds) are '
              'validated by probes that measure the leaf contract, not proved.')
LEVEL_NOTE = ('Trusted: translate/call_bodies.py (fail-closed ast grammar) and the interpreter of the body language; the '
              'hand-written model of LinearSpace arithmetic (lincomb tree, multiply, copy) validated by 600-3500 exact '
              'differential cases incl. NaN-filled out, user temporaries, foreign-space arguments, error outcomes; exact '
              'arithmetic with one absorbing NaN (rounding, inf, BLAS regime >= 50000 entries out of scope); flat real '
              'tensor spaces in the model. Theorems assume x, out and operator-owned elements are distinct objects and '
              '(in the theorems, not in the correspondence) fresh temporaries; the refutations show these side '
              'conditions are necessary. Axioms: classical reals + funext as printed.')
TECHNIQUE = ('Coq: heap semantics over a poisoned carrier, symbolic execution of source-regenerated `_call` bodies, '
             'structural induction over operator trees; in-Coq differential correspondence; introspection-driven probes')
