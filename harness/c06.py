"""C06 derivatives: translator (ufunc tables) + correspondence (expression trees, leaves, tables) + probes."""
import math

import numpy as np

from . import common as C
from translate import ufunc_deriv as T
from translate import derivatives as TD
from translate import gradients as TG

PID = 'C06'
SHARD_SIZE = 150
RULE = ('random well-typed expression trees (depth 0..4 quick, 0..6 thorough) over the 13 modelled classes '
        '(OperatorSum/VectorSum/Comp/PointwiseProduct/Left-,RightScalarMult/Left-,RightVectorMult/FunctionalLeftVectorMult, '
        'Broadcast/Reduction/Diagonal/ProductSpaceOperator with holes), built from the constructors and from the '
        'arithmetic overloads, with leaves Scaling/Identity/Multiply/Matrix/InnerProduct/Zero/Constant/Power/ufunc '
        'square,reciprocal,negative,absolute,sign/PointwiseNorm(1)/PointwiseInner/RealPart/ImagPart/'
        'ComplexModulusSquared/a user-defined cubic operator, on rn(1..3), cn(1..3), the scalar field and product '
        'spaces of 1..3 parts; block operators also forced at the root; 12% second-order cases (the object returned by '
        'derivative is differentiated again); integer and dyadic points/directions; per case the operator value, '
        'is_linear, the WHOLE object returned by derivative(x) (class skeleton + every scalar/vector/point it holds), '
        'its is_linear/domain/range and its value on a direction are compared, or that derivative(x) raises; '
        'Norm/Dist/PointwiseNorm(2)/ComplexModulus/L2Norm on Pythagorean points; every entry of the regenerated ufunc '
        'derivative/gradient tables against numpy primitives; random trees of the functional arithmetic (value, '
        'gradient element, derivative(x)(d), class of derivative(x)).  A tree case is non-trivial when the operator is '
        'flagged nonlinear; distinct by (tree, x, d).')
ASSUMPTIONS = ['exact arithmetic: float rounding is outside the theorems (tolerance 1e-9 abs+rel in the correspondence); '
               'that the run at Q is the rational restriction of the model at R is PROVED for the polynomial part '
               '(C06/Transfer.v) and assumed for the parts with square roots / divisions',
               'elements of rn(n) are modelled as lists, the scalar field as singleton lists, product-space elements as '
               'the concatenation of their parts',
               'differentiability of a composite is proved at points where every leaf met along the way is '
               'differentiable (regular points); zero-crossings of reciprocal/log/sqrt/|.|/norm are excluded as in the property',
               'the literal Frechet statement (||F(x+h)-F(x)-D h|| <= eps ||h|| for ||h|| < delta, sup norm and '
               'Euclidean norm) is PROVED for every operator tree (C06/Frechet.v, FrechetTrees.v), with the added premise '
               'that user-defined leaves are Frechet differentiable; for the functional arithmetic the derivative is '
               'stated curve-wise (Hadamard), which a Frechet derivative is proved to agree with; the general converse '
               '(Hadamard + linear => Frechet on R^n, needs compactness of the unit sphere) is not formalised; ODL\'s '
               'weighted 2-norms differ from the Euclidean norm by constant factors (norm equivalence lemma fdiff_norms)',
               'central-difference O(h^2) rate is validated numerically (probes: error ratio per decade of h in the asymptotic '
               'window), not proved']
TRUSTED = ['translate/ufunc_deriv.py, translate/derivatives.py, translate/gradients.py (Python ast -> Gallina rules), fail-closed',
           'C06/Interp.v, C06/FInterp.v: meaning of the rule syntax (the overloads scalar*op, op*scalar, vector*op, op*vector, '
           'value*op, op+op and the constructors); the model is PROVED equal to the interpreted regenerated rules and is also '
           'tied by the structural correspondence',
           'harness serialiser of Python operator objects into oexpr/fexpr terms; the measured variant switch mav',
           'NumPy entry-wise kernels, ODL element arithmetic']


def translate():
    return {'Gen/UfuncDeriv.v': T.translate(), 'Gen/Derivatives.v': TD.translate(),
            'Gen/Gradients.v': TG.translate()}


# ------------------------------------------------------------------ spaces
def sp_term(sp):
    import odl
    if isinstance(sp, odl.set.sets.Field):
        return 'SF'
    if isinstance(sp, odl.ProductSpace):
        if not all(isinstance(p, odl.space.base_tensors.TensorSpace) for p in sp):
            raise Unsupported('nested product space')
        return '(SP [%s]%%nat)' % '; '.join('%d' % p.size for p in sp)
    if sp.is_complex:
        return '(SC %d)' % sp.size
    return '(SV %d)' % sp.size


def vals(el):
    """element (or scalar) -> flat list of floats (product-space elements are concatenated)"""
    import odl
    if isinstance(el, (int, float, np.floating, np.integer)):
        return [float(el)]
    if isinstance(getattr(el, 'space', None), odl.ProductSpace):
        return [v for part in el for v in vals(part)]
    a = np.asarray(el).ravel()
    if np.iscomplexobj(a):               # cn(n): real parts ++ imaginary parts
        return [float(v) for v in a.real] + [float(v) for v in a.imag]
    return [float(v) for v in a]


def fscal(z):
    """a scalar of a real or complex field as a real number (complex scalars are not modelled)"""
    z = complex(z)
    if z.imag != 0:
        raise Unsupported('complex scalar')
    return z.real


def _closure_point(Dop, space):
    """the point captured by the locally defined derivative classes of ComplexModulus(Squared)"""
    for c in (type(Dop)._call.__closure__ or ()):
        v = c.cell_contents
        if getattr(v, 'space', None) == space:
            return v
    raise Unsupported('cannot find the point of %s' % type(Dop).__name__)


class Unsupported(Exception):
    pass


def wts(sp):
    """the weighting of a tensor space as an array of per-entry weights (inner = sum w_i x_i y_i)"""
    if getattr(sp, 'exponent', 2.0) != 2.0:
        raise Unsupported('no inner product')
    w = sp.weighting
    if hasattr(w, 'array'):
        return [float(v) for v in np.asarray(w.array).ravel()]
    if hasattr(w, 'const'):
        return [float(w.const)] * sp.size
    raise Unsupported('weighting %r' % (w,))


def _user_ops():
    import odl

    class CubicDeriv(odl.Operator):
        def __init__(self, space, point):
            super(CubicDeriv, self).__init__(space, space, linear=True)
            self.point = point

        def _call(self, d):
            return (3 * self.point * self.point - 1) * d

    class Cubic(odl.Operator):
        """user-defined nonlinear operator x -> x^3 - x (entry-wise) with its own derivative"""

        def __init__(self, space):
            super(Cubic, self).__init__(space, space, linear=False)

        def _call(self, x):
            return x * x * x - x

        def derivative(self, x):
            return CubicDeriv(self.domain, self.domain.element(x).copy())

    return Cubic, CubicDeriv


def _ref_ops():
    import odl

    class RefCubicDeriv(odl.Operator):
        """keeps the point BY REFERENCE and evaluates it lazily, as ComplexModulus(.).derivative does"""

        def __init__(self, space, point):
            super(RefCubicDeriv, self).__init__(space, space, linear=True)
            self.point = point

        def _call(self, d, out=None):
            r = (3 * self.point * self.point - 1) * d
            if out is None:
                return r
            out.assign(r)

    class RefCubic(odl.Operator):
        """x -> x^3 - x with in-place evaluation; derivative(x) keeps x itself"""

        def __init__(self, space):
            super(RefCubic, self).__init__(space, space, linear=False)

        def _call(self, x, out=None):
            r = x * x * x - x
            if out is None:
                return r
            out.assign(r)

        def derivative(self, x):
            return RefCubicDeriv(self.domain, self.domain.element(x))

    return RefCubic, RefCubicDeriv


_CACHE = {}


def ref_ops():
    if 'r' not in _CACHE:
        _CACHE['r'] = _ref_ops()
    return _CACHE['r']


def user_ops():
    if 'u' not in _CACHE:
        _CACHE['u'] = _user_ops()
    return _CACHE['u']


def ser(op):
    """Python operator object -> Gallina term of type oexpr (T:=Q)."""
    import odl
    from odl.operator import operator as O
    from odl.operator import default_ops as D
    Cubic, CubicDeriv = user_ops()
    t = type(op)
    n = t.__name__
    if t is O.OperatorSum:
        return '(OSum %s %s)' % (ser(op.left), ser(op.right))
    if t is O.OperatorVectorSum:
        return '(OVecSum %s %s)' % (ser(op.operator), C.qs(vals(op.vector)))
    if t is O.OperatorComp:
        return '(OComp %s %s)' % (ser(op.left), ser(op.right))
    if t is O.OperatorPointwiseProduct:
        return '(OPProd %s %s)' % (ser(op.left), ser(op.right))
    if t is O.OperatorLeftScalarMult:
        return '(OLScal %s %s)' % (ser(op.operator), C.q(fscal(op.scalar)))
    if t is O.OperatorRightScalarMult:
        return '(ORScal %s %s)' % (ser(op.operator), C.q(fscal(op.scalar)))
    if t is O.OperatorLeftVectorMult:
        return '(OLVec %s %s)' % (ser(op.operator), C.qs(vals(op.vector)))
    if t is O.OperatorRightVectorMult:
        return '(ORVec %s %s)' % (ser(op.operator), C.qs(vals(op.vector)))
    if t is O.FunctionalLeftVectorMult:
        return '(OFLVec %s %s)' % (ser(op.functional), C.qs(vals(op.vector)))
    PS = odl.operator.pspace_ops
    if t is PS.BroadcastOperator:
        return '(OBroadcast [%s])' % '; '.join(ser(o) for o in op.operators)
    if t is PS.ReductionOperator:
        return '(OReduction [%s])' % '; '.join(ser(o) for o in op.operators)
    if t is PS.DiagonalOperator:
        return '(ODiagonal [%s])' % '; '.join(ser(o) for o in op.operators)
    if t is PS.ProductSpaceOperator:
        if not (isinstance(op.domain, odl.ProductSpace) and isinstance(op.range, odl.ProductSpace)):
            raise Unsupported('ProductSpaceOperator between non-product spaces')
        cs = '[%s]%%nat' % '; '.join('%d' % p.size for p in op.domain)
        rs = '[%s]%%nat' % '; '.join('%d' % p.size for p in op.range)
        ents = '; '.join('(%d, %d, %s)%%nat' % (int(i), int(j), ser(o))
                         for i, j, o in zip(op.ops.row, op.ops.col, op.ops.data))
        return '(OPSO %s %s [%s])' % (cs, rs, ents)
    if t in (D.ScalingOperator, D.IdentityOperator):
        return '(OLeaf (LScale %s %s))' % (sp_term(op.domain), C.q(fscal(op.scalar)))
    if t is D.MultiplyOperator:
        if op.domain != op.range:
            raise Unsupported('MultiplyOperator between different spaces')
        return '(OLeaf (LMul %s %s))' % (sp_term(op.domain), C.qs(vals(op.multiplicand)))
    if n == 'MatrixOperator':
        m = np.asarray(op.matrix)
        return '(OLeaf (LMat %d %s))' % (m.shape[1], C.qss(m.tolist()))
    if t is D.InnerProductOperator:
        return '(OLeaf (LInner %s %s))' % (C.qs(wts(op.vector.space)), C.qs(vals(op.vector)))
    if t is D.ZeroOperator:
        return '(OLeaf (LZero %s %s))' % (sp_term(op.domain), sp_term(op.range))
    if t is D.ConstantOperator:
        return '(OLeaf (LConst %s %s %s))' % (sp_term(op.domain), sp_term(op.range), C.qs(vals(op.constant)))
    if t is D.PowerOperator:
        p = float(op.exponent)
        if p != int(p):
            raise Unsupported('non-integer exponent')
        return '(OLeaf (LPow %s %s))' % (sp_term(op.domain), C.z(int(p)))
    if t is D.NormOperator:
        return '(OLeaf (LNorm %s))' % C.qs(wts(op.domain))
    if t is D.DistOperator:
        return '(OLeaf (LDist %s %s))' % (C.qs(wts(op.domain)), C.qs(vals(op.vector)))
    if n.endswith('_op') and n[:-3] in T.UFN and t.__module__ == 'odl.ufunc_ops.ufunc_ops':
        return '(OLeaf (LUf U%s %d))' % (n[:-3], op.domain.size)
    if n in ('PointwiseNorm', 'PointwiseInner') and t.__module__ == 'odl.operator.tensor_ops':
        vf = op.domain
        if not (isinstance(vf, odl.ProductSpace) and vf.is_power_space and vf[0].ndim == 1 and vf.is_real):
            raise Unsupported('pointwise operator on an unsupported vector-field space')
        w = C.qs([float(v) for v in op.weights])
        if n == 'PointwiseNorm':
            p = float(op.exponent)
            if p not in (1.0, 2.0):
                raise Unsupported('PointwiseNorm exponent %r' % p)
            return '(OLeaf (LPwNorm %d %d %s))' % (vf[0].size, int(p), w)
        return '(OLeaf (LPwInner %d %s %s))' % (vf[0].size, w, C.qs(vals(op.vecfield)))
    if t is D.RealPart:
        return '(OLeaf (LRe %s))' % sp_term(op.domain)
    if t is D.ImagPart:
        return '(OLeaf (LIm %s))' % sp_term(op.domain)
    if t is D.ComplexModulus:
        return '(OLeaf (LCMod %s))' % sp_term(op.domain)
    if t is D.ComplexModulusSquared:
        return '(OLeaf (LCMod2 %s))' % sp_term(op.domain)
    if n in ('ComplexModulusDerivative', 'ComplexModulusSquaredDerivative') and t.__module__ == 'odl.operator.default_ops':
        return '(OLeaf (LCModD %s %s %s))' % (C.b(n == 'ComplexModulusSquaredDerivative'), sp_term(op.domain),
                                             C.qs(vals(_closure_point(op, op.domain))))
    if t is Cubic:
        return '(OLeaf (LAbs %d))' % op.domain.size
    if t is CubicDeriv:
        return '(OLeaf (LAbsD %d %s))' % (op.domain.size, C.qs(vals(op.point)))
    raise Unsupported('no model for class %s' % n)


# ---------------------------------------------------------------- generator
SCAL = [2.0, 3.0, -1.0, 0.5, -2.0, 1.0, 4.0, -0.5, 0.0]
ENT = [1.0, 2.0, -1.0, 3.0, 0.5, -2.0, 4.0, -3.0, 1.5]


def rvec(rng, n, zero_ok=True):
    pool = ENT + ([0.0] if zero_ok else [])
    return [rng.choice(pool) for _ in range(n)]


class Gen(object):
    """random well-typed trees built from the real classes (constructors, not overloads: the derivative
    rules live on the classes; the overloads used inside the rules are what the model's mk_* mirror).
    Spaces: the field, rn(1..3) and product spaces of 1..3 such rn's."""

    def __init__(self, rng):
        import odl
        self.rng = rng
        self.odl = odl
        self.F = odl.RealNumbers()
        self.V = {n: odl.rn(n) for n in (1, 2, 3)}
        self.Cn = {n: odl.cn(n) for n in (1, 2, 3)}
        # the same sizes with a constant / an array weighting (different spaces for ODL; the weights only
        # matter to InnerProduct / Norm / Dist)
        self.W = {n: [odl.rn(n, weighting=rng.choice([2.0, 0.5, 4.0])),
                      odl.rn(n, weighting=[rng.choice([1.0, 2.0, 0.5, 4.0]) for _ in range(n)])] for n in (1, 2, 3)}
        self._P = {}

    def vspace(self):
        n = self.rng.choice([1, 2, 2, 3, 3])
        if self.rng.random() < 0.3:
            return self.rng.choice(self.W[n])
        return self.V[n]

    def pspace(self, k=None):
        k = k or self.rng.choice([1, 2, 2, 3])
        key = tuple(self.rng.choice([1, 2, 3]) for _ in range(k))
        if self.rng.random() < 0.35:
            key = (key[0],) * k
        if key not in self._P:
            self._P[key] = self.odl.ProductSpace(*[self.V[n] for n in key])
        return self._P[key]

    def space(self, allow_field=True, allow_prod=True):
        r = self.rng.random()
        if allow_field and r < 0.17:
            return self.F
        if allow_prod and r > 0.8:
            return self.pspace()
        if allow_prod and 0.7 < r <= 0.8:
            return self.Cn[self.rng.choice([1, 2, 3])]
        return self.vspace()

    def is_c(self, s):
        return (not self.is_f(s)) and (not self.is_p(s)) and s.is_complex

    def is_f(self, s):
        return s is self.F

    def is_p(self, s):
        return isinstance(s, self.odl.ProductSpace)

    def el(self, s, zero_ok=True):
        if self.is_f(s):
            return self.rng.choice(ENT)
        if self.is_p(s):
            return s.element([self.el(p, zero_ok) for p in s])
        if self.is_c(s):
            return s.element(np.array(rvec(self.rng, s.size, zero_ok)) + 1j * np.array(rvec(self.rng, s.size, True)))
        return s.element(rvec(self.rng, s.size, zero_ok))

    def leaf(self, dom, ran):
        odl, rng = self.odl, self.rng
        D = odl.operator.default_ops
        PS = odl.operator.pspace_ops
        O = odl.operator.operator
        Cubic, _ = user_ops()
        # complex spaces: only the real-linear structure (real scalars, Re, Im, modulus)
        if self.is_c(dom) or self.is_c(ran):
            if self.is_c(dom) and self.is_c(ran) and dom.size == ran.size:
                k = rng.choice(['scale', 'ident', 'zero', 'const'])
                if k == 'scale':
                    return D.ScalingOperator(dom, rng.choice(SCAL))
                if k == 'ident':
                    return D.IdentityOperator(dom)
                if k == 'zero':
                    return D.ZeroOperator(dom)
                return D.ConstantOperator(self.el(dom))
            if self.is_c(dom) and ran == dom.real_space:
                # (ComplexModulus needs exact roots: dedicated cases on Pythagorean points only)
                k = rng.choice(['re', 'im', 'cmod2', 'cmod2'])
                return {'re': D.RealPart, 'im': D.ImagPart, 'cmod2': D.ComplexModulusSquared}[k](dom)
            if self.is_c(dom):
                mid = dom.real_space
                return O.OperatorComp(self.leaf(mid, ran), self.leaf(dom, mid))
            # into a complex space: constants and zero
            if self.is_f(dom) or self.is_p(dom):
                mid = self.vspace()
                return O.OperatorComp(self.leaf(mid, ran), self.leaf(dom, mid))
            return D.ConstantOperator(self.el(ran), domain=dom, range=ran) if rng.random() < 0.7 \
                else D.ZeroOperator(dom, ran)
        # product spaces: the smallest block operator that fits
        if self.is_p(dom) or self.is_p(ran):
            if self.is_p(dom) and self.is_p(ran):
                if len(dom) == len(ran) and rng.random() < 0.6:
                    return PS.DiagonalOperator(*[self.leaf(a, b) for a, b in zip(dom, ran)])
                if rng.random() < 0.7:
                    return PS.ProductSpaceOperator([[self.leaf(a, b) if (i == j or rng.random() < 0.5) or len(dom) != len(ran) else None
                                                     for j, a in enumerate(dom)] for i, b in enumerate(ran)])
                mid = self.vspace()
                return O.OperatorComp(self.leaf(mid, ran), self.leaf(dom, mid))
            if self.is_p(ran):
                if self.is_f(dom):
                    mid = self.vspace()
                    return O.OperatorComp(self.leaf(mid, ran), self.leaf(dom, mid))
                return PS.BroadcastOperator(*[self.leaf(dom, b) for b in ran])
            if self.is_f(ran):
                mid = self.vspace()
                return O.OperatorComp(self.leaf(mid, ran), self.leaf(dom, mid))
            if all(a == ran for a in dom) and rng.random() < 0.5:
                # vector field space X^k -> X: point-wise 1-norm (|.| is rational) or point-wise inner product
                vfs = odl.ProductSpace(ran, len(dom))
                w = rng.choice([None, 2.0, [rng.choice([0.5, 1.0, 3.0]) for _ in range(len(dom))]])
                if rng.random() < 0.6:
                    return odl.PointwiseNorm(vfs, exponent=1, weighting=w)
                return odl.PointwiseInner(vfs, self.el(vfs), weighting=w)
            return PS.ReductionOperator(*[self.leaf(a, ran) for a in dom])
        if self.is_f(dom) and self.is_f(ran):
            k = rng.choice(['scale', 'pow', 'mul', 'zero', 'ident'])
            if k == 'scale':
                return D.ScalingOperator(dom, rng.choice(SCAL))
            if k == 'ident':
                return D.IdentityOperator(dom)
            if k == 'pow':
                return D.PowerOperator(dom, rng.choice([1, 2, 3, 2]))
            if k == 'mul':
                return D.MultiplyOperator(rng.choice(ENT), domain=dom, range=ran)
            return D.ZeroOperator(dom)
        if self.is_f(dom):
            # field -> rn: vector times a scalar-valued operator
            return O.FunctionalLeftVectorMult(self.leaf(dom, dom), self.el(ran))
        if self.is_f(ran):
            return D.InnerProductOperator(self.el(dom))
        if dom != ran:
            k = rng.choice(['mat', 'mat', 'zero', 'const'])
            if k == 'mat':
                return odl.MatrixOperator(np.array([rvec(rng, dom.size) for _ in range(ran.size)]),
                                          domain=dom, range=ran)
            if k == 'zero':
                return D.ZeroOperator(dom, ran)
            return D.ConstantOperator(self.el(ran), domain=dom, range=ran)
        k = rng.choice(['scale', 'ident', 'mul', 'mat', 'zero', 'const', 'const0', 'pow', 'pow', 'square', 'square',
                        'recip', 'neg', 'cubic', 'cubic', 'abs', 'sign', 'realops'])
        if k == 'realops':     # Re / Im / modulus on a REAL space (x.real is x, x.imag is 0)
            return rng.choice([D.RealPart, D.ImagPart, D.ComplexModulusSquared, D.ComplexModulusSquared])(dom)
        if k == 'scale':
            return D.ScalingOperator(dom, rng.choice(SCAL))
        if k == 'ident':
            return D.IdentityOperator(dom)
        if k == 'mul':
            return D.MultiplyOperator(self.el(dom))
        if k == 'mat':
            return odl.MatrixOperator(np.array([rvec(rng, dom.size) for _ in range(ran.size)]), domain=dom, range=ran)
        if k == 'zero':
            return D.ZeroOperator(dom)
        if k == 'const':
            return D.ConstantOperator(self.el(dom))
        if k == 'const0':
            return D.ConstantOperator(dom.zero())
        if k == 'pow':
            return D.PowerOperator(dom, rng.choice([1, 2, 3, -1, 2, 3]))
        if k == 'square':
            return odl.ufunc_ops.square(dom)
        if k == 'recip':
            return odl.ufunc_ops.reciprocal(dom)
        if k == 'neg':
            return odl.ufunc_ops.negative(dom)
        if k in ('abs', 'sign'):
            # ufuncs without a derivative: derivative(x) raises (rarely chosen so most trees are differentiable)
            if rng.random() < 0.25:
                return getattr(odl.ufunc_ops, 'absolute' if k == 'abs' else 'sign')(dom)
            return odl.ufunc_ops.square(dom)
        return Cubic(dom)

    def tree(self, dom, ran, depth):
        rng = self.rng
        O = self.odl.operator.operator
        PS = self.odl.operator.pspace_ops
        if depth <= 0 or rng.random() < 0.12:
            return self.leaf(dom, ran)
        kinds = ['sum', 'comp', 'comp', 'lscal', 'rscal', 'ovl', 'ovl']
        if not self.is_c(ran):
            kinds += ['pprod']
        if not self.is_f(ran):
            kinds += ['vecsum']
        if not self.is_f(ran) and not self.is_c(ran):
            kinds += ['lvec']
        if not self.is_f(ran) and not self.is_p(ran) and not self.is_c(ran):
            kinds += ['flvec']
        if not self.is_f(dom) and not self.is_c(dom):
            kinds += ['rvec']
        # (block operators between complex parts are not modelled: parts are rn(n))
        if self.is_p(ran) and not self.is_f(dom) and not self.is_p(dom) and not self.is_c(dom):
            kinds += ['broadcast'] * 3
        if self.is_p(dom) and not self.is_f(ran) and not self.is_p(ran) and not self.is_c(ran):
            kinds += ['reduction'] * 3
        if self.is_p(dom) and self.is_p(ran) and len(dom) == len(ran):
            kinds += ['diagonal'] * 3
        if self.is_p(dom) and self.is_p(ran):
            kinds += ['pso'] * 4
        k = rng.choice(kinds)
        d = depth - 1
        if k == 'ovl':
            # through the arithmetic overloads of Operator (they build the same classes)
            how = ['add', 'sub', 'neg', 'smul', 'muls', 'div']
            if not self.is_f(ran):
                how += ['addv']
            if not self.is_f(ran) and not self.is_c(ran):
                how += ['vmul']
            if not self.is_f(dom) and not self.is_c(dom):
                how += ['mulv']
            if dom == ran:
                how += ['pow']
            h = rng.choice(how)
            a = self.tree(dom, ran, d)
            sc = rng.choice([2.0, -1.0, 0.5, -2.0, 4.0])
            if h == 'add':
                return a + self.tree(dom, ran, d)
            if h == 'sub':
                return a - self.tree(dom, ran, d)
            if h == 'neg':
                return -a
            if h == 'smul':
                return sc * a
            if h == 'muls':
                return a * sc
            if h == 'div':
                return a / sc
            if h == 'addv':
                return a + self.el(ran)
            if h == 'vmul':
                return self.el(ran) * a
            if h == 'mulv':
                return a * self.el(dom)
            return a ** rng.choice([2, 2, 3])
        if k == 'sum':
            return O.OperatorSum(self.tree(dom, ran, d), self.tree(dom, ran, d))
        if k == 'vecsum':
            return O.OperatorVectorSum(self.tree(dom, ran, d), self.el(ran))
        if k == 'comp':
            mid = self.space()
            return O.OperatorComp(self.tree(mid, ran, d), self.tree(dom, mid, d))
        if k == 'pprod':
            return O.OperatorPointwiseProduct(self.tree(dom, ran, d), self.tree(dom, ran, d))
        if k == 'lscal':
            return O.OperatorLeftScalarMult(self.tree(dom, ran, d), rng.choice(SCAL))
        if k == 'rscal':
            return O.OperatorRightScalarMult(self.tree(dom, ran, d), rng.choice(SCAL))
        if k == 'lvec':
            return O.OperatorLeftVectorMult(self.tree(dom, ran, d), self.el(ran))
        if k == 'rvec':
            return O.OperatorRightVectorMult(self.tree(dom, ran, d), self.el(dom))
        if k == 'broadcast':
            return PS.BroadcastOperator(*[self.tree(dom, b, d) for b in ran])
        if k == 'reduction':
            return PS.ReductionOperator(*[self.tree(a, ran, d) for a in dom])
        if k == 'diagonal':
            return PS.DiagonalOperator(*[self.tree(a, b, d) for a, b in zip(dom, ran)])
        if k == 'pso':
            nr, nc = len(ran), len(dom)
            keep = [[rng.random() < 0.6 for _ in range(nc)] for _ in range(nr)]
            for i in range(nr):                       # no empty row / column (spaces are inferred)
                if not any(keep[i]):
                    keep[i][rng.randrange(nc)] = True
            for j in range(nc):
                if not any(keep[i][j] for i in range(nr)):
                    keep[rng.randrange(nr)][j] = True
            return PS.ProductSpaceOperator([[self.tree(dom[j], ran[i], d) if keep[i][j] else None
                                             for j in range(nc)] for i in range(nr)])
        return O.FunctionalLeftVectorMult(self.tree(dom, self.F, d), self.el(ran))


BIG = 1e5


def _finite_small(xs):
    return all(math.isfinite(v) and abs(v) <= BIG for v in xs)


def _nums_in(term):
    """all numerators/denominators written in a term are of moderate size (proxy for intermediate magnitudes)"""
    return len(term) < 60000


def run_case(op, x, d):
    """Evaluate the implementation; returns (coq_term, info) or None when the case must be discarded
    (non-finite or huge values: 1/0 has no counterpart in exact arithmetic)."""
    import odl
    try:
        return _run_case(op, x, d)
    except FloatingPointError:
        return None          # a division by zero / invalid operation inside: no counterpart in exact arithmetic


def _run_case(op, x, d):
    import odl
    with np.errstate(divide='raise', invalid='raise', over='ignore', under='ignore'):
        e = ser(op)
        try:
            val = vals(op(x))
        except (TypeError, AttributeError, IndexError, odl.OpDomainError, odl.OpRangeError, odl.OpTypeError,
                odl.set.space.LinearSpaceTypeError):
            # only possible for second-order cases: the object returned by derivative() cannot be applied.
            # An empty value list never matches the model's value: the case fails
            val = []
        lin = bool(op.is_linear)
        try:
            Dop = op.derivative(x)
            raised = None
        except FloatingPointError:
            raise
        except Exception as ex:       # the model predicts WHETHER it raises, not the class
            Dop, raised = None, type(ex).__name__
        if Dop is not None:
            try:
                De = ser(Dop)
                Dd = vals(Dop(d))
                Dlin = bool(Dop.is_linear)
                if Dop.domain != op.domain or Dop.range != op.range:
                    raise Unsupported('derivative between the wrong spaces')
            except (Unsupported, TypeError, AttributeError, IndexError, odl.OpDomainError, odl.OpRangeError,
                    odl.OpTypeError, odl.set.space.LinearSpaceTypeError) as ex:
                # the returned object is not something the model can produce: force a mismatch
                De, Dd, Dlin = '(OLeaf (LZero SF SF))', [], False
                raised = 'derivative object unusable: %s' % type(ex).__name__
            dterm = '(DOk %s %s %s)' % (De, C.b(Dlin), C.qs(Dd))
            allv = val + Dd + _floats_of(Dop)
        else:
            dterm = 'DRaise'
            allv = list(val)
        allv += _floats_of(op)
    if not _finite_small(allv):
        return None
    term = ('{| c_e := %s; c_x := %s; c_d := %s; c_lin := %s; c_val := %s; c_der := %s |}'
            % (e, C.qs(vals(x)), C.qs(vals(d)), C.b(lin), C.qs(val), dterm))
    if not _nums_in(term):
        return None
    return term, {'op': repr(op)[:300], 'x': vals(x), 'd': vals(d), 'raised': raised}


def _floats_of(op):
    """every scalar/vector stored in an operator tree (for the magnitude filter)"""
    out = []
    for attr in ('scalar', 'vector', 'multiplicand', 'constant', 'point'):
        if hasattr(op, attr):
            try:
                out += vals(getattr(op, attr))
            except Exception:
                pass
    for attr in ('left', 'right', 'operator', 'functional'):
        sub = getattr(op, attr, None)
        if sub is not None and hasattr(sub, 'domain'):
            out += _floats_of(sub)
    return out


def tree_cases(rng, tier):
    cs = C.CaseSet('trees', ['C06.Syntax', 'Gen.UfuncDeriv', 'C06.Model', 'C06.Corr'], 'check', 'case')
    g = Gen(rng)
    n = 700 if tier == 'quick' else 5000
    maxd = 4 if tier == 'quick' else 6
    tries = 0
    while len(cs.cases) < n and tries < 20 * n:
        tries += 1
        depth = rng.choice(range(0, maxd + 1))
        dom, ran = g.space(), g.space()
        try:
            op = g.tree(dom, ran, depth)
        except Exception as ex:
            raise RuntimeError('generator built an ill-typed tree: %r' % ex)
        x = g.el(dom, zero_ok=False)
        d = g.el(dom)
        if rng.random() < 0.12:
            # second order: the object returned by derivative(x) is itself an operator tree (linear,
            # holding inner points): differentiate IT ("linear => self" on derived objects)
            try:
                with np.errstate(all='ignore'):
                    op = op.derivative(x)
                x = g.el(dom, zero_ok=False)
            except Exception:
                continue
        try:
            r = run_case(op, x, d)
        except (ValueError, OverflowError, ZeroDivisionError):
            r = None             # a non-finite number somewhere: no counterpart in exact arithmetic
        if r is None:
            continue
        term, info = r
        info['depth'] = depth
        key = (term,) if not op.is_linear else None
        cs.add(term, info, key)
    return cs


def block_cases(rng, tier):
    """block operators at the root (and right below it), all four classes, 1..3 blocks, parts rn(1..3)"""
    cs = C.CaseSet('blocks', ['C06.Syntax', 'Gen.UfuncDeriv', 'C06.Model', 'C06.Corr'], 'check', 'case')
    g = Gen(rng)
    import odl
    O = odl.operator.operator
    PS = odl.operator.pspace_ops
    n = 60 if tier == 'quick' else 400
    for kind in ('broadcast', 'reduction', 'diagonal', 'pso', 'sandwich'):
        made = tries = 0
        while made < n and tries < 20 * n:
            tries += 1
            d = rng.choice([0, 1, 1, 2, 2, 3])
            k = rng.choice([1, 2, 2, 3])
            if kind == 'broadcast':
                dom, ran = g.vspace(), g.pspace(k)
                op = PS.BroadcastOperator(*[g.tree(dom, b, d) for b in ran])
            elif kind == 'reduction':
                dom, ran = g.pspace(k), g.vspace()
                op = PS.ReductionOperator(*[g.tree(a, ran, d) for a in dom])
            elif kind == 'diagonal':
                dom, ran = g.pspace(k), g.pspace(k)
                op = PS.DiagonalOperator(*[g.tree(a, b, d) for a, b in zip(dom, ran)])
            elif kind == 'pso':
                dom, ran = g.pspace(), g.pspace()
                nr, nc = len(ran), len(dom)
                keep = [[rng.random() < 0.6 for _ in range(nc)] for _ in range(nr)]
                for i in range(nr):
                    if not any(keep[i]):
                        keep[i][rng.randrange(nc)] = True
                for j in range(nc):
                    if not any(keep[i][j] for i in range(nr)):
                        keep[rng.randrange(nr)][j] = True
                op = PS.ProductSpaceOperator([[g.tree(dom[j], ran[i], d) if keep[i][j] else None
                                               for j in range(nc)] for i in range(nr)])
            else:
                # reduction o (pso | diagonal) o broadcast, wrapped by the arithmetic classes
                dom, ran = g.vspace(), g.vspace()
                p1, p2 = g.pspace(k), g.pspace(k)
                mid = PS.DiagonalOperator(*[g.tree(a, b, d) for a, b in zip(p1, p2)]) if rng.random() < 0.5 \
                    else g.tree(p1, p2, 1)
                op = O.OperatorComp(PS.ReductionOperator(*[g.tree(a, ran, d) for a in p2]),
                                    O.OperatorComp(mid, PS.BroadcastOperator(*[g.tree(dom, b, d) for b in p1])))
                w = rng.choice(['none', 'rscal', 'pprod', 'rvec'])
                if w == 'rscal':
                    op = O.OperatorRightScalarMult(op, rng.choice(SCAL))
                elif w == 'pprod':
                    op = O.OperatorPointwiseProduct(op, g.tree(dom, ran, 1))
                elif w == 'rvec':
                    op = O.OperatorRightVectorMult(op, g.el(dom))
            x = g.el(op.domain, zero_ok=False)
            dd = g.el(op.domain)
            try:
                r = run_case(op, x, dd)
            except (ValueError, OverflowError, ZeroDivisionError):
                r = None
            if r is None:
                continue
            term, info = r
            info['kind'] = kind
            cs.add(term, info, (term,) if not op.is_linear else None)
            made += 1
    return cs


# Pythagorean data: ||x|| and ||x - v|| are integers (exact roots in the Q model)
PYTH = [([3.0, 4.0], [3.0, -1.0]), ([6.0, 8.0], [3.0, 4.0]), ([3.0, 4.0, 12.0], [3.0, 4.0, 0.0]),
        ([1.0, 2.0, 2.0], [1.0, -2.0, -1.0]), ([5.0], [2.0]), ([-4.0, 3.0], [0.0, 0.0]),
        ([2.0, 3.0, 6.0], [0.0, 0.0, 0.0]), ([8.0, -6.0], [8.0, 4.0]),
        ([0.0, 0.0], [3.0, 4.0]),          # norm not differentiable: raises
        ([1.0, 1.0, 4.0], [1.0, 1.0, 4.0])]  # dist not differentiable at the reference: raises (norm irrational: skipped where needed)


def norm_cases(rng, tier):
    import odl
    O = odl.operator.operator
    D = odl.operator.default_ops
    cs = C.CaseSet('normdist', ['C06.Syntax', 'Gen.UfuncDeriv', 'C06.Model', 'C06.Corr'], 'check', 'case')
    F = odl.RealNumbers()
    reps = 1 if tier == 'quick' else 4
    WPYTH = [(sp_, xs_, vs_) for xs_, vs_ in PYTH for sp_ in
             (odl.rn(len(xs_)), odl.rn(len(xs_), weighting=4.0), odl.rn(len(xs_), weighting=[0.25] * len(xs_)))]
    WPYTH += [(odl.rn(2, weighting=[1.0, 4.0]), [3.0, 2.0], [3.0, 0.0]),
              (odl.rn(3, weighting=[4.0, 1.0, 1.0]), [1.0, 2.0, 1.0], [1.0, -1.0, -3.0]),
              (odl.uniform_discr(0, 1, 4), [3.0, 4.0, 0.0, 12.0], [3.0, 4.0, 0.0, 0.0]),
              (odl.uniform_discr(0, 0.5, 2), [6.0, 8.0], [3.0, 4.0])]
    for X, xs, vs in WPYTH:
        x, v = X.element(xs), X.element(vs)
        nx = float(x.norm())
        norm_exact = nx == int(nx) or 2 * nx == int(2 * nx)
        N, Di = D.NormOperator(X), D.DistOperator(v)
        for _ in range(reps):
            s = rng.choice([2.0, -3.0, 0.5, 1.0, -1.0])
            w = odl.rn(2).element(rvec(rng, 2))
            ops = [Di, O.OperatorLeftScalarMult(Di, s), O.FunctionalLeftVectorMult(Di, w),
                   O.OperatorComp(D.PowerOperator(F, rng.choice([2, 3])), Di),
                   O.OperatorPointwiseProduct(Di, D.InnerProductOperator(X.element(rvec(rng, len(xs)))))]
            if norm_exact:
                ops += [N, O.OperatorLeftScalarMult(N, s), O.OperatorRightScalarMult(N, s),
                        O.FunctionalLeftVectorMult(N, w), O.OperatorSum(N, Di), O.OperatorPointwiseProduct(N, Di),
                        O.OperatorPointwiseProduct(Di, N),
                        O.OperatorComp(D.PowerOperator(F, rng.choice([2, 3])), N),
                        O.OperatorComp(D.ScalingOperator(F, s), O.OperatorPointwiseProduct(N, N)),
                        O.OperatorRightScalarMult(O.OperatorSum(N, D.InnerProductOperator(X.element(rvec(rng, len(xs))))), s)]
            for op in ops:
                d = X.element(rvec(rng, len(xs)))
                r = run_case(op, x, d)
                if r is None:
                    continue
                term, info = r
                cs.add(term, info, (term,))
    # ComplexModulus on entries with integer modulus (3+4j, 6-8j, 5, 12j-5, ...), complex and real spaces
    CM = [[3 + 4j, 6 - 8j], [5 + 12j], [-4 + 3j, 8 + 15j, 5 + 0j], [0 + 2j, 3 - 4j]]
    for zs in CM:
        Cs = odl.cn(len(zs))
        Rs = odl.rn(len(zs))
        for sp_, xx in ((Cs, Cs.element(zs)), (Rs, Rs.element([abs(z) for z in zs]))):
            M = D.ComplexModulus(sp_)
            for _ in range(reps):
                s_ = rng.choice([2.0, -3.0, 0.5])
                ops = [M, O.OperatorLeftScalarMult(M, s_), O.OperatorRightScalarMult(M, s_),
                       O.OperatorComp(odl.ufunc_ops.square(Rs), M), O.OperatorSum(M, D.ComplexModulusSquared(sp_)),
                       O.OperatorPointwiseProduct(M, D.RealPart(sp_)),
                       O.OperatorComp(D.InnerProductOperator(Rs.element(rvec(rng, len(zs)))), M)]
                for op in ops:
                    g_ = Gen(rng)
                    g_.Cn[len(zs)] = Cs
                    d = Cs.element(np.array(rvec(rng, len(zs))) + 1j * np.array(rvec(rng, len(zs)))) \
                        if sp_ is Cs else Rs.element(rvec(rng, len(zs)))
                    r = run_case(op, xx, d)
                    if r is None:
                        continue
                    term, info = r
                    cs.add(term, info, (term,))
    # PointwiseNorm, exponent 2 (and 1): component fields whose weighted squares sum to squares at every index
    PW = [([[3.0, 6.0], [4.0, 8.0]], [1.0, 1.0]), ([[3.0, 6.0], [2.0, 4.0]], [1.0, 4.0]),
          ([[3.0, 5.0, -8.0], [4.0, 12.0, 15.0]], [1.0, 1.0]), ([[2.0, -3.0]], [1.0]), ([[1.0, -2.0]], [4.0]),
          ([[1.0], [2.0], [2.0]], [1.0, 1.0, 1.0]), ([[2.0, 1.0], [3.0, 2.0], [6.0, 2.0]], [1.0, 1.0, 1.0]),
          ([[0.0, 3.0], [0.0, 4.0]], [1.0, 1.0])]      # N = 0 at index 0: the code leaves that entry alone
    for fs, w in PW:
        k, nn = len(fs), len(fs[0])
        B = odl.rn(nn)
        vfs = odl.ProductSpace(B, k)
        x = vfs.element(fs)
        for _ in range(reps):
            for wt_ in (w, None if all(v == 1.0 for v in w) else w):
                for p in (2, 1):
                    if p == 1 and any(v == 0.0 for f in fs for v in f):
                        continue
                    N = odl.PointwiseNorm(vfs, exponent=p, weighting=wt_)
                    s_ = rng.choice([2.0, -3.0, 0.5])
                    ops = [N, O.OperatorLeftScalarMult(N, s_), O.OperatorRightScalarMult(N, s_),
                           O.OperatorComp(odl.ufunc_ops.square(B), N),
                           O.OperatorPointwiseProduct(N, odl.PointwiseInner(vfs, vfs.element([rvec(rng, nn) for _ in range(k)]))),
                           O.OperatorComp(N, odl.BroadcastOperator(*[D.ScalingOperator(B, float(i + 1)) for i in range(k)]))
                           if False else O.OperatorSum(N, N)]
                    for op in ops:
                        d = vfs.element([rvec(rng, nn) for _ in range(k)])
                        r = run_case(op, x, d)
                        if r is None:
                            continue
                        term, info = r
                        cs.add(term, info, (term,))
    return cs


UPOINTS = [[0.5, 1.0, 0.25], [1.5, 0.75, 2.0], [0.125, 3.0, 1.25]]
PRIMS = ['sin', 'cos', 'tan', 'sqrt', 'log', 'exp', 'sinh', 'cosh', 'reciprocal', 'square']


def ufunc_cases(rng, tier):
    import odl
    cs = C.CaseSet('ufunc', ['C06.Syntax', 'Gen.UfuncDeriv', 'C06.Model', 'C06.Corr'], 'ucheck', 'ucase')
    X = odl.rn(3)
    F = odl.RealNumbers()
    pts = UPOINTS if tier == 'quick' else UPOINTS + [[rng.choice([0.25, 0.5, 0.75, 1.25, 1.75, 2.5]) for _ in range(3)]
                                                       for _ in range(6)]
    with np.errstate(all='ignore'):
        for name in T.UFN:
            for p in pts:
                if name in ('arcsin', 'arccos', 'arctanh'):
                    p = [min(v, 0.875) for v in p]
                if name == 'arccosh':
                    p = [v + 1.0 for v in p]
                prim = '[' + '; '.join('(U%s, %s)' % (g, C.qs(getattr(np, g)(np.array(p)).tolist())) for g in PRIMS) + ']'
                # operator on rn(3)
                op = getattr(odl.ufunc_ops, name)(X)
                try:
                    Dop = op.derivative(X.element(p))
                    mult = 'Some %s' % C.qs(vals(Dop(X.one())))
                except odl.OpNotImplementedError:
                    mult = 'None'
                cs.add('{| u_f := U%s; u_grad := false; u_x := %s; u_prim := %s; u_lin := %s; u_mult := %s |}'
                       % (name, C.qs(p), prim, C.b(op.is_linear), mult),
                       {'ufunc': name, 'kind': 'operator', 'point': p}, (name, 'op', tuple(p)))
                # functional on the real numbers: the gradient table
                f = getattr(odl.ufunc_ops, name)(F)
                x0 = p[0]
                prim1 = '[' + '; '.join('(U%s, %s)' % (g, C.qs([float(getattr(np, g)(x0))])) for g in PRIMS) + ']'
                try:
                    gv = f.gradient(x0)
                    mult = 'Some %s' % C.qs([float(gv)])
                except (NotImplementedError, TypeError):
                    # TypeError: property(Functional.gradient) of the fallback is not callable (see finding
                    # ufunc-functional-fallback-gradient); both mean "no gradient"
                    mult = 'None'
                cs.add('{| u_f := U%s; u_grad := true; u_x := %s; u_prim := %s; u_lin := %s; u_mult := %s |}'
                       % (name, C.qs([x0]), prim1, C.b(f.is_linear), mult),
                       {'ufunc': name, 'kind': 'functional', 'point': x0}, (name, 'func', x0))
    return cs


# ------------------------------------------------------------ functionals
def functional_variants():
    """mav: which behaviour the current source exhibits on the replay input of the recorded finding
    FunctionalComp-MatrixOperator-weighted-space (DESIGN 2.5): MatrixOperator.adjoint between weighted spaces
    is the plain transpose (False) or the true adjoint (True).  The theorem covers both."""
    if 'fvar' not in _CACHE:
        import odl
        X = odl.rn(2, weighting=2.0)
        M = odl.MatrixOperator(np.array([[1.0, 2.0]]), domain=X, range=odl.rn(1))
        a = np.asarray(M.adjoint(odl.rn(1).element([1.0])))
        _CACHE['fvar'] = bool(not np.allclose(a, [1.0, 2.0]))   # plain transpose: (1, 2); true adjoint: (0.5, 1)
    return _CACHE['fvar']


def fser(f):
    """Python functional -> Gallina term of type fexpr (T:=Q)"""
    import odl
    import odl.solvers as S
    Fm = odl.solvers.functional.functional
    Dm = odl.solvers.functional.default_functionals
    t = type(f)
    n = f.domain.size
    if type(f).__name__ == 'RosenbrockFunctional':
        return '(FRosen %d %s)' % (n, C.q(float(f.scale)))
    if t is Dm.L2NormSquared:
        return '(FL2Sq %d)' % n
    if t is Dm.L2Norm:
        return '(FL2 %d)' % n
    if t is Dm.L1Norm:
        return '(FL1 %d)' % n
    if t is Dm.ConstantFunctional:
        return '(FConst %d %s)' % (n, C.q(float(f.constant)))
    if t is Dm.ZeroFunctional:
        return '(FConst %d %s)' % (n, C.q(0.0))
    if t is Fm.FunctionalLeftScalarMult:
        return '(FLScal %s %s)' % (fser(f.functional), C.q(float(f.scalar)))
    if t is Fm.FunctionalRightScalarMult:
        return '(FRScal %s %s)' % (fser(f.functional), C.q(float(f.scalar)))
    if t is Fm.FunctionalScalarSum:
        return '(FScalarSum %s %s)' % (fser(f.left), C.q(float(f.scalar)))
    if t is Fm.FunctionalSum:
        return '(FSum %s %s)' % (fser(f.left), fser(f.right))
    if t is Fm.FunctionalTranslation:
        return '(FTransl %s %s)' % (fser(f.functional), C.qs(vals(f.translation)))
    if t is Fm.FunctionalQuadraticPerturb:
        return '(FQP %s %s %s %s)' % (fser(f.functional), C.q(float(f.quadratic_coeff)),
                                      C.qs(vals(f.linear_term)), C.q(float(f.constant)))
    if t is Fm.FunctionalProduct:
        return '(FProd %s %s)' % (fser(f.left), fser(f.right))
    if t is Fm.FunctionalQuotient:
        return '(FQuot %s %s)' % (fser(f.dividend), fser(f.divisor))
    if t is Fm.FunctionalRightVectorMult:
        return '(FRVec %s %s)' % (fser(f.functional), C.qs(vals(f.vector)))
    if t is Fm.FunctionalComp and type(f.right).__name__ == 'MatrixOperator':
        m = np.asarray(f.right.matrix)
        return '(FCompM %s %s %d %s)' % (fser(f.left), C.qs(wts(f.right.range)), m.shape[1], C.qss(m.tolist()))
    raise Unsupported('no model for functional %s' % t.__name__)


def fgen(rng, X, depth):
    """random functional on the unweighted space X = rn(n), built from the classes of functional.py"""
    import odl
    import odl.solvers as S
    Fm = odl.solvers.functional.functional
    n = X.size
    if depth <= 0 or rng.random() < 0.15:
        k = rng.choice(['l2sq', 'l2sq', 'l1', 'const', 'zero', 'rosen'])
        if k == 'rosen':
            if n >= 2 and type(X).__name__ != 'DiscretizedSpace' or (n >= 2 and X.ndim == 1):
                return S.RosenbrockFunctional(X, scale=rng.choice([1.0, 2.0, 0.5, 3.0]))
            return S.L2NormSquared(X)
        if k == 'l2sq':
            return S.L2NormSquared(X)
        if k == 'l1':
            return S.L1Norm(X)
        if k == 'const':
            return S.ConstantFunctional(X, rng.choice([2.0, -1.0, 0.5]))
        return S.ZeroFunctional(X)
    d = depth - 1
    k = rng.choice(['lscal', 'rscal', 'sum', 'ssum', 'transl', 'qp', 'prod', 'quot', 'rvec', 'compm'])
    sc = rng.choice([2.0, -1.0, 0.5, 3.0, -2.0])
    if k == 'lscal':
        return Fm.FunctionalLeftScalarMult(fgen(rng, X, d), sc)
    if k == 'rscal':
        return Fm.FunctionalRightScalarMult(fgen(rng, X, d), sc)
    if k == 'sum':
        return Fm.FunctionalSum(fgen(rng, X, d), fgen(rng, X, d))
    if k == 'ssum':
        return Fm.FunctionalScalarSum(fgen(rng, X, d), sc)
    if k == 'transl':
        return Fm.FunctionalTranslation(fgen(rng, X, d), X.element(rvec(rng, n)))
    if k == 'qp':
        return Fm.FunctionalQuadraticPerturb(fgen(rng, X, d), rng.choice([0.0, 1.0, -0.5, 2.0]),
                                             X.element(rvec(rng, n)) if rng.random() < 0.8 else None,
                                             rng.choice([0.0, 1.0, -2.0]))
    if k == 'prod':
        return Fm.FunctionalProduct(fgen(rng, X, d), fgen(rng, X, d))
    if k == 'quot':
        return Fm.FunctionalQuotient(fgen(rng, X, d), Fm.FunctionalScalarSum(S.L2NormSquared(X), rng.choice([1.0, 2.0])))
    if k == 'rvec':
        return Fm.FunctionalRightVectorMult(fgen(rng, X, d), X.element(rvec(rng, n, zero_ok=False)))
    m = rng.choice([1, 2, 3])
    Y = odl.rn(m) if rng.random() < 0.6 else odl.rn(m, weighting=rng.choice([2.0, 0.5]))
    return Fm.FunctionalComp(fgen(rng, Y, d),
                             odl.MatrixOperator(np.array([rvec(rng, n) for _ in range(m)]), domain=X, range=Y))


def functional_cases(rng, tier):
    import odl
    import odl.solvers as S
    cs = C.CaseSet('functionals', ['C06.Syntax', 'Gen.UfuncDeriv', 'C06.Model', 'C06.FModel', 'C06.Corr'], 'fcheck', 'fcase')
    n_cases = 250 if tier == 'quick' else 2000
    maxd = 3 if tier == 'quick' else 5
    tries = 0
    while len(cs.cases) < n_cases and tries < 30 * n_cases:
        tries += 1
        nn = rng.choice([1, 2, 2, 3])
        X = rng.choice([odl.rn(nn), odl.rn(nn), odl.rn(nn, weighting=rng.choice([2.0, 0.5, 4.0])),
                        odl.rn(nn, weighting=[rng.choice([1.0, 2.0, 0.5]) for _ in range(nn)]),
                        odl.uniform_discr(0, nn / 4.0, nn)])
        try:
            with np.errstate(all='ignore'):
                f = fgen(rng, X, rng.randint(0, maxd))
                x = X.element(rvec(rng, X.size, zero_ok=False))
                d = X.element(rvec(rng, X.size))
                e = fser(f)
                val = float(f(x))
                grad = vals(f.gradient(x))
                D = f.derivative(x)
                dd = float(D(d))
                inner = (type(D).__name__ == 'InnerProductOperator' and
                         bool(np.allclose(vals(D.vector), grad, rtol=1e-12, atol=1e-12)))
                nums = [val, dd] + grad
                if not _finite_small(nums):
                    continue
                mav = functional_variants()
                term = ('{| f_e := %s; f_w := %s; f_mav := %s; f_x := %s; f_d := %s; f_val := %s; '
                        'f_grad := %s; f_dd := %s; f_inner := %s |}'
                        % (e, C.qs(wts(X)), C.b(mav), C.qs(vals(x)), C.qs(vals(d)), C.q(val), C.qs(grad),
                           C.q(dd), C.b(inner)))
        except (ValueError, OverflowError, ZeroDivisionError):
            continue                  # non-finite number somewhere
        if len(term) > 60000:
            continue
        cs.add(term, {'functional': repr(f)[:300], 'x': vals(x), 'd': vals(d)}, (term,))
    # L2Norm needs exact roots: Pythagorean points
    reps = 1 if tier == 'quick' else 4
    Fm = odl.solvers.functional.functional
    FP = [(odl.rn(len(xs_)), xs_) for xs_, _ in PYTH[:8]] + [(odl.rn(len(xs_), weighting=4.0), xs_) for xs_, _ in PYTH[:8]]
    FP += [(odl.rn(2, weighting=[1.0, 4.0]), [3.0, 2.0]), (odl.uniform_discr(0, 1, 4), [3.0, 4.0, 0.0, 12.0]),
           (odl.uniform_discr(0, 0.5, 2), [6.0, 8.0])]
    for X, xs in FP:
        x = X.element(xs)
        nx = float(x.norm())
        if 2 * nx != int(2 * nx) or nx == 0:
            continue
        N = S.L2Norm(X)
        for _ in range(reps):
            sc = rng.choice([2.0, -3.0, 0.5])
            fs = [N, Fm.FunctionalLeftScalarMult(N, sc), Fm.FunctionalRightScalarMult(N, sc), Fm.FunctionalSum(N, S.L2NormSquared(X)),
                  Fm.FunctionalProduct(N, S.L1Norm(X)), Fm.FunctionalQuotient(S.L2NormSquared(X), N),
                  Fm.FunctionalQuadraticPerturb(N, 1.0, X.element(rvec(rng, len(xs))), 2.0), Fm.FunctionalScalarSum(N, sc)]
            for f in fs:
                d = X.element(rvec(rng, len(xs)))
                with np.errstate(all='ignore'):
                    val = float(f(x)); grad = vals(f.gradient(x)); D = f.derivative(x); dd = float(D(d))
                if not _finite_small([val, dd] + grad):
                    continue
                inner = type(D).__name__ == 'InnerProductOperator'
                mav = functional_variants()
                term = ('{| f_e := %s; f_w := %s; f_mav := %s; f_x := %s; f_d := %s; f_val := %s; '
                        'f_grad := %s; f_dd := %s; f_inner := %s |}'
                        % (fser(f), C.qs(wts(X)), C.b(mav), C.qs(vals(x)), C.qs(vals(d)), C.q(val),
                           C.qs(grad), C.q(dd), C.b(inner)))
                cs.add(term, {'functional': repr(f)[:300], 'x': vals(x)}, (term,))
    return cs


# ---- functional trees from recipes: the model term is what was WRITTEN (constructors and overloads),
# not what the object's attributes say after the merging done by the constructors
F_UNARY = ['lscal', 'rscal', 'mul', 'rmul', 'div', 'neg', 'ssum', 'addc', 'transl', 'translated', 'qp', 'rvec', 'mulv']
F_BINARY = ['sum', 'add', 'sub', 'prod', 'quot']


def fbuild(r, X):
    import odl
    import odl.solvers as S
    Fm = odl.solvers.functional.functional
    k = r[0]
    el = lambda v: X.element(np.asarray(v, dtype=float).reshape(X.shape))
    if k == 'l2sq':
        return S.L2NormSquared(X)
    if k == 'l2':
        return S.L2Norm(X)
    if k == 'l1':
        return S.L1Norm(X)
    if k == 'const':
        return S.ConstantFunctional(X, r[1])
    if k == 'zero':
        return S.ZeroFunctional(X)
    if k == 'rosen':
        return S.RosenbrockFunctional(X, scale=r[1])
    if k == 'l2sqconj':
        return S.L2NormSquared(X).convex_conj
    if k == 'conj':
        return fbuild(r[1], X).convex_conj
    if k == 'compm':
        m = len(r[2])
        Y = odl.rn(m)
        return Fm.FunctionalComp(fbuild(r[1], Y), odl.MatrixOperator(np.asarray(r[2], dtype=float), domain=X, range=Y))
    f = fbuild(r[1], X)
    if k == 'lscal':
        return Fm.FunctionalLeftScalarMult(f, r[2])
    if k == 'rscal':
        return Fm.FunctionalRightScalarMult(f, r[2])
    if k == 'mul':
        return f * r[2]
    if k == 'rmul':
        return r[2] * f
    if k == 'div':
        return f / r[2]
    if k == 'neg':
        return -f
    if k == 'ssum':
        return Fm.FunctionalScalarSum(f, r[2])
    if k == 'addc':
        return f + r[2]
    if k == 'transl':
        return Fm.FunctionalTranslation(f, el(r[2]))
    if k == 'translated':
        return f.translated(el(r[2]))
    if k == 'qp':
        return Fm.FunctionalQuadraticPerturb(f, r[2], None if r[3] is None else el(r[3]), r[4])
    if k == 'rvec':
        return Fm.FunctionalRightVectorMult(f, el(r[2]))
    if k == 'mulv':
        return f * el(r[2])
    g = fbuild(r[2], X)
    if k == 'sum':
        return Fm.FunctionalSum(f, g)
    if k == 'add':
        return f + g
    if k == 'sub':
        return f - g
    if k == 'prod':
        return Fm.FunctionalProduct(f, g)
    if k == 'quot':
        return Fm.FunctionalQuotient(f, g)
    raise ValueError('unknown functional recipe %r' % (k,))


def fterm(r, n):
    """the fexpr term of the functional AS WRITTEN in the recipe"""
    k = r[0]
    if k == 'l2sq':
        return '(FL2Sq %d)' % n
    if k == 'l2':
        return '(FL2 %d)' % n
    if k == 'l1':
        return '(FL1 %d)' % n
    if k == 'const':
        return '(FConst %d %s)' % (n, C.q(r[1]))
    if k == 'zero':
        return '(FConst %d %s)' % (n, C.q(0.0))
    if k == 'rosen':
        return '(FRosen %d %s)' % (n, C.q(r[1]))
    if k in ('l2sqconj', 'conj'):
        raise Unsupported('convex conjugates are not modelled')
    if k == 'compm':
        m = len(r[2])
        return '(FCompM %s %s %d %s)' % (fterm(r[1], m), C.qs([1.0] * m), n, C.qss(r[2]))
    t = fterm(r[1], n)
    if k in ('lscal', 'rmul'):
        return '(FLScal %s %s)' % (t, C.q(r[2]))
    if k == 'neg':
        return '(FLScal %s %s)' % (t, C.q(-1.0))
    if k in ('rscal', 'mul'):
        return '(FRScal %s %s)' % (t, C.q(r[2]))
    if k == 'div':
        return '(FRScal %s %s)' % (t, C.q(1.0 / r[2]))
    if k in ('ssum', 'addc'):
        return '(FScalarSum %s %s)' % (t, C.q(r[2]))
    if k in ('transl', 'translated'):
        return '(FTransl %s %s)' % (t, C.qs(r[2]))
    if k == 'qp':
        return '(FQP %s %s %s %s)' % (t, C.q(r[2]), C.qs([0.0] * n if r[3] is None else r[3]), C.q(r[4]))
    if k in ('rvec', 'mulv'):
        return '(FRVec %s %s)' % (t, C.qs(r[2]))
    u = fterm(r[2], n)
    if k in ('sum', 'add'):
        return '(FSum %s %s)' % (t, u)
    if k == 'sub':
        return '(FSum %s (FLScal %s %s))' % (t, u, C.q(-1.0))
    if k == 'prod':
        return '(FProd %s %s)' % (t, u)
    if k == 'quot':
        return '(FQuot %s %s)' % (t, u)
    raise ValueError(k)


def fgen_recipe(rng, n, depth, last=None, exact=True, rosen_ok=True, vec=None, compm_ok=True):
    """random functional recipe on a space of size n; the constructor/overload of the parent is REPEATED in
    direct succession with probability 0.45 ((f*a)*b, a*(b*f), translations of translations, sums of sums, ...).
    exact: only leaves whose values are rational at rational points (for the run at Q)."""
    vec = vec or (lambda zero_ok=True: rvec(rng, n, zero_ok=zero_ok))
    if depth <= 0 or (last is None and rng.random() < 0.1):
        leaves = ['l2sq', 'l2sq', 'l1', 'const', 'zero'] + (['rosen'] if rosen_ok and n >= 2 else [])
        if not exact:
            leaves += ['l2', 'l2', 'l2sqconj']
        k = rng.choice(leaves)
        if k == 'const':
            return (k, rng.choice([2.0, -1.0, 0.5]))
        if k == 'rosen':
            return (k, rng.choice([1.0, 2.0, 0.5, 3.0]))
        return (k,)
    d = depth - 1
    if last is not None and rng.random() < 0.45 and (compm_ok or last != 'compm'):
        k = last
    else:
        k = rng.choice(F_UNARY + F_BINARY + (['compm'] if compm_ok else []))
    sc = rng.choice([2.0, -1.0, 0.5, 3.0, -2.0, 4.0])
    sub = lambda: fgen_recipe(rng, n, d, k, exact, rosen_ok, vec, compm_ok)
    if k in ('lscal', 'rscal', 'mul', 'rmul', 'ssum', 'addc'):
        return (k, sub(), sc)
    if k == 'div':
        return (k, sub(), rng.choice([2.0, 4.0, 0.5, -2.0]))
    if k == 'neg':
        return (k, sub())
    if k in ('transl', 'translated'):
        return (k, sub(), vec())
    if k == 'qp':
        return (k, sub(), rng.choice([0.0, 1.0, -0.5, 2.0]), vec() if rng.random() < 0.8 else None, rng.choice([0.0, 1.0, -2.0]))
    if k in ('rvec', 'mulv'):
        return (k, sub(), vec(False))
    if k in ('sum', 'add', 'sub', 'prod'):
        return (k, sub(), sub())
    if k == 'quot':
        return (k, sub(), ('ssum', ('l2sq',), rng.choice([1.0, 2.0])))
    m = rng.choice([1, 2, 3])
    return ('compm', fgen_recipe(rng, m, d, k, exact, True, None), [rvec(rng, n) for _ in range(m)])


def functional_recipe_cases(rng, tier):
    import odl
    cs = C.CaseSet('functionals_as_written', ['C06.Syntax', 'Gen.UfuncDeriv', 'C06.Model', 'C06.FModel', 'C06.Corr'],
                   'fcheck', 'fcase')
    n_cases = 300 if tier == 'quick' else 2000
    maxd = 4 if tier == 'quick' else 6
    tries = 0
    while len(cs.cases) < n_cases and tries < 30 * n_cases:
        tries += 1
        nn = rng.choice([1, 2, 2, 3])
        X = rng.choice([odl.rn(nn), odl.rn(nn), odl.rn(nn, weighting=rng.choice([2.0, 0.5, 4.0])),
                        odl.rn(nn, weighting=[rng.choice([1.0, 2.0, 0.5]) for _ in range(nn)]),
                        odl.uniform_discr(0, nn / 4.0, nn)])
        rec = fgen_recipe(rng, nn, rng.randint(2, maxd))
        try:
            with np.errstate(all='ignore'):
                f = fbuild(rec, X)
                x = X.element(rvec(rng, X.size, zero_ok=False))
                d = X.element(rvec(rng, X.size))
                e = fterm(rec, nn)
                val = float(f(x))
                grad = vals(f.gradient(x))
                D = f.derivative(x)
                dd = float(D(d))
                inner = (type(D).__name__ == 'InnerProductOperator' and
                         bool(np.allclose(vals(D.vector), grad, rtol=1e-12, atol=1e-12)))
                if not _finite_small([val, dd] + grad):
                    continue
                term = ('{| f_e := %s; f_w := %s; f_mav := %s; f_x := %s; f_d := %s; f_val := %s; '
                        'f_grad := %s; f_dd := %s; f_inner := %s |}'
                        % (e, C.qs(wts(X)), C.b(functional_variants()), C.qs(vals(x)), C.qs(vals(d)), C.q(val),
                           C.qs(grad), C.q(dd), C.b(inner)))
        except (ValueError, OverflowError, ZeroDivisionError):
            continue
        if len(term) > 60000:
            continue
        cs.add(term, {'recipe': repr(rec)[:400], 'space': repr(X), 'x': vals(x), 'd': vals(d)}, (term,))
    return cs


def correspondence(rng, tier):
    return [tree_cases(rng, tier), block_cases(rng, tier), norm_cases(rng, tier), ufunc_cases(rng, tier),
            functional_cases(rng, tier), functional_recipe_cases(rng, tier)]


# =====================================================================  probes
# The property itself on the real objects: op.derivative(x) is a linear operator domain -> range whose
# action on d is the limit of central differences, with h^2 decay.  No model involved.
def _flat(el):
    import odl
    if isinstance(el, (int, float, complex, np.number)):
        return np.array([el])
    if isinstance(getattr(el, 'space', None), odl.ProductSpace):
        return np.concatenate([_flat(e) for e in el])
    return np.asarray(el).ravel()


HS = (1e-2, 1e-3, 1e-4, 1e-5)


def cd_check(op, x, d, rtol=1e-6, D=None):
    """(ok, detail).  ok is None when the input must be discarded (derivative raises a documented
    'not differentiable / not implemented' error, or non-finite values).  D: an already obtained
    op.derivative(x) to be judged instead of a fresh one."""
    import odl
    with np.errstate(all='ignore'):
        try:
            if D is None:
                D = op.derivative(x)
        except NotImplementedError as e:                     # OpNotImplementedError is a NotImplementedError
            return None, 'raises %s' % type(e).__name__
        except ValueError as e:
            if 'not differentiable' in str(e):               # NormOperator at 0, DistOperator at its vector
                return None, 'raises ValueError (documented non-differentiable point)'
            raise
        if not isinstance(D, odl.Operator):
            return False, 'derivative returned a %s, not an Operator' % type(D).__name__
        if not D.is_linear:
            return False, 'derivative not flagged linear'
        if D.domain != op.domain:
            return False, 'derivative domain %r != %r' % (D.domain, op.domain)
        if D.range != op.range:
            return False, 'derivative range %r != %r' % (D.range, op.range)
        Dd = _flat(D(d))
        fx = _flat(op(x))
        qs, errs = [], []
        for h in HS:
            q = (_flat(op(x + h * d)) - _flat(op(x - h * d))) / (2 * h)
            qs.append(q)
            errs.append(float(np.max(np.abs(q - Dd))) if q.size else 0.0)
        if not (np.all(np.isfinite(Dd)) and np.all(np.isfinite(fx)) and all(math.isfinite(e) for e in errs)):
            return None, 'non-finite'
        scale = max(1.0, float(np.max(np.abs(Dd))) if Dd.size else 0.0, float(np.max(np.abs(fx))) if fx.size else 0.0)
        if scale > 1e6:
            return None, 'huge'
        # reliability of the oracle itself, independent of D: the quotients must have converged
        est = float(np.max(np.abs(qs[-1] - qs[-2]))) if qs[-1].size else 0.0     # ~ truncation error at HS[-2]
        if est > 1e-4 * scale:
            return None, 'finite differences not converged at these steps (ill-conditioned point)'
        floors = [1e-11 * scale / h for h in HS]
        tol = rtol * scale + floors[-1] + 3 * est      # est may itself be a noise sample: margin 3
        close = errs[-1] <= tol
        # "at the rate expected of a central difference": where the error at h = 1e-3 is in the asymptotic
        # window (far above the rounding noise, below 1% of the scale) it must shrink by >= 20 per decade
        # (h^2 gives 100; measured minimum over 10^4 probes: 94)
        rate = True
        if 1e-6 * scale < errs[1] < 1e-2 * scale and errs[2] >= 10 * errs[3] > 0:   # noise not yet reached at h = 1e-4
            rate = errs[1] / errs[2] >= 20.0
        return bool(close and rate), 'central-difference errors %s at h=%s, scale %.3g, tol %.2e%s' % (
            ['%.2e' % e for e in errs], list(HS), scale, tol, '' if rate else ', error does not shrink like h^2')


SPACES = {
    'rn2': "odl.rn(2)", 'rn3': "odl.rn(3)", 'rn3c': "odl.rn(3, weighting=2.0)",
    'rn3w': "odl.rn(3, weighting=[1.0, 2.0, 0.5])", 'discr4': "odl.uniform_discr(0, 1, 4)",
    'discr23': "odl.uniform_discr([0, 0], [1, 2], [2, 3])", 'discrb': "odl.uniform_discr(0, 1, 3, nodes_on_bdry=True)",
}
_SP = {}


def space_of(key):
    import odl
    if key not in _SP:
        _SP[key] = eval(SPACES[key], {'odl': odl})
    return _SP[key]


def _el(sp, vals_):
    return sp.element(np.asarray(vals_, dtype=float).reshape(sp.shape))


def build(r):
    """recipe (nested tuples/lists of plain Python data) -> operator.  The first entry names the class."""
    import odl
    O = odl.operator.operator
    D = odl.operator.default_ops
    PS = odl.operator.pspace_ops
    k = r[0]
    if k == 'sum':
        return O.OperatorSum(build(r[1]), build(r[2]))
    if k == 'vecsum':
        a = build(r[1])
        return O.OperatorVectorSum(a, _el(a.range, r[2]))
    if k == 'comp':
        return O.OperatorComp(build(r[1]), build(r[2]))
    if k == 'pprod':
        return O.OperatorPointwiseProduct(build(r[1]), build(r[2]))
    # the constructors that take user-supplied scratch elements
    if k == 'comp_t':
        a, b = build(r[1]), build(r[2])
        return O.OperatorComp(a, b, tmp=b.range.element())
    if k == 'sum_t':
        a, b = build(r[1]), build(r[2])
        return O.OperatorSum(a, b, tmp_ran=a.range.element() if r[3] & 1 else None,
                             tmp_dom=a.domain.element() if r[3] & 2 else None)
    if k == 'rscal_t':
        a = build(r[1])
        return O.OperatorRightScalarMult(a, r[2], tmp=a.domain.element())
    if k == 'mat32':          # rn(3) -> rn(2) after the child (domain != range)
        a = build(r[1])
        return O.OperatorComp(odl.MatrixOperator(np.array([[1.0, 2.0, -1.0], [0.5, 0.0, 3.0]]), domain=a.range,
                                                 range=odl.rn(2)), a)
    if k == 'lscal':
        return O.OperatorLeftScalarMult(build(r[1]), r[2])
    if k == 'rscal':
        return O.OperatorRightScalarMult(build(r[1]), r[2])
    if k == 'lvec':
        a = build(r[1])
        return O.OperatorLeftVectorMult(a, _el(a.range, r[2]))
    if k == 'rvec':
        a = build(r[1])
        return O.OperatorRightVectorMult(a, _el(a.domain, r[2]))
    if k == 'flvec':
        return O.FunctionalLeftVectorMult(build(r[1]), _el(space_of(r[2]), r[3]))
    if k == 'ovl':            # through the overloads: r[1] in '+', '*', '-', 'neg', 'pow', 'div', 'smul', 'muls', 'vmul', 'mulv'
        how = r[1]
        a = build(r[2])
        if how == '+':
            return a + build(r[3])
        if how == '-':
            return a - build(r[3])
        if how == '*':
            return a * build(r[3])
        if how == 'neg':
            return -a
        if how == 'pow':
            return a ** r[3]
        if how == 'div':
            return a / r[3]
        if how == 'smul':
            return r[3] * a
        if how == 'muls':
            return a * r[3]
        if how == 'adds':
            return a + r[3]
        if how == 'vmul':
            return _el(a.range, r[3]) * a
        if how == 'mulv':
            return a * _el(a.domain, r[3])
        raise ValueError(how)
    # block operators: product-space in between
    if k == 'broadcast':
        return PS.BroadcastOperator(*[build(c) for c in r[1]])
    if k == 'reduction':
        return PS.ReductionOperator(*[build(c) for c in r[1]])
    if k == 'diagonal':
        return PS.DiagonalOperator(*[build(c) for c in r[1]])
    if k == 'pso':
        return PS.ProductSpaceOperator([[None if c is None else build(c) for c in row] for row in r[1]])
    if k == 'pwnorm':         # PointwiseNorm(X^k, p, w) o Broadcast(children)
        ch = [build(c) for c in r[1]]
        vf = odl.ProductSpace(ch[0].range, len(ch))
        return O.OperatorComp(odl.PointwiseNorm(vf, exponent=r[2], weighting=r[3]), PS.BroadcastOperator(*ch))
    if k == 'pwinner':
        ch = [build(c) for c in r[1]]
        vf = odl.ProductSpace(ch[0].range, len(ch))
        w = vf.element([_el(ch[0].range, v) for v in r[2]])
        return O.OperatorComp(odl.PointwiseInner(vf, w), PS.BroadcastOperator(*ch))
    # leaves
    sp = space_of(r[1])
    if k == 'ident':
        return D.IdentityOperator(sp)
    if k == 'scale':
        return D.ScalingOperator(sp, r[2])
    if k == 'mul':
        return D.MultiplyOperator(_el(sp, r[2]))
    if k == 'const':
        return D.ConstantOperator(_el(sp, r[2]))
    if k == 'zero':
        return D.ZeroOperator(sp)
    if k == 'pow':
        return D.PowerOperator(sp, r[2])
    if k == 'uf':
        return getattr(odl.ufunc_ops, r[2])(sp)
    if k == 'cubic':
        return user_ops()[0](sp)
    if k == 'refcubic':
        return ref_ops()[0](sp)
    if k == 'cmod':
        return odl.ComplexModulus(sp)
    if k == 'cmod2':
        return odl.ComplexModulusSquared(sp)
    if k == 'norm':           # vector * norm(x): rn -> rn
        return O.FunctionalLeftVectorMult(D.NormOperator(sp), _el(sp, r[2]))
    if k == 'dist':
        return O.FunctionalLeftVectorMult(D.DistOperator(_el(sp, r[2])), _el(sp, r[3]))
    if k == 'inner':
        return O.FunctionalLeftVectorMult(D.InnerProductOperator(_el(sp, r[2])), _el(sp, r[3]))
    if k == 'mat':
        return odl.MatrixOperator(np.asarray(r[2], dtype=float), domain=sp, range=sp) if sp.ndim == 1 \
            else D.ScalingOperator(sp, r[2][0][0])
    if k == 'pd':
        return odl.PartialDerivative(sp, 0, pad_mode='constant', pad_const=r[2])
    raise ValueError('unknown recipe %r' % (k,))


UF_SMOOTH = ['sin', 'cos', 'exp', 'sinh', 'cosh', 'square', 'negative', 'tan', 'log', 'sqrt', 'reciprocal',
             'deg2rad', 'rad2deg']


def rnd_vals(rng, n, lo=-2.0, hi=2.0, away=0.0):
    out = []
    for _ in range(n):
        v = round(rng.uniform(lo, hi), 3)
        if abs(v) < away:
            v = away if v >= 0 else -away
        out.append(v)
    return out


def gen_recipe(rng, skey, depth):
    """random operator recipe  space -> same space"""
    n = space_of(skey).size
    if depth <= 0 or rng.random() < 0.15:
        k = rng.choice(['ident', 'scale', 'mul', 'const', 'pow', 'uf', 'uf', 'uf', 'cubic', 'norm', 'dist', 'inner',
                        'mat', 'pd', 'zero'])
        if k in ('ident', 'zero', 'cubic'):
            return (k, skey)
        if k == 'scale':
            return (k, skey, rng.choice([2.0, -1.5, 0.5, 3.0]))
        if k in ('mul', 'const'):
            return (k, skey, rnd_vals(rng, n))
        if k == 'pow':
            return (k, skey, rng.choice([2, 3, 1, 2, 0.5, 1.5, -1, -0.5]))
        if k == 'uf':
            return (k, skey, rng.choice(UF_SMOOTH))
        if k == 'norm':
            return (k, skey, rnd_vals(rng, n))
        if k in ('dist', 'inner'):
            return (k, skey, rnd_vals(rng, n), rnd_vals(rng, n))
        if k == 'mat':
            return (k, skey, [rnd_vals(rng, n) for _ in range(n)])
        if not skey.startswith('discr'):
            return ('ident', skey)
        return ('pd', skey, rng.choice([1.0, -2.0, 0.5]))
    d = depth - 1
    k = rng.choice(['sum', 'vecsum', 'comp', 'comp', 'pprod', 'lscal', 'rscal', 'lvec', 'rvec', 'ovl', 'ovl',
                    'pwnorm', 'redbroad', 'diag', 'pso', 'pwinner'])
    sub = lambda: gen_recipe(rng, skey, d)
    if k in ('sum', 'comp', 'pprod'):
        return (k, sub(), sub())
    if k in ('vecsum', 'lvec', 'rvec'):
        return (k, sub(), rnd_vals(rng, n))
    if k in ('lscal', 'rscal'):
        return (k, sub(), rng.choice([2.0, -1.0, 0.5, -0.25, 1.5]))
    if k == 'ovl':
        how = rng.choice(['+', '-', '*', 'neg', 'pow', 'div', 'smul', 'muls', 'adds', 'vmul', 'mulv'])
        if how in ('+', '-', '*'):
            return (k, how, sub(), sub())
        if how == 'neg':
            return (k, how, sub())
        if how == 'pow':
            return (k, how, sub(), rng.choice([2, 3]))
        if how in ('div', 'smul', 'muls', 'adds'):
            return (k, how, sub(), rng.choice([2.0, -0.5, 4.0]))
        return (k, how, sub(), rnd_vals(rng, n))
    m = rng.choice([1, 2, 2, 3])
    if k == 'pwnorm':
        return (k, [sub() for _ in range(m)], rng.choice([1, 2, 2, 3, 1.5]),
                rng.choice([None, 2.0, [rng.choice([0.5, 1.0, 3.0]) for _ in range(m)]]))
    if k == 'pwinner':
        return (k, [sub() for _ in range(m)], [rnd_vals(rng, n) for _ in range(m)])
    if k == 'redbroad':
        return ('comp', ('reduction', [sub() for _ in range(m)]), ('broadcast', [sub() for _ in range(m)]))
    if k == 'diag':
        return ('comp', ('reduction', [sub() for _ in range(m)]),
                ('comp', ('diagonal', [sub() for _ in range(m)]), ('broadcast', [sub() for _ in range(m)])))
    # 2 x 2 block operator with holes, between a broadcast and a reduction
    rows = [[sub() if rng.random() < 0.7 else None for _ in range(2)] for _ in range(2)]
    for i in range(2):
        if rows[i][0] is None and rows[i][1] is None:
            rows[i][i] = sub()
    for j in range(2):
        if rows[0][j] is None and rows[1][j] is None:
            rows[j][j] = sub()
    return ('comp', ('reduction', [sub(), sub()]), ('comp', ('pso', rows), ('broadcast', [sub(), sub()])))


def classes_in(r, acc=None):
    acc = set() if acc is None else acc
    if isinstance(r, (tuple, list)) and r and isinstance(r[0], str):
        acc.add(r[0] if r[0] != 'uf' else 'uf-' + r[2])
        for c in r[1:]:
            classes_in(c, acc)
    elif isinstance(r, (tuple, list)):
        for c in r:
            classes_in(c, acc)
    return acc


REPLAY_HEAD = ("import sys, numpy as np\nsys.path.insert(0, %r)\nimport odl\n"
               "from harness import c06 as H\n" % C.VERIF)


def tree_probes(rng, tier):
    out = []
    n = 400 if tier == 'quick' else 3000
    maxd = 3 if tier == 'quick' else 5
    tries = 0
    while len(out) < n and tries < 30 * n:
        tries += 1
        skey = rng.choice(sorted(SPACES))
        sp = space_of(skey)
        rec = gen_recipe(rng, skey, rng.randint(1, maxd))
        xv = rnd_vals(rng, sp.size, 0.3, 1.8)
        dv = rnd_vals(rng, sp.size)
        try:
            with np.errstate(all='ignore'):
                op = build(rec)
                ok, detail = cd_check(op, _el(sp, xv), _el(sp, dv))
        except Exception as e:       # construction or evaluation failed: an error outcome of the property
            ok, detail = False, 'raised %s: %s' % (type(e).__name__, str(e)[:200])
        if ok is None:
            continue
        rp = (REPLAY_HEAD + "rec = %r\nop = H.build(rec); sp = H.space_of(%r)\n"
              "ok, observed = H.cd_check(op, H._el(sp, %r), H._el(sp, %r))\nok = bool(ok)\n" % (rec, skey, xv, dv))
        root = rec[0] if rec[0] != 'ovl' else 'ovl' + rec[1]
        key = 'cd-tree-%s-%s' % (root, skey)
        if not ok and 'pwnorm' in classes_in(rec) and skey == 'rn3w' and 'cannot divide' in str(detail):
            key = 'PointwiseNorm-derivative-array-weighted-base-space'
        out.append(C.Probe(bool(ok), key,
                           'central differences vs derivative on a random tree (%s) over %s' %
                           (','.join(sorted(classes_in(rec))), skey), rp, detail))
    return out


def _away(rng, lo, hi, away=0.3):
    v = round(rng.uniform(lo, hi), 3)
    if abs(v) < away:
        v = away if v >= 0 else -away
    return v


def _rnd_el(rng, sp, pos=False):
    """random element with entries in [-2, 2] (pos: [0.4, 1.8]), never closer than 0.3 to the kink at 0"""
    import odl
    if isinstance(sp, odl.ProductSpace):
        return sp.element([_rnd_el(rng, s, pos) for s in sp])
    lo, hi = (0.4, 1.8) if pos else (-2.0, 2.0)
    if isinstance(sp, odl.set.sets.Field):
        return _away(rng, lo, hi)
    a = np.array([_away(rng, lo, hi) for _ in range(sp.size)]).reshape(sp.shape)
    if sp.is_complex:
        a = a + 1j * np.array([_away(rng, -2, 2) for _ in range(sp.size)]).reshape(sp.shape)
    return sp.element(a)


# class/option catalogue: (key, python expression building `op` from odl/np/S, needs positive point)
CATALOGUE_SPACES = {
    'rn3': "odl.rn(3)", 'rn3c': "odl.rn(3, weighting=2.0)", 'rn3w': "odl.rn(3, weighting=[1.0, 2.0, 3.0])",
    'discr4': "odl.uniform_discr(0, 1, 4)", 'discr23': "odl.uniform_discr([0, 0], [1, 2], [2, 3])",
    'discrb': "odl.uniform_discr(0, 1, 4, nodes_on_bdry=True)",
    'cn2': "odl.cn(2)", 'cdiscr3': "odl.uniform_discr(0, 1, 3, dtype=complex)",
    'rn3p1': "odl.rn(3, exponent=1)",
}
REAL_SP = ['rn3', 'rn3c', 'rn3w', 'discr4', 'discr23', 'discrb']


def catalogue():
    cat = []
    for sk in REAL_SP + ['cn2', 'cdiscr3', 'rn3p1']:
        sp = "SP[%r]" % sk
        real = sk in REAL_SP or sk == 'rn3p1'
        hilbert = sk != 'rn3p1'
        if hilbert:
            tag = sk if real else 'complex-space'
            cat.append(('NormOperator-%s' % tag, "odl.operator.default_ops.NormOperator(%s)" % sp, False))
            cat.append(('DistOperator-%s' % tag, "odl.operator.default_ops.DistOperator(H._rnd_el(rng, %s))" % sp, False))
        else:
            cat.append(('NormOperator-exponent-not-2', "odl.operator.default_ops.NormOperator(%s)" % sp, False))
            cat.append(('DistOperator-exponent-not-2', "odl.operator.default_ops.DistOperator(H._rnd_el(rng, %s))" % sp, False))
        cat.append(('ConstantOperator-%s' % sk, "odl.ConstantOperator(H._rnd_el(rng, %s))" % sp, False))
        cat.append(('RealPart-%s' % sk, "odl.RealPart(%s)" % sp, False))
        cat.append(('ImagPart-%s' % sk, "odl.ImagPart(%s)" % sp, False))
        cat.append(('ComplexModulus-%s' % sk, "odl.ComplexModulus(%s)" % sp, False))
        cat.append(('ComplexModulusSquared-%s' % sk, "odl.ComplexModulusSquared(%s)" % sp, False))
        if real:
            for p in (2, 3, 0.5, 1.5, -1, -0.5, 1):
                cat.append(('PowerOperator-%s-%s' % (p, sk), "odl.PowerOperator(%s, %r)" % (sp, p), True))
            for uf in ['sin', 'cos', 'tan', 'sqrt', 'square', 'log', 'exp', 'reciprocal', 'sinh', 'cosh', 'negative',
                       'rad2deg', 'deg2rad']:
                cat.append(('ufunc-%s-%s' % (uf, sk), "odl.ufunc_ops.%s(%s)" % (uf, sp), True))
        if sk in ('rn3', 'discr4', 'discr23'):
            for kk in (1, 2, 3):
                for p in (None, 1, 1.5, 2, 3):
                    for w in (None, 2.0, [1.0, 2.0, 0.5][:kk]):
                        cat.append(('PointwiseNorm-k%d-p%s-w%s-%s' % (kk, p, 'none' if w is None else ('const' if np.isscalar(w) else 'array'), sk),
                                    "odl.PointwiseNorm(odl.ProductSpace(%s, %d), exponent=%r, weighting=%r)" % (sp, kk, p, w), False))
            for ex in (1, 2, 3):
                cat.append(('PointwiseNorm-vfexponent%d-%s' % (ex, sk),
                            "odl.PointwiseNorm(odl.ProductSpace(%s, 2, exponent=%d))" % (sp, ex), False))
            cat.append(('PointwiseNorm-vfweighted-%s' % sk,
                        "odl.PointwiseNorm(odl.ProductSpace(%s, 2, weighting=[2.0, 3.0]))" % sp, False))
    # weighted BASE spaces (the weights of the base space do not enter the point-wise norm)
    cat.append(('PointwiseNorm-const-weighted-base-space', "odl.PointwiseNorm(odl.ProductSpace(SP['rn3c'], 2))", False))
    cat.append(('PointwiseNorm-const-weighted-base-space', "odl.PointwiseNorm(odl.ProductSpace(SP['rn3c'], 2), exponent=3)", False))
    cat.append(('PointwiseNorm-p1-array-weighted-base-space', "odl.PointwiseNorm(odl.ProductSpace(SP['rn3w'], 2), exponent=1)", False))
    cat.append(('PointwiseNorm-derivative-array-weighted-base-space', "odl.PointwiseNorm(odl.ProductSpace(SP['rn3w'], 2))", False))
    cat.append(('PointwiseNorm-derivative-array-weighted-base-space', "odl.PointwiseNorm(odl.ProductSpace(SP['rn3w'], 3), exponent=3)", False))
    # fields
    for p in (2, 3, 0.5, -1):
        cat.append(('PowerOperator-%s-field' % p, "odl.PowerOperator(odl.RealNumbers(), %r)" % p, True))
    # block operators with nonlinear entries
    X = "SP['rn3']"
    sq, ex, sn = "odl.ufunc_ops.square(%s)" % X, "odl.ufunc_ops.exp(%s)" % X, "odl.ufunc_ops.sin(%s)" % X
    M = "odl.MatrixOperator(np.array([[1.0, 2.0, -1.0], [0.5, 0.0, 3.0]]), domain=%s)" % X
    cat += [
        ('BroadcastOperator-mixed', "odl.BroadcastOperator(%s, %s, %s)" % (sq, ex, M), False),
        ('BroadcastOperator-n', "odl.BroadcastOperator(%s, 2)" % sq, False),
        ('ReductionOperator-mixed', "odl.ReductionOperator(%s, %s * %s, %s)" % (sq, ex, sn, sn), False),
        ('ReductionOperator-n', "odl.ReductionOperator(%s, 3)" % sq, False),
        ('DiagonalOperator-mixed', "odl.DiagonalOperator(%s, %s * %s, %s)" % (sq, M, ex, sn), False),
        ('DiagonalOperator-n', "odl.DiagonalOperator(%s, 2)" % ex, False),
        ('ProductSpaceOperator-holes', "odl.ProductSpaceOperator([[%s, None, %s], [None, %s, %s.adjoint * %s * %s]])" % (sq, sn, ex, M, M, sq), False),
        ('ProductSpaceOperator-linear', "odl.ProductSpaceOperator([[%s, None], [None, %s]])" % (M, M), False),
        ('ProductSpaceOperator-row', "odl.ProductSpaceOperator([[%s, %s]])" % (sq, ex), False),
        ('ProductSpaceOperator-col', "odl.ProductSpaceOperator([[%s], [%s]])" % (sq, ex), False),
        ('BroadcastOperator-nested', "odl.BroadcastOperator(odl.DiagonalOperator(%s, %s), odl.DiagonalOperator(%s, %s))" % (sq, ex, sn, sq), False),
        ('ComponentProjection-of-broadcast', "odl.ComponentProjection(odl.ProductSpace(%s, 2), 0) * odl.BroadcastOperator(%s, %s)" % (X, sq, ex), False),
    ]
    # finite differences / resizing with a pad constant: affine, derivative = zero-padding version
    D2 = "SP['discr23']"
    cat += [
        ('PartialDerivative-padconst', "odl.PartialDerivative(%s, 0, pad_mode='constant', pad_const=2.0)" % D2, False),
        ('Gradient-padconst', "odl.Gradient(%s, pad_mode='constant', pad_const=1.5)" % D2, False),
        ('Divergence-padconst', "odl.Divergence(range=%s, pad_mode='constant', pad_const=1.5)" % D2, False),
        ('Laplacian-padconst', "odl.Laplacian(%s, pad_mode='constant', pad_const=1.5)" % D2, False),
        ('ResizingOperator-padconst', "odl.ResizingOperator(SP['discr4'], ran_shp=(7,), pad_mode='constant', pad_const=2.0)", False),
        ('ResizingOperator-order1', "odl.ResizingOperator(SP['discr4'], ran_shp=(7,), pad_mode='order1')", False),
    ]
    # complex spaces through the expression classes (derivative only real-linear)
    C2 = "SP['cn2']"
    cat += [
        ('OperatorRightVectorMult-ComplexModulusSquared', "odl.operator.operator.OperatorRightVectorMult(odl.ComplexModulusSquared(%s), H._rnd_el(rng, %s))" % (C2, C2), False),
        ('OperatorComp-ComplexModulusSquared-complex-scaling', "odl.operator.operator.OperatorComp(odl.ComplexModulusSquared(%s), odl.ScalingOperator(%s, 1 + 1j))" % (C2, C2), False),
        ('OperatorLeftScalarMult-complex-square', "odl.operator.operator.OperatorLeftScalarMult(odl.ufunc_ops.square(%s), 1 + 2j)" % C2, False),
        ('OperatorRightScalarMult-real-scalar-ComplexModulus', "odl.operator.operator.OperatorRightScalarMult(odl.ComplexModulus(%s), 2.0)" % C2, False),
        ('OperatorRightScalarMult-complex-scalar-real-linear-derivative', "odl.operator.operator.OperatorRightScalarMult(odl.ComplexModulus(%s), 2.0 + 1j)" % C2, False),
        ('OperatorRightScalarMult-complex-scalar-square', "odl.operator.operator.OperatorRightScalarMult(odl.ufunc_ops.square(%s), 2.0 + 1j)" % C2, False),
    ]
    # functionals: derivative(x) = <gradient(x), .>
    for sk in ('rn3', 'rn3w', 'discr4', 'pspace'):
        sp = "SP[%r]" % sk if sk != 'pspace' else "odl.ProductSpace(SP['discr4'], 2)"
        g = "H._rnd_el(rng, %s)" % sp
        F = [
            ('L1Norm', "S.L1Norm(%s)" % sp), ('L2Norm', "S.L2Norm(%s)" % sp), ('L2NormSquared', "S.L2NormSquared(%s)" % sp),
            ('ConstantFunctional', "S.ConstantFunctional(%s, 2.0)" % sp), ('ZeroFunctional', "S.ZeroFunctional(%s)" % sp),
            ('KullbackLeibler-prior', "S.KullbackLeibler(%s, prior=H._rnd_el(rng, %s, True))" % (sp, sp)),
            ('KullbackLeibler', "S.KullbackLeibler(%s)" % sp),
            ('KullbackLeiblerCrossEntropy', "S.KullbackLeiblerCrossEntropy(%s, prior=H._rnd_el(rng, %s, True))" % (sp, sp)),
            ('KullbackLeiblerCrossEntropy-conj', "S.KullbackLeiblerCrossEntropy(%s, prior=H._rnd_el(rng, %s, True)).convex_conj" % (sp, sp)),
            ('QuadraticForm', "S.QuadraticForm(operator=odl.ScalingOperator(%s, 3.0), vector=%s, constant=1.0)" % (sp, g)),
            ('QuadraticForm-noop', "S.QuadraticForm(vector=%s, constant=1.0)" % g),
            ('Huber', "S.Huber(%s, 0.5)" % sp), ('L2NormSquared-conj', "S.L2NormSquared(%s).convex_conj" % sp),
            ('IndicatorLpUnitBall-conj', "S.IndicatorLpUnitBall(%s, 2).convex_conj" % sp),
            ('SeparableSum', "S.SeparableSum(S.L2NormSquared(%s), S.L1Norm(%s))" % (sp, sp)),
            ('BregmanDistance', "S.BregmanDistance(S.L2NormSquared(%s), %s, %s)" % (sp, g, g)),
            ('FunctionalSum', "S.L2NormSquared(%s) + S.L2Norm(%s)" % (sp, sp)),
            ('FunctionalLeftScalarMult', "3.0 * S.L2Norm(%s)" % sp), ('FunctionalRightScalarMult', "S.L2Norm(%s) * 3.0" % sp),
            ('FunctionalComp-linear', "S.L2NormSquared(%s) * odl.ScalingOperator(%s, 2.0)" % (sp, sp)),
            ('FunctionalTranslation', "S.L2Norm(%s).translated(%s)" % (sp, g)),
            ('FunctionalQuadraticPerturb', "S.FunctionalQuadraticPerturb(S.L2Norm(%s), 0.5, %s, 1.0)" % (sp, g)),
            ('FunctionalProduct', "S.FunctionalProduct(S.L2NormSquared(%s), S.L2Norm(%s))" % (sp, sp)),
            ('FunctionalQuotient', "S.FunctionalQuotient(S.L2NormSquared(%s), S.L2Norm(%s) + 1.0)" % (sp, sp)),
            ('FunctionalRightVectorMult', "S.L2NormSquared(%s) * %s" % (sp, g)),
            ('FunctionalScalarSum', "S.L2Norm(%s) + 2.0" % sp),
            ('FunctionalLeftVectorMult', "odl.rn(2).element([1.0, 2.0]) * S.L2NormSquared(%s)" % sp),
        ]
        if sk != 'pspace':
            F += [('FunctionalComp-nonlinear', "S.L2NormSquared(%s) * odl.ufunc_ops.exp(%s)" % (sp, sp)),
                  ('FunctionalComp-matrix', "S.L2NormSquared(odl.rn(2)) * odl.MatrixOperator(np.array([[1.0, 2.0, -1.0], [0.5, 0.0, 3.0]]), domain=odl.rn(3))"
                   if sk == 'rn3' else "S.L1Norm(%s) * odl.ufunc_ops.sin(%s)" % (sp, sp))]
        else:
            F += [('GroupL1Norm', "S.GroupL1Norm(%s)" % sp)]
        for nm, exx in F:
            cat.append(('Functional-%s-%s' % (nm, sk), exx, True))
    cat += [
        ('Functional-simple_functional-rn3', "S.functional.functional.simple_functional(SP['rn3'], fcall=lambda x: x.norm() ** 2, grad=lambda x: 2 * x)", False),
        ('Functional-simple_functional-rn3w', "S.functional.functional.simple_functional(SP['rn3w'], fcall=lambda x: x.norm() ** 2, grad=lambda x: 2 * x)", False),
        ('PointwiseNorm-complex-raises', "odl.PointwiseNorm(odl.ProductSpace(SP['cdiscr3'], 2))", False),
        ('PointwiseNorm-inf-raises', "odl.PointwiseNorm(odl.ProductSpace(SP['discr4'], 2), exponent=float('inf'))", False),
        ('FunctionalComp-MatrixOperator-weighted-space', "S.L2NormSquared(odl.rn(2)) * odl.MatrixOperator(np.array([[1.0, 2.0, -1.0], [0.5, 0.0, 3.0]]), domain=SP['rn3w'], range=odl.rn(2))", False),
        ('FunctionalComp-MatrixOperator-weighted-space', "S.L2NormSquared(odl.rn(2)) * odl.MatrixOperator(np.array([[1.0, 2.0, -1.0], [0.5, 0.0, 3.0]]), domain=SP['rn3c'], range=odl.rn(2))", False),
        ('FunctionalComp-MatrixOperator-weighted-space', "S.L2Norm(odl.rn(2)) * odl.MatrixOperator(np.array([[1.0, 2.0, -1.0, 0.0], [0.5, 0.0, 3.0, 1.0]]), domain=SP['discr4'], range=odl.rn(2))", False),
        ('FunctionalComp-Gradient-discr', "S.L2NormSquared(odl.Gradient(SP['discr23']).range) * odl.Gradient(SP['discr23'])", False),
        ('FunctionalComp-MatrixOperator-unweighted', "S.L2Norm(odl.rn(2)) * odl.MatrixOperator(np.array([[1.0, 2.0, -1.0], [0.5, 0.0, 3.0]]))", False),
        # image deformation: the fixed-displacement operator is linear (its own derivative); the fixed-template one
        # is exempt by the property text (its derivative discretises the continuum formula) and is not probed
        ('LinDeformFixedDisp-linear', "odl.deform.LinDeformFixedDisp(SP['discr4'].tangent_bundle.element([[0.1, 0.0, -0.1, 0.05]]))", False),
        ('RosenbrockFunctional-rn', "S.RosenbrockFunctional(odl.rn(4), scale=2.0)", False),
        ('RosenbrockFunctional-weighted-space', "S.RosenbrockFunctional(SP['rn3w'], scale=2.0)", False),
        ('RosenbrockFunctional-weighted-space', "S.RosenbrockFunctional(SP['discr4'], scale=2.0)", False),
        ('RosenbrockGradient', "S.RosenbrockFunctional(odl.rn(4), scale=3.0).gradient", False),
        ('L2NormSquared-gradient', "S.L2NormSquared(SP['discr4']).gradient", False),
        ('L1Norm-gradient', "S.L1Norm(SP['rn3']).gradient", False),
        ('QuadraticForm-gradient', "S.QuadraticForm(operator=odl.MatrixOperator(np.array([[1.0, 2.0, 0.0], [0.5, 1.0, 3.0], [0.0, -1.0, 2.0]])), vector=SP['rn3'].element([1, 2, 3])).gradient", False),
        ('FunctionalCompositionGradient-linear', "(S.L2NormSquared(odl.rn(2)) * odl.MatrixOperator(np.array([[1.0, 2.0, -1.0], [0.5, 0.0, 3.0]]))).gradient", False),
        # functionals whose domain is the scalar field
        ('Functional-on-field-derivative', "odl.ufunc_ops.sin()", True),
        ('Functional-on-field-derivative', "odl.ufunc_ops.square()", True),
        ('Functional-on-field-derivative', "odl.ufunc_ops.exp()", True),
        ('Functional-on-field-derivative', "S.ScalingFunctional(odl.RealNumbers(), 3.0)", True),
        ('Functional-on-field-derivative', "S.IdentityFunctional(odl.RealNumbers())", True),
        ('Functional-on-field-derivative', "odl.ufunc_ops.negative()", True),
    ]
    return cat


def catalogue_probes(rng, tier):
    import odl
    import odl.solvers as S
    out = []
    SP = {k: eval(v, {'odl': odl}) for k, v in CATALOGUE_SPACES.items()}
    reps = 1 if tier == 'quick' else 4
    import sys
    Hmod = sys.modules[__name__]
    for key, expr, pos in catalogue():
        for rep in range(reps):
            seed = rng.randrange(10 ** 9)
            body = ("import random, odl.solvers as S\nrng = random.Random(%d)\n"
                    "SP = {k: eval(v, {'odl': odl}) for k, v in H.CATALOGUE_SPACES.items()}\n"
                    "try:\n    op = %s\n    x = H._rnd_el(rng, op.domain, %r); d = H._rnd_el(rng, op.domain)\n"
                    "    ok, observed = H.cd_check(op, x, d)\n"
                    "except Exception as e:\n    ok, observed = False, 'raised %%s: %%s' %% (type(e).__name__, str(e)[:200])\n"
                    % (seed, expr, pos))
            env = {'odl': odl, 'np': np, 'H': Hmod}
            with np.errstate(all='ignore'):
                exec(body, env)
            ok = env['ok']
            if ok is None:
                # documented "not differentiable here / not implemented": acceptable outcome
                out.append(C.Probe(True, key, '%s: %s' % (expr, env['observed']), None))
                continue
            out.append(C.Probe(bool(ok), key, 'central differences vs derivative: %s' % expr,
                               REPLAY_HEAD + body + "ok = bool(ok)\n", env['observed']))
    return out


# ---- every ufunc of both tables in both variants, at generic points -------------------------------
def ufunc_names():
    from odl.ufunc_ops.ufunc_ops import UFUNCS, _is_integer_only_ufunc
    return [n for n, nin, nout, _ in UFUNCS if nin == 1 and nout == 1 and not _is_integer_only_ufunc(n)]


UF_POSITIVE = ('log', 'log10', 'log2', 'log1p', 'sqrt', 'arccosh')
UF_VARIANTS = {'op-rn3': "odl.rn(3)", 'op-cn2': "odl.cn(2)", 'func-R': "odl.RealNumbers()",
               'func-C': "odl.ComplexNumbers()"}


def ufunc_probe_one(name, variant, seed):
    """central differences vs derivative(x)(d) of odl.ufunc_ops.<name>(<domain>) at a generic point:
    entries in +-[0.3, 1.4] (away from 0 and from the poles of tan), positive for log/sqrt"""
    import odl
    import random
    rng = random.Random(seed)
    dom = eval(UF_VARIANTS[variant], {'odl': odl})
    cplx = variant in ('op-cn2', 'func-C')
    try:
        op = getattr(odl.ufunc_ops, name)(dom)
    except (TypeError, ValueError) as e:          # no signature of the ufunc for this dtype
        return None, 'not available: %s' % str(e)[:80]

    def num(pos):
        v = _away(rng, 0.4 if pos else -1.4, 1.4)
        if cplx:
            v = v + 1j * _away(rng, -1.0, 1.0)
        return v
    pos = name in UF_POSITIVE
    n = 1 if variant.startswith('func') else dom.size
    xs, ds = [num(pos) for _ in range(n)], [num(False) for _ in range(n)]
    if variant.startswith('func'):
        x, d = xs[0], ds[0]
    else:
        x, d = dom.element(xs), dom.element(ds)
    try:
        return cd_check(op, x, d)
    except Exception as e:
        return False, 'raised %s: %s' % (type(e).__name__, str(e)[:200])


def ufunc_probes(rng, tier):
    out = []
    reps = 2 if tier == 'quick' else 8
    for name in ufunc_names():
        for variant in sorted(UF_VARIANTS):
            for _ in range(reps):
                seed = rng.randrange(10 ** 9)
                with np.errstate(all='ignore'):
                    ok, detail = ufunc_probe_one(name, variant, seed)
                key = 'ufunc-%s-%s' % (name, variant)
                if ok is None:
                    out.append(C.Probe(True, key, 'odl.ufunc_ops.%s(%s): %s' % (name, UF_VARIANTS[variant], detail), None))
                    continue
                rp = REPLAY_HEAD + "ok, observed = H.ufunc_probe_one(%r, %r, %d)\nok = bool(ok)\n" % (name, variant, seed)
                out.append(C.Probe(bool(ok), key, 'central differences vs derivative(x)(d) of odl.ufunc_ops.%s(%s) at a '
                                   'generic point' % (name, UF_VARIANTS[variant]), rp, detail))
    return out


# ---- derivative(x) is a function of x only: no state shared with the operator ----------------------
HIST_ACTIONS = ['op(z)', 'op(z,out)', 'op(x,out)', 'op.derivative(z)', 'op.derivative(z)(d2)', 'op.derivative(z)(d2,out)',
                'op.derivative(x)', 'D(d2)', 'D(d2,out)', 'D(d,out)']


def with_tmps(rng, r):
    """recipe -> recipe using the constructors with user-supplied scratch elements and reference-keeping leaves"""
    if isinstance(r, list):
        return [with_tmps(rng, c) for c in r]
    if not (isinstance(r, tuple) and r and isinstance(r[0], str)):
        return r
    k = r[0]
    if k in ('ident', 'scale', 'mul', 'const', 'zero', 'pow', 'uf', 'cubic', 'mat') and rng.random() < 0.45:
        return (rng.choice(['refcubic', 'cmod', 'cmod2']), r[1])
    if k in ('norm', 'dist', 'inner', 'pd') or k in ('ident', 'scale', 'mul', 'const', 'zero', 'pow', 'uf', 'cubic', 'mat'):
        return r
    sub = tuple(with_tmps(rng, c) for c in r[1:])
    if k == 'comp' and rng.random() < 0.8:
        return ('comp_t',) + sub
    if k == 'sum' and rng.random() < 0.8:
        return ('sum_t',) + sub + (rng.choice([1, 2, 3]),)
    if k == 'rscal' and rng.random() < 0.8:
        return ('rscal_t',) + sub
    return (k,) + sub


def history_check(rec, skey, xv, dv, zv, d2v, actions):
    """D = op.derivative(x); then other calls on op and on D; D(d) must be unchanged and still be the
    central-difference limit at x"""
    import odl
    op = build(rec)
    sp = space_of(skey)
    x, d, z, d2 = _el(sp, xv), _el(sp, dv), _el(sp, zv), _el(sp, d2v)
    with np.errstate(all='ignore'):
        try:
            D = op.derivative(x)
        except NotImplementedError as e:
            return None, 'raises %s' % type(e).__name__
        except ValueError as e:
            if 'not differentiable' in str(e):
                return None, 'documented non-differentiable point'
            raise
        v0 = np.array(_flat(D(d)), copy=True)
        if not np.all(np.isfinite(v0)):
            return None, 'non-finite'
        for a in actions:
            try:
                if a == 'op(z)':
                    op(z)
                elif a == 'op(z,out)':
                    op(z, out=op.range.element())
                elif a == 'op(x,out)':
                    op(x, out=op.range.element())
                elif a == 'op.derivative(z)':
                    op.derivative(z)
                elif a == 'op.derivative(z)(d2)':
                    op.derivative(z)(d2)
                elif a == 'op.derivative(z)(d2,out)':
                    Dz = op.derivative(z)
                    Dz(d2, out=Dz.range.element())
                elif a == 'op.derivative(x)':
                    op.derivative(x)
                elif a == 'D(d2)':
                    D(d2)
                elif a == 'D(d2,out)':
                    D(d2, out=D.range.element())
                elif a == 'D(d,out)':
                    o = D.range.element()
                    D(d, out=o)
                    vo = _flat(o)
                    if np.all(np.isfinite(vo)) and not np.allclose(vo, v0, rtol=1e-9, atol=1e-9 * max(1.0, float(np.max(np.abs(v0))))):
                        return False, 'D(d, out=...) = %s differs from D(d) = %s' % (vo.tolist(), v0.tolist())
            except NotImplementedError:
                pass                                   # z may be a documented singular point
            except ValueError as e:
                if 'not differentiable' not in str(e):
                    raise
        v1 = _flat(D(d))
        sc = max(1.0, float(np.max(np.abs(v0))) if v0.size else 1.0)
        if not np.allclose(v0, v1, rtol=1e-12, atol=1e-12 * sc):
            return False, 'D = op.derivative(x): D(d) was %s and is %s after %s' % (v0.tolist(), v1.tolist(), actions)
        ok, detail = cd_check(op, x, d, D=D)
        return ok, detail + ' (after the calls %s)' % (actions,)


def history_probes(rng, tier):
    out = []
    n = 150 if tier == 'quick' else 1200
    maxd = 3 if tier == 'quick' else 4
    tries = 0
    while len(out) < n and tries < 30 * n:
        tries += 1
        skey = rng.choice(['rn2', 'rn3', 'rn3c', 'rn3w', 'discr4', 'discr23'])
        sp = space_of(skey)
        rec = with_tmps(rng, gen_recipe(rng, skey, rng.randint(1, maxd)))
        if skey == 'rn3' and rng.random() < 0.1:     # a sum between different spaces, with scratch elements
            rec = ('sum_t', ('mat32', rec), ('mat32', with_tmps(rng, gen_recipe(rng, skey, 1))), rng.choice([1, 2, 3]))
        if not ({'comp_t', 'sum_t', 'rscal_t', 'refcubic', 'cmod', 'cmod2'} & classes_in(rec)):
            continue
        xv, zv = rnd_vals(rng, sp.size, 0.3, 1.8), rnd_vals(rng, sp.size, 0.3, 1.8)
        dv, d2v = rnd_vals(rng, sp.size), rnd_vals(rng, sp.size)
        actions = [rng.choice(HIST_ACTIONS) for _ in range(rng.randint(1, 4))]
        root = rec[0]
        key = 'history-%s-%s' % (root, skey)
        try:
            ok, detail = history_check(rec, skey, xv, dv, zv, d2v, actions)
        except Exception as e:
            ok, detail = False, 'raised %s: %s' % (type(e).__name__, str(e)[:200])
            if type(e).__name__ in ('OpRangeError', 'OpDomainError') and '`tmp_' in str(e):
                key = 'OperatorSum-derivative-swaps-tmp_dom-tmp_ran'
        if ok is None:
            continue
        rp = (REPLAY_HEAD + "ok, observed = H.history_check(%r, %r, %r, %r, %r, %r, %r)\nok = bool(ok)\n"
              % (rec, skey, xv, dv, zv, d2v, actions))
        out.append(C.Probe(bool(ok), key, 'derivative(x) unchanged by later calls %s on a tree (%s) over %s' %
                           (actions, ','.join(sorted(classes_in(rec))), skey), rp, detail))
    return out


# ---- functional trees with repeated constructors, on the real objects ------------------------------
def functional_probe_one(rec, skey, xv, dv):
    sp = space_of(skey)
    try:
        f = fbuild(rec, sp)
    except NotImplementedError as e:              # e.g. no convex conjugate for this tree
        return None, 'construction raises %s' % type(e).__name__
    return cd_check(f, _el(sp, xv), _el(sp, dv))


def functional_tree_probes(rng, tier):
    out = []
    n = 250 if tier == 'quick' else 2000
    maxd = 4 if tier == 'quick' else 6
    tries = 0
    while len(out) < n and tries < 30 * n:
        tries += 1
        skey = rng.choice(['rn2', 'rn3', 'rn3c', 'rn3w', 'discr4', 'discr23'])
        sp = space_of(skey)
        vec = lambda zero_ok=True: rnd_vals(rng, sp.size, away=0.0 if zero_ok else 0.3)
        rec = fgen_recipe(rng, sp.size, rng.randint(2, maxd), exact=False, rosen_ok=(sp.ndim == 1), vec=vec,
                          compm_ok=skey in ('rn2', 'rn3'))    # weighted domains: the recorded MatrixOperator.adjoint finding
        if rng.random() < 0.15:
            rec = ('conj', rec)
        xv = rnd_vals(rng, sp.size, away=0.3)
        dv = rnd_vals(rng, sp.size)
        key = 'functional-tree-%s-%s' % (rec[0], skey)
        try:
            with np.errstate(all='ignore'):
                ok, detail = functional_probe_one(rec, skey, xv, dv)
        except Exception as e:
            if rec[0] == 'conj':
                continue                          # conjugates exist for few trees only
            ok, detail = False, 'raised %s: %s' % (type(e).__name__, str(e)[:200])
        if ok is None:
            continue
        if not ok and 'compm' in classes_in(rec) and skey in ('rn3c', 'rn3w', 'discr4', 'discr23'):
            key = 'FunctionalComp-MatrixOperator-weighted-space'
        rp = REPLAY_HEAD + "ok, observed = H.functional_probe_one(%r, %r, %r, %r)\nok = bool(ok)\n" % (rec, skey, xv, dv)
        out.append(C.Probe(bool(ok), key, 'central differences vs Functional.derivative on a functional tree (%s) over %s'
                           % (','.join(sorted(classes_in(rec))), skey), rp, detail))
    return out


# ---- the point is updated IN PLACE between calls: results must belong to the new value -------------
INPLACE_PRE = ['op(x)', 'op(x,out)', 'op.derivative(x)', 'op.derivative(x)(d)']
INPLACE_HOW = ['iadd', 'lincomb', 'setitem', 'assign', 'imul']
INPLACE_ROOTS = ['sum', 'vecsum', 'comp', 'pprod', 'lscal', 'rscal', 'lvec', 'rvec', 'ovl', 'pwnorm', 'pwinner', 'uf', 'pow',
                 'cubic', 'norm', 'dist']


def inplace_check(rec, skey, x0v, xv, dv, pre, how, first='derivative'):
    """x is an element holding x0v; calls on (op, x); x is overwritten in place with xv; then op(x) must be the
    value at xv and op.derivative(x) the central-difference limit at xv"""
    sp = space_of(skey)
    op = build(rec)
    x, d = _el(sp, x0v), _el(sp, dv)
    with np.errstate(all='ignore'):
        for a in pre:
            try:
                if a == 'op(x)':
                    op(x)
                elif a == 'op(x,out)':
                    op(x, out=op.range.element())
                elif a == 'op.derivative(x)':
                    op.derivative(x)
                elif a == 'op.derivative(x)(d)':
                    op.derivative(x)(d)
            except NotImplementedError:
                pass
            except ValueError as e:
                if 'not differentiable' not in str(e):
                    raise
        new = _el(sp, xv)
        if how == 'iadd':
            x += new - x
        elif how == 'lincomb':
            x.lincomb(0.0, x, 1.0, new)
        elif how == 'setitem':
            x[:] = np.asarray(new)
        elif how == 'assign':
            x.assign(new)
        elif how == 'imul':                       # x *= new / x  (entries of x0 are never 0)
            x *= new / x
        D = None
        if first == 'derivative':                 # the derivative is asked for BEFORE any new evaluation
            try:
                D = op.derivative(x)
            except NotImplementedError as e:
                return None, 'raises %s' % type(e).__name__
            except ValueError as e:
                if 'not differentiable' in str(e):
                    return None, 'documented non-differentiable point'
                raise
        v = _flat(op(x))
        ref = _flat(build(rec)(x.copy()))
        if np.all(np.isfinite(ref)) and not np.allclose(v, ref, rtol=1e-12, atol=1e-12 * max(1.0, float(np.max(np.abs(ref))) if ref.size else 1.0)):
            return False, 'after %s and the in-place update (%s) op(x) = %s, a fresh operator gives %s' % (pre, how, v.tolist(), ref.tolist())
        ok, detail = cd_check(op, x, d, D=D)
        return ok, detail + ' (after %s and the in-place update %s of x, %s first)' % (pre, how, first)


def inplace_probes(rng, tier):
    out = []
    n = 250 if tier == 'quick' else 2000
    maxd = 3 if tier == 'quick' else 4
    tries = 0
    while len(out) < n and tries < 30 * n:
        tries += 1
        skey = rng.choice(sorted(SPACES))
        sp = space_of(skey)
        if tries % 2:                             # every class in turn at the root of a shallow tree: x itself reaches it
            target = INPLACE_ROOTS[(tries // 2) % len(INPLACE_ROOTS)]
            for _ in range(60):
                rec = gen_recipe(rng, skey, rng.randint(1, 2))
                if rec[0] == target:
                    break
        else:
            rec = gen_recipe(rng, skey, rng.randint(0, maxd))
        if rng.random() < 0.4:
            rec = with_tmps(rng, rec)
        x0v, xv = rnd_vals(rng, sp.size, 0.3, 1.8), rnd_vals(rng, sp.size, 0.3, 1.8)
        dv = rnd_vals(rng, sp.size)
        pre = [rng.choice(INPLACE_PRE) for _ in range(rng.randint(1, 3))]
        if rng.random() < 0.6:
            pre[0] = 'op(x)'
        how = rng.choice(INPLACE_HOW)
        first = rng.choice(['derivative', 'derivative', 'value'])
        key = 'inplace-%s-%s' % (rec[0] if rec[0] != 'ovl' else 'ovl' + rec[1], skey)
        try:
            ok, detail = inplace_check(rec, skey, x0v, xv, dv, pre, how, first)
        except Exception as e:
            ok, detail = False, 'raised %s: %s' % (type(e).__name__, str(e)[:200])
        if ok is None:
            continue
        if not ok and 'pwnorm' in classes_in(rec) and skey == 'rn3w' and 'cannot divide' in str(detail):
            key = 'PointwiseNorm-derivative-array-weighted-base-space'
        rp = (REPLAY_HEAD + "ok, observed = H.inplace_check(%r, %r, %r, %r, %r, %r, %r, %r)\nok = bool(ok)\n"
              % (rec, skey, x0v, xv, dv, pre, how, first))
        out.append(C.Probe(bool(ok), key, 'op(x) / op.derivative(x) after %s and an in-place update (%s) of x, tree (%s) over %s'
                           % (pre, how, ','.join(sorted(classes_in(rec))), skey), rp, detail))
    return out


def probes(rng, tier):
    return (tree_probes(rng, tier) + catalogue_probes(rng, tier) + ufunc_probes(rng, tier) + history_probes(rng, tier)
            + functional_tree_probes(rng, tier) + inplace_probes(rng, tier))


def search(rng, broken):
    """something is broken (translator / proof / correspondence) and the probes of this tier found no input:
    run the probe families at thorough volume, the cheap and targeted ones first"""
    known = C.load_findings(PID)
    for fam in (ufunc_probes, catalogue_probes, functional_tree_probes, inplace_probes, history_probes, tree_probes):
        for p in fam(rng, 'thorough'):
            if not p.ok and p.key not in known:
                return p
    return None


LEVEL_TEXT = ('Proof: Coq theorem for EVERY expression tree (any depth, any number of blocks) over OperatorSum/VectorSum/'
              'Comp/PointwiseProduct/Left-,RightScalarMult/Left-,RightVectorMult/FunctionalLeftVectorMult and the '
              'product-space operators Broadcast/Reduction/Diagonal/ProductSpaceOperator, with leaves Scaling, Multiply, '
              'Matrix, InnerProduct, Zero, Constant, Power (integer), every ufunc with a derivative, Norm, Dist, '
              'PointwiseNorm (exponent 1, 2; weights) / PointwiseInner, RealPart, ImagPart, ComplexModulus(Squared) '
              '(real and complex spaces) and arbitrary user-defined leaves: at every regular point where derivative(x) '
              'returns, the returned object evaluates to the Frechet derivative -- literally, little-o in the (sup and Euclidean) norm, '
              'and curve-wise (Hadamard) --, is a bounded linear map '
              'domain -> range, is flagged linear and passes the space checks; hence its action on d is the limit of '
              'central differences (epsilon-delta theorem) and is unique. Flagged-linear trees are proved linear and their '
              'own derivative; affine ones have the derivative of the linear part; on R^n additivity+homogeneity is '
              'proved to imply boundedness. For every tree of the functional arithmetic, <gradient(x), .> '
              '(= Functional.derivative(x)) is proved to be the derivative. Each entry of the ufunc derivative/gradient '
              'tables REGENERATED from ufunc_ops.py is proved to be the derivative of its ufunc. The models are tied to '
              'the code twice: the derivative methods of the 13 classes, the leaf rules, the linear flags and the gradient '
              'rules of functional.py are regenerated from the source on every run and the model is PROVED equal to their '
              'interpretation (a changed inner point / factor / operand breaks a proof), and a structural correspondence '
              'on random trees compares the whole derivative object. The run at Q is proved to be the restriction of '
              'the model at R for the polynomial part.')
LEVEL_NOTE = ('Validated, not proved: the O(h^2) rate; non-integer powers, PointwiseNorm exponents other than 1, 2, '
              'complex scalars/products, the remaining ~20 functionals, weighted/discretised spaces (theorems are for '
              'rn/cn with constant/array weightings and 1-d uniform_discr), finite-difference operators with pad_const -- all '
              'by central-difference probes on the '
              'real objects; also probed: every ufunc in its operator (rn, cn) and functional (R, C) variants at generic '
              'points, and that D = derivative(x) is unchanged by later calls on the operator and on D (constructors with '
              'user scratch elements, reference-keeping leaves) and by in-place updates of the point between calls; functional '
              'trees with repeated constructors/overloads are compared with the model of the expression as written. Exact arithmetic: rounding out of scope. Five open findings and five repaired ones '
              '(findings/C06.json). Axioms: classical reals, funext, classic as printed.')
TECHNIQUE = ('Coq proof by structural induction over a deep embedding of operator arithmetic (nested lists for block '
             'operators), with a curve-based (Hadamard) and an epsilon-delta (Frechet, in norm) differentiability calculus on R^n '
             'built on the standard-library derivable_pt_lim; derivative/gradient RULES and ufunc tables regenerated from the '
             'source by fail-closed ast translators and the model proved equal to their interpretation; Q->R transfer of '
             'the polynomial part; in-Coq structural differential correspondence with a '
             'measured variant switch; central-difference probes')
