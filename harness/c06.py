"""C06 derivatives: translator (ufunc tables) + correspondence (expression trees, leaves, tables) + probes."""
import math

import numpy as np

from . import common as C
from translate import ufunc_deriv as T

PID = 'C06'
SHARD_SIZE = 150
RULE = ('random well-typed expression trees (depth 0..4 quick, 0..6 thorough) over the 10 expression classes of '
        'operator.py with leaves Scaling/Identity/Multiply/Matrix/InnerProduct/Zero/Constant/Power/ufunc '
        'square,reciprocal,negative/a user-defined cubic operator on rn(1..3) and the scalar field, integer and '
        'dyadic points/directions; per case the operator value, is_linear, the whole object returned by '
        'derivative(x) (class skeleton + every scalar/vector it holds), its is_linear/domain/range and its value '
        'on a direction are compared; Norm/Dist cases on Pythagorean points; every entry of the regenerated '
        'ufunc derivative/gradient tables against numpy primitives.  A tree case is non-trivial when the '
        'operator is flagged nonlinear; distinct by (tree, x, d).')
ASSUMPTIONS = ['exact arithmetic: the model is evaluated over Q / proved over R; float rounding is outside the theorems '
               '(tolerance 1e-9 abs+rel in the correspondence)',
               'elements of rn(n) are modelled as lists, the scalar field as singleton lists',
               'differentiability of a composite is proved at points where every leaf met along the way is '
               'differentiable (regular points); zero-crossings of reciprocal/log/sqrt/norm are excluded as in the property',
               'central-difference O(h^2) rate is validated numerically (probes), not proved']
TRUSTED = ['translate/ufunc_deriv.py (Python ast -> Gallina tables), fail-closed',
           'C06/Model.v hand-written mirror of the derivative methods, tied by structural correspondence',
           'harness serialiser of Python operator objects into oexpr terms',
           'NumPy entry-wise kernels, ODL element arithmetic']


def translate():
    return {'Gen/UfuncDeriv.v': T.translate()}


# ------------------------------------------------------------------ spaces
def sp_term(sp):
    import odl
    if isinstance(sp, odl.set.sets.Field):
        return 'SF'
    return '(SV %d)' % sp.size


def vals(el):
    """element (or scalar) -> list of floats"""
    if isinstance(el, (int, float, np.floating, np.integer)):
        return [float(el)]
    return [float(v) for v in np.asarray(el).ravel()]


class Unsupported(Exception):
    pass


def _user_ops():
    import odl

    class CubicDeriv(odl.Operator):
        def __init__(self, space, point):
            super(CubicDeriv, self).__init__(space, space, linear=True)
            self.point = point

        def _call(self, d):
            return (3 * self.point * self.point - 1) * d

    class Cubic(odl.Operator):
        """user-defined nonlinear operator x -> x^3 - x (entry-wise) with its own derivative"""

        def __init__(self, space):
            super(Cubic, self).__init__(space, space, linear=False)

        def _call(self, x):
            return x * x * x - x

        def derivative(self, x):
            return CubicDeriv(self.domain, self.domain.element(x).copy())

    return Cubic, CubicDeriv


_CACHE = {}


def user_ops():
    if 'u' not in _CACHE:
        _CACHE['u'] = _user_ops()
    return _CACHE['u']


def ser(op):
    """Python operator object -> Gallina term of type oexpr (T:=Q)."""
    import odl
    from odl.operator import operator as O
    from odl.operator import default_ops as D
    Cubic, CubicDeriv = user_ops()
    t = type(op)
    n = t.__name__
    if t is O.OperatorSum:
        return '(OSum %s %s)' % (ser(op.left), ser(op.right))
    if t is O.OperatorVectorSum:
        return '(OVecSum %s %s)' % (ser(op.operator), C.qs(vals(op.vector)))
    if t is O.OperatorComp:
        return '(OComp %s %s)' % (ser(op.left), ser(op.right))
    if t is O.OperatorPointwiseProduct:
        return '(OPProd %s %s)' % (ser(op.left), ser(op.right))
    if t is O.OperatorLeftScalarMult:
        return '(OLScal %s %s)' % (ser(op.operator), C.q(float(op.scalar)))
    if t is O.OperatorRightScalarMult:
        return '(ORScal %s %s)' % (ser(op.operator), C.q(float(op.scalar)))
    if t is O.OperatorLeftVectorMult:
        return '(OLVec %s %s)' % (ser(op.operator), C.qs(vals(op.vector)))
    if t is O.OperatorRightVectorMult:
        return '(ORVec %s %s)' % (ser(op.operator), C.qs(vals(op.vector)))
    if t is O.FunctionalLeftVectorMult:
        return '(OFLVec %s %s)' % (ser(op.functional), C.qs(vals(op.vector)))
    if t in (D.ScalingOperator, D.IdentityOperator):
        return '(OLeaf (LScale %s %s))' % (sp_term(op.domain), C.q(float(op.scalar)))
    if t is D.MultiplyOperator:
        if op.domain != op.range:
            raise Unsupported('MultiplyOperator between different spaces')
        return '(OLeaf (LMul %s %s))' % (sp_term(op.domain), C.qs(vals(op.multiplicand)))
    if n == 'MatrixOperator':
        m = np.asarray(op.matrix)
        return '(OLeaf (LMat %d %s))' % (m.shape[1], C.qss(m.tolist()))
    if t is D.InnerProductOperator:
        return '(OLeaf (LInner %s))' % C.qs(vals(op.vector))
    if t is D.ZeroOperator:
        return '(OLeaf (LZero %s %s))' % (sp_term(op.domain), sp_term(op.range))
    if t is D.ConstantOperator:
        return '(OLeaf (LConst %s %s %s))' % (sp_term(op.domain), sp_term(op.range), C.qs(vals(op.constant)))
    if t is D.PowerOperator:
        p = float(op.exponent)
        if p != int(p):
            raise Unsupported('non-integer exponent')
        return '(OLeaf (LPow %s %s))' % (sp_term(op.domain), C.z(int(p)))
    if t is D.NormOperator:
        return '(OLeaf (LNorm %d))' % op.domain.size
    if t is D.DistOperator:
        return '(OLeaf (LDist %s))' % C.qs(vals(op.vector))
    if n.endswith('_op') and n[:-3] in T.UFN and t.__module__ == 'odl.ufunc_ops.ufunc_ops':
        return '(OLeaf (LUf U%s %d))' % (n[:-3], op.domain.size)
    if t is Cubic:
        return '(OLeaf (LAbs %d))' % op.domain.size
    if t is CubicDeriv:
        return '(OLeaf (LAbsD %d %s))' % (op.domain.size, C.qs(vals(op.point)))
    raise Unsupported('no model for class %s' % n)


# ---------------------------------------------------------------- generator
SCAL = [2.0, 3.0, -1.0, 0.5, -2.0, 1.0, 4.0, -0.5, 0.0]
ENT = [1.0, 2.0, -1.0, 3.0, 0.5, -2.0, 4.0, -3.0, 1.5]


def rvec(rng, n, zero_ok=True):
    pool = ENT + ([0.0] if zero_ok else [])
    return [rng.choice(pool) for _ in range(n)]


class Gen(object):
    """random well-typed trees built from the real classes (constructors, not overloads: the derivative
    rules live on the classes; the overloads used inside the rules are what the model's mk_* mirror)"""

    def __init__(self, rng):
        import odl
        self.rng = rng
        self.odl = odl
        self.F = odl.RealNumbers()
        self.V = {n: odl.rn(n) for n in (1, 2, 3)}

    def space(self, allow_field=True):
        r = self.rng.random()
        if allow_field and r < 0.2:
            return self.F
        return self.V[self.rng.choice([1, 2, 2, 3, 3])]

    def is_f(self, s):
        return s is self.F

    def el(self, s, zero_ok=True):
        if self.is_f(s):
            return self.rng.choice(ENT)
        return s.element(rvec(self.rng, s.size, zero_ok))

    def leaf(self, dom, ran):
        odl, rng = self.odl, self.rng
        D = odl.operator.default_ops
        Cubic, _ = user_ops()
        if self.is_f(dom) and self.is_f(ran):
            k = rng.choice(['scale', 'pow', 'mul', 'zero', 'ident'])
            if k == 'scale':
                return D.ScalingOperator(dom, rng.choice(SCAL))
            if k == 'ident':
                return D.IdentityOperator(dom)
            if k == 'pow':
                return D.PowerOperator(dom, rng.choice([1, 2, 3, 2]))
            if k == 'mul':
                return D.MultiplyOperator(rng.choice(ENT), domain=dom, range=ran)
            return D.ZeroOperator(dom)
        if self.is_f(dom):
            # field -> rn: vector times a scalar-valued operator
            return odl.operator.operator.FunctionalLeftVectorMult(self.leaf(dom, dom), self.el(ran))
        if self.is_f(ran):
            return D.InnerProductOperator(self.el(dom))
        if dom.size != ran.size:
            k = rng.choice(['mat', 'mat', 'zero', 'const'])
            if k == 'mat':
                return odl.MatrixOperator(np.array([rvec(rng, dom.size) for _ in range(ran.size)]),
                                          domain=dom, range=ran)
            if k == 'zero':
                return D.ZeroOperator(dom, ran)
            return D.ConstantOperator(self.el(ran), domain=dom, range=ran)
        k = rng.choice(['scale', 'ident', 'mul', 'mat', 'zero', 'const', 'const0', 'pow', 'pow', 'square', 'square',
                        'recip', 'neg', 'cubic', 'cubic'])
        if k == 'scale':
            return D.ScalingOperator(dom, rng.choice(SCAL))
        if k == 'ident':
            return D.IdentityOperator(dom)
        if k == 'mul':
            return D.MultiplyOperator(self.el(dom))
        if k == 'mat':
            return odl.MatrixOperator(np.array([rvec(rng, dom.size) for _ in range(ran.size)]), domain=dom, range=ran)
        if k == 'zero':
            return D.ZeroOperator(dom)
        if k == 'const':
            return D.ConstantOperator(self.el(dom))
        if k == 'const0':
            return D.ConstantOperator(dom.zero())
        if k == 'pow':
            return D.PowerOperator(dom, rng.choice([1, 2, 3, -1, 2, 3]))
        if k == 'square':
            return odl.ufunc_ops.square(dom)
        if k == 'recip':
            return odl.ufunc_ops.reciprocal(dom)
        if k == 'neg':
            return odl.ufunc_ops.negative(dom)
        return Cubic(dom)

    def tree(self, dom, ran, depth):
        rng = self.rng
        O = self.odl.operator.operator
        if depth <= 0 or rng.random() < 0.12:
            return self.leaf(dom, ran)
        kinds = ['sum', 'comp', 'comp', 'pprod', 'lscal', 'rscal']
        if not self.is_f(ran):
            kinds += ['vecsum', 'lvec', 'flvec']
        if not self.is_f(dom):
            kinds += ['rvec']
        k = rng.choice(kinds)
        d = depth - 1
        if k == 'sum':
            return O.OperatorSum(self.tree(dom, ran, d), self.tree(dom, ran, d))
        if k == 'vecsum':
            return O.OperatorVectorSum(self.tree(dom, ran, d), self.el(ran))
        if k == 'comp':
            mid = self.space()
            return O.OperatorComp(self.tree(mid, ran, d), self.tree(dom, mid, d))
        if k == 'pprod':
            return O.OperatorPointwiseProduct(self.tree(dom, ran, d), self.tree(dom, ran, d))
        if k == 'lscal':
            return O.OperatorLeftScalarMult(self.tree(dom, ran, d), rng.choice(SCAL))
        if k == 'rscal':
            return O.OperatorRightScalarMult(self.tree(dom, ran, d), rng.choice(SCAL))
        if k == 'lvec':
            return O.OperatorLeftVectorMult(self.tree(dom, ran, d), self.el(ran))
        if k == 'rvec':
            return O.OperatorRightVectorMult(self.tree(dom, ran, d), self.el(dom))
        return O.FunctionalLeftVectorMult(self.tree(dom, self.F, d), self.el(ran))


BIG = 1e5


def _finite_small(xs):
    return all(math.isfinite(v) and abs(v) <= BIG for v in xs)


def _nums_in(term):
    """all numerators/denominators written in a term are of moderate size (proxy for intermediate magnitudes)"""
    return len(term) < 60000


def run_case(op, x, d):
    """Evaluate the implementation; returns (coq_term, info) or None when the case must be discarded
    (non-finite or huge values: 1/0 has no counterpart in exact arithmetic)."""
    with np.errstate(all='ignore'):
        e = ser(op)
        val = vals(op(x))
        lin = bool(op.is_linear)
        try:
            Dop = op.derivative(x)
            raised = None
        except Exception as ex:       # the model predicts WHETHER it raises, not the class
            Dop, raised = None, type(ex).__name__
        if Dop is not None:
            De = ser(Dop)
            Dd = vals(Dop(d))
            Dlin = bool(Dop.is_linear)
            if Dop.domain != op.domain or Dop.range != op.range:
                De = '(OLeaf (LZero SF SF))'      # forces a mismatch: wrong spaces
            dterm = '(DOk %s %s %s)' % (De, C.b(Dlin), C.qs(Dd))
            allv = val + Dd + _floats_of(Dop)
        else:
            dterm = 'DRaise'
            allv = list(val)
        allv += _floats_of(op)
    if not _finite_small(allv):
        return None
    term = ('{| c_e := %s; c_x := %s; c_d := %s; c_lin := %s; c_val := %s; c_der := %s |}'
            % (e, C.qs(vals(x)), C.qs(vals(d)), C.b(lin), C.qs(val), dterm))
    if not _nums_in(term):
        return None
    return term, {'op': repr(op)[:300], 'x': vals(x), 'd': vals(d), 'raised': raised}


def _floats_of(op):
    """every scalar/vector stored in an operator tree (for the magnitude filter)"""
    out = []
    for attr in ('scalar', 'vector', 'multiplicand', 'constant', 'point'):
        if hasattr(op, attr):
            try:
                out += vals(getattr(op, attr))
            except Exception:
                pass
    for attr in ('left', 'right', 'operator', 'functional'):
        sub = getattr(op, attr, None)
        if sub is not None and hasattr(sub, 'domain'):
            out += _floats_of(sub)
    return out


def tree_cases(rng, tier):
    cs = C.CaseSet('trees', ['C06.Syntax', 'Gen.UfuncDeriv', 'C06.Model', 'C06.Corr'], 'check', 'case')
    g = Gen(rng)
    n = 700 if tier == 'quick' else 5000
    maxd = 4 if tier == 'quick' else 6
    tries = 0
    while len(cs.cases) < n and tries < 20 * n:
        tries += 1
        depth = rng.choice(range(0, maxd + 1))
        dom, ran = g.space(), g.space()
        try:
            op = g.tree(dom, ran, depth)
        except Exception as ex:
            raise RuntimeError('generator built an ill-typed tree: %r' % ex)
        x = g.el(dom, zero_ok=False)
        d = g.el(dom)
        try:
            r = run_case(op, x, d)
        except (ValueError, OverflowError, ZeroDivisionError):
            r = None             # a non-finite number somewhere: no counterpart in exact arithmetic
        if r is None:
            continue
        term, info = r
        info['depth'] = depth
        key = (term,) if not op.is_linear else None
        cs.add(term, info, key)
    return cs


# Pythagorean data: ||x|| and ||x - v|| are integers (exact roots in the Q model)
PYTH = [([3.0, 4.0], [3.0, -1.0]), ([6.0, 8.0], [3.0, 4.0]), ([3.0, 4.0, 12.0], [3.0, 4.0, 0.0]),
        ([1.0, 2.0, 2.0], [1.0, -2.0, -1.0]), ([5.0], [2.0]), ([-4.0, 3.0], [0.0, 0.0]),
        ([2.0, 3.0, 6.0], [0.0, 0.0, 0.0]), ([8.0, -6.0], [8.0, 4.0]),
        ([0.0, 0.0], [3.0, 4.0]),          # norm not differentiable: raises
        ([1.0, 1.0, 4.0], [1.0, 1.0, 4.0])]  # dist not differentiable at the reference: raises (norm irrational: skipped where needed)


def norm_cases(rng, tier):
    import odl
    O = odl.operator.operator
    D = odl.operator.default_ops
    cs = C.CaseSet('normdist', ['C06.Syntax', 'Gen.UfuncDeriv', 'C06.Model', 'C06.Corr'], 'check', 'case')
    F = odl.RealNumbers()
    reps = 1 if tier == 'quick' else 4
    for xs, vs in PYTH:
        X = odl.rn(len(xs))
        x, v = X.element(xs), X.element(vs)
        nx = math.sqrt(sum(a * a for a in xs))
        norm_exact = nx == int(nx)
        N, Di = D.NormOperator(X), D.DistOperator(v)
        for _ in range(reps):
            s = rng.choice([2.0, -3.0, 0.5, 1.0, -1.0])
            w = odl.rn(2).element(rvec(rng, 2))
            ops = [Di, O.OperatorLeftScalarMult(Di, s), O.FunctionalLeftVectorMult(Di, w),
                   O.OperatorComp(D.PowerOperator(F, rng.choice([2, 3])), Di),
                   O.OperatorPointwiseProduct(Di, D.InnerProductOperator(X.element(rvec(rng, len(xs)))))]
            if norm_exact:
                ops += [N, O.OperatorLeftScalarMult(N, s), O.OperatorRightScalarMult(N, s),
                        O.FunctionalLeftVectorMult(N, w), O.OperatorSum(N, Di), O.OperatorPointwiseProduct(N, Di),
                        O.OperatorPointwiseProduct(Di, N),
                        O.OperatorComp(D.PowerOperator(F, rng.choice([2, 3])), N),
                        O.OperatorComp(D.ScalingOperator(F, s), O.OperatorPointwiseProduct(N, N)),
                        O.OperatorRightScalarMult(O.OperatorSum(N, D.InnerProductOperator(X.element(rvec(rng, len(xs))))), s)]
            for op in ops:
                d = X.element(rvec(rng, len(xs)))
                r = run_case(op, x, d)
                if r is None:
                    continue
                term, info = r
                cs.add(term, info, (term,))
    return cs


UPOINTS = [[0.5, 1.0, 0.25], [1.5, 0.75, 2.0], [0.125, 3.0, 1.25]]
PRIMS = ['sin', 'cos', 'tan', 'sqrt', 'log', 'exp', 'sinh', 'cosh', 'reciprocal', 'square']


def ufunc_cases(rng, tier):
    import odl
    cs = C.CaseSet('ufunc', ['C06.Syntax', 'Gen.UfuncDeriv', 'C06.Model', 'C06.Corr'], 'ucheck', 'ucase')
    X = odl.rn(3)
    F = odl.RealNumbers()
    pts = UPOINTS if tier == 'quick' else UPOINTS + [[rng.choice([0.25, 0.5, 0.75, 1.25, 1.75, 2.5]) for _ in range(3)]
                                                       for _ in range(6)]
    with np.errstate(all='ignore'):
        for name in T.UFN:
            for p in pts:
                if name in ('arcsin', 'arccos', 'arctanh'):
                    p = [min(v, 0.875) for v in p]
                if name == 'arccosh':
                    p = [v + 1.0 for v in p]
                prim = '[' + '; '.join('(U%s, %s)' % (g, C.qs(getattr(np, g)(np.array(p)).tolist())) for g in PRIMS) + ']'
                # operator on rn(3)
                op = getattr(odl.ufunc_ops, name)(X)
                try:
                    Dop = op.derivative(X.element(p))
                    mult = 'Some %s' % C.qs(vals(Dop(X.one())))
                except odl.OpNotImplementedError:
                    mult = 'None'
                cs.add('{| u_f := U%s; u_grad := false; u_x := %s; u_prim := %s; u_lin := %s; u_mult := %s |}'
                       % (name, C.qs(p), prim, C.b(op.is_linear), mult),
                       {'ufunc': name, 'kind': 'operator', 'point': p}, (name, 'op', tuple(p)))
                # functional on the real numbers: the gradient table
                f = getattr(odl.ufunc_ops, name)(F)
                x0 = p[0]
                prim1 = '[' + '; '.join('(U%s, %s)' % (g, C.qs([float(getattr(np, g)(x0))])) for g in PRIMS) + ']'
                try:
                    gv = f.gradient(x0)
                    mult = 'Some %s' % C.qs([float(gv)])
                except (NotImplementedError, TypeError):
                    # TypeError: property(Functional.gradient) of the fallback is not callable (see finding
                    # ufunc-functional-fallback-gradient); both mean "no gradient"
                    mult = 'None'
                cs.add('{| u_f := U%s; u_grad := true; u_x := %s; u_prim := %s; u_lin := %s; u_mult := %s |}'
                       % (name, C.qs([x0]), prim1, C.b(f.is_linear), mult),
                       {'ufunc': name, 'kind': 'functional', 'point': x0}, (name, 'func', x0))
    return cs


def correspondence(rng, tier):
    return [tree_cases(rng, tier), norm_cases(rng, tier), ufunc_cases(rng, tier)]


def probes(rng, tier):
    return []


LEVEL_TEXT = ''
LEVEL_NOTE = ''
TECHNIQUE = ''
