"""C16 resizing and padding: translator + correspondence + probes."""
import itertools

import numpy as np

from . import common as C
from translate import padding as T

PID = 'C16'
RULE = ('resize_array on 1-d arrays: 5 pad modes x 2 directions x input lengths 0..n x output lengths 0..m x '
        'every offset from -2 to |m-n|+2 (legal and illegal) x small-integer contents x pad constants; '
        'a case is non-trivial when the array is not identically zero or the outcome is an error; '
        'distinct by (mode, direction, n, n_out, offset, pad_const, dtype, values)')
ASSUMPTIONS = ['exact arithmetic: inputs are small integers so every float operation is exact',
               'NumPy slicing / broadcasting / overlapping-assignment semantics are trusted as modelled']
TRUSTED = ['translate/padding.py (Python ast -> Gallina slice arithmetic and guards), fail-closed',
           'C16/Model.v Python-slice semantics and the statement sequence of _apply_padding']
SHARD_SIZE = 400

MODES = list(T.MODES)
DIRS = ['forward', 'adjoint']
DIRK = {'forward': 'Forward', 'adjoint': 'Adjoint'}


def translate():
    return {'Gen/Padding.v': T.translate()}


def impl_resize(arr, newshp, off, mode, c, direction):
    from odl.util.numerics import resize_array
    try:
        r = resize_array(arr, newshp, offset=off, pad_mode=mode, pad_const=c, direction=direction)
        return 'IOk %s' % C.qs(np.asarray(r).ravel().tolist())
    except ValueError:
        return 'IValueErr'
    except Exception:
        return 'IOtherErr'


def cases_1d(rng, tier):
    cs = C.CaseSet('resize1d', ['C16.Syntax', 'Gen.Padding', 'C16.Model', 'C16.Corr'], 'check1', 'case1')
    nmax, mmax = (5, 7) if tier == 'quick' else (7, 11)
    for mode, d in itertools.product(MODES, DIRS):
        for n, m in itertools.product(range(0, nmax + 1), range(0, mmax + 1)):
            for off in range(-2, abs(m - n) + 3):
                if tier == 'quick' and (off < 0 or off > abs(m - n)) and rng.random() < 0.5:
                    continue
                dt = rng.choice([float, float, float, int])
                arr = np.array([rng.randint(-9, 9) for _ in range(n)], dtype=dt)
                if mode == 'constant':
                    c = rng.choice([0, 0, 1, -2, 1.5]) if d == 'forward' else rng.choice([0, 0, 0, 1])
                else:
                    c = rng.choice([0, 0, 3])
                cast = bool(np.can_cast(c, arr.dtype))
                out = impl_resize(arr, (m,), off, mode, c, d)
                term = ('{| k_m := %s; k_d := %s; k_c := %s; k_cast := %s; k_arr := %s; k_nout := %s; '
                        'k_off := %s; k_out := %s |}'
                        % (T.PMODE[mode], DIRK[d], C.q(c), C.b(cast), C.qs(arr.tolist()), C.nat(m), C.z(off), out))
                key = ((mode, d, n, m, off, c, dt.__name__, tuple(arr.tolist()))
                       if (arr.any() or out.startswith('IValueErr')) else None)
                cs.add(term, {'mode': mode, 'direction': d, 'arr': arr.tolist(), 'dtype': dt.__name__,
                              'newshp': m, 'offset': off, 'pad_const': c}, key)
    return cs


def correspondence(rng, tier):
    return [cases_1d(rng, tier)]


def probes(rng, tier):
    return []


LEVEL_TEXT = 'TODO'
LEVEL_NOTE = 'TODO'
TECHNIQUE = 'Coq proof by list induction over source-regenerated slice arithmetic + in-Coq differential correspondence'
