"""C16 resizing and padding: translator + correspondence + probes."""
import itertools

import numpy as np

from . import common as C
from translate import padding as T

PID = 'C16'
RULE = ('resize_array on 1-d arrays: 5 pad modes x 2 directions x input lengths 0..n x output lengths 0..m x '
        'every offset from -2 to |m-n|+2 (legal and illegal) x small-integer contents x pad constants; '
        'a case is non-trivial when the array is not identically zero or the outcome is an error; '
        'distinct by (mode, direction, n, n_out, offset, pad_const, dtype, values)')
ASSUMPTIONS = ['exact arithmetic: inputs are small integers so every float operation is exact',
               'NumPy slicing / broadcasting / overlapping-assignment semantics are trusted as modelled']
TRUSTED = ['translate/padding.py (Python ast -> Gallina slice arithmetic and guards), fail-closed',
           'C16/Model.v Python-slice semantics and the statement sequence of _apply_padding']
SHARD_SIZE = 400

MODES = list(T.MODES)
DIRS = ['forward', 'adjoint']
DIRK = {'forward': 'Forward', 'adjoint': 'Adjoint'}


def translate():
    return {'Gen/Padding.v': T.translate()}


def impl_resize(arr, newshp, off, mode, c, direction):
    from odl.util.numerics import resize_array
    try:
        r = resize_array(arr, newshp, offset=off, pad_mode=mode, pad_const=c, direction=direction)
        return 'IOk %s' % C.qs(np.asarray(r).ravel().tolist())
    except ValueError:
        return 'IValueErr'
    except Exception:
        return 'IOtherErr'


def cases_1d(rng, tier):
    cs = C.CaseSet('resize1d', ['C16.Syntax', 'Gen.Padding', 'C16.Model', 'C16.Corr'], 'check1', 'case1')
    nmax, mmax = (5, 7) if tier == 'quick' else (7, 11)
    for mode, d in itertools.product(MODES, DIRS):
        for n, m in itertools.product(range(0, nmax + 1), range(0, mmax + 1)):
            for off in range(-2, abs(m - n) + 3):
                if tier == 'quick' and (off < 0 or off > abs(m - n)) and rng.random() < 0.5:
                    continue
                dt = rng.choice([float, float, float, int])
                arr = np.array([rng.randint(-9, 9) for _ in range(n)], dtype=dt)
                if mode == 'constant':
                    c = rng.choice([0, 0, 1, -2, 1.5]) if d == 'forward' else rng.choice([0, 0, 0, 1])
                else:
                    c = rng.choice([0, 0, 3])
                cast = bool(np.can_cast(c, arr.dtype))
                out = impl_resize(arr, (m,), off, mode, c, d)
                term = ('{| k_m := %s; k_d := %s; k_c := %s; k_cast := %s; k_arr := %s; k_nout := %s; '
                        'k_off := %s; k_out := %s |}'
                        % (T.PMODE[mode], DIRK[d], C.q(c), C.b(cast), C.qs(arr.tolist()), C.nat(m), C.z(off), out))
                key = ((mode, d, n, m, off, c, dt.__name__, tuple(arr.tolist()))
                       if (arr.any() or out.startswith('IValueErr')) else None)
                cs.add(term, {'mode': mode, 'direction': d, 'arr': arr.tolist(), 'dtype': dt.__name__,
                              'newshp': m, 'offset': off, 'pad_const': c}, key)
    return cs


def _legal_off(rng, n, m):
    return rng.randint(0, abs(m - n))


def cases_nd(rng, tier):
    cs = C.CaseSet('resizeNd', ['C16.Syntax', 'Gen.Padding', 'C16.Model', 'C16.ModelNd', 'C16.Corr'],
                   'checkN', 'caseN')
    nper = 12 if tier == 'quick' else 60
    for mode, d in itertools.product(MODES, DIRS):
        for k in range(nper):
            ndim = rng.choice([2, 2, 2, 3]) if k % 6 else 1
            hi = 4 if ndim == 2 else 3
            ish = [rng.randint(1 if k % 7 else 0, hi + 1) for _ in range(ndim)]
            osh = [rng.randint(1 if k % 5 else 0, hi + 2) for _ in range(ndim)]
            kind = k % 4   # 0,1,2: admissible offsets (mostly legal paddings); 3: arbitrary offsets
            offs = []
            for a in range(ndim):
                n_in, n_out = ish[a], osh[a]
                small, large = (n_in, n_out) if d == 'forward' else (n_out, n_in)
                if kind == 3:
                    offs.append(rng.randint(-1, abs(n_out - n_in) + 1))
                    continue
                # try to make the padding legal for the mode by shrinking the size change
                if large > small and kind != 2:
                    lim = {'symmetric': small - 1, 'periodic': small}.get(mode, 99)
                    lim = max(lim, 0)
                    grow = min(large - small, 2 * lim)
                    if d == 'forward':
                        osh[a] = small + grow
                    else:
                        ish[a] = small + grow
                    lo = max(0, grow - lim)
                    offs.append(rng.randint(lo, min(lim, grow)) if grow else 0)
                else:
                    offs.append(_legal_off(rng, n_in, n_out))
            dt = rng.choice([float, float, int])
            arr = np.array([rng.randint(-9, 9) for _ in range(int(np.prod(ish)))], dtype=dt).reshape(ish)
            if mode == 'constant':
                c = rng.choice([0, 0, 1, -2, 1.5]) if d == 'forward' else rng.choice([0, 0, 0, 1])
            else:
                c = 0
            cast = bool(np.can_cast(c, arr.dtype))
            out = impl_resize(arr, tuple(osh), offs, mode, c, d)
            term = ('{| n_m := %s; n_d := %s; n_c := %s; n_cast := %s; n_ishape := %s%%nat; n_arr := %s; '
                    'n_oshape := %s%%nat; n_offs := %s%%Z; n_out := %s |}'
                    % (T.PMODE[mode], DIRK[d], C.q(c), C.b(cast), C.nats(ish), C.qs(arr.ravel().tolist()),
                       C.nats(osh), C.zs(offs), out))
            key = ((mode, d, tuple(ish), tuple(osh), tuple(offs), c, dt.__name__, tuple(arr.ravel().tolist()))
                   if (arr.any() or out.startswith('IValueErr')) else None)
            cs.add(term, {'mode': mode, 'direction': d, 'ishape': ish, 'oshape': osh, 'offset': offs,
                          'dtype': dt.__name__, 'pad_const': c, 'arr': arr.tolist(),
                          'outcome': out[:10]}, key)
    return cs


def measured_fixed():
    """Which sign convention _resize_discr uses for a restriction with an explicit offset
    (finding range-restrict-explicit-offset): False = as coded (range left of the domain),
    True = repaired (range inside the domain)."""
    import odl
    X = odl.uniform_discr(0, 1, 10)
    try:
        lo = float(odl.ResizingOperator(X, ran_shp=(6,), offset=2).range.min_pt[0])
    except Exception:
        return False
    return abs(lo - 0.2) < 1e-9


def _out(f):
    try:
        return 'IOk %s' % C.qs(np.asarray(f()).ravel().tolist())
    except ValueError:
        return 'IValueErr'
    except Exception:
        return 'IOtherErr'


def cases_op(rng, tier):
    import odl
    cs = C.CaseSet('resizing_op', ['C16.Syntax', 'Gen.Padding', 'C16.Model', 'C16.ModelNd', 'C16.ModelOp',
                                   'C16.Corr'], 'checkOp', 'caseOp')
    fixed = measured_fixed()
    nper = 10 if tier == 'quick' else 50
    for mode in MODES:
        for k in range(nper):
            ndim = rng.choice([1, 1, 2])
            dom, nnew, offs, flags, kw_flags = [], [], [], [], []
            mins, maxs, shape = [], [], []
            same_flags = k % 3 != 0
            for a in range(ndim):
                bl, br = rng.choice([(False, False), (False, False), (True, True), (True, False), (False, True)])
                n = rng.randint(2, 5)
                csz = rng.choice([0.5, 0.25, 1.0, 2.0])
                mn = rng.choice([0.0, -1.0, 0.5, 3.0])
                ext = (n - 0.5 * (bl + br)) * csz
                lim = {'symmetric': n - 1, 'periodic': n}.get(mode, 4)
                grow = k % 4 != 3
                if grow:
                    pl, pr = rng.randint(0, min(lim, 3)), rng.randint(0, min(lim, 3))
                    m_ = n + pl + pr
                    off = rng.choice([None, pl, pl, rng.randint(0, pl + pr)])
                else:
                    m_ = rng.randint(2, n)
                    off = rng.choice([None, None, rng.randint(0, n - m_)])
                nbl, nbr = (bl, br) if same_flags else rng.choice([(False, False), (True, True), (True, False)])
                dom.append((mn, mn + ext, n, (bl, br)))
                mins.append(mn); maxs.append(mn + ext); shape.append(n)
                nnew.append(m_); offs.append(off); flags.append((bl, br)); kw_flags.append((nbl, nbr))
            c = rng.choice([0, 0, 1.5, -2]) if mode == 'constant' else 0
            X = odl.uniform_discr(mins, maxs, shape, nodes_on_bdry=flags)
            try:
                op = odl.ResizingOperator(X, ran_shp=tuple(nnew), offset=None if all(o is None for o in offs)
                                          else [o for o in offs], pad_mode=mode, pad_const=c,
                                          discr_kwargs={'nodes_on_bdry': kw_flags})
            except Exception:
                continue
            x = np.array([rng.randint(-9, 9) for _ in range(int(np.prod(shape)))], dtype=float).reshape(shape)
            y = np.array([rng.randint(-9, 9) for _ in range(int(np.prod(nnew)))], dtype=float).reshape(nnew)
            fx = _out(lambda: op(x))
            ay = _out(lambda: op.adjoint(y))
            inv = _out(lambda: op.inverse(op(x)))
            R = op.range
            doms = C.lst(dom, lambda d: '(%s, %s, %s%%Z, (%s, %s))' % (C.q(d[0]), C.q(d[1]), C.z(d[2]),
                                                                    C.b(d[3][0]), C.b(d[3][1])))
            term = ('{| o_fixed := %s; o_m := %s; o_c := %s; o_dom := %s; o_nnew := %s%%Z; o_off := %s; '
                    'o_flags := %s; o_rmin := %s; o_rmax := %s; o_rcs := %s; o_offset := %s%%Z; '
                    'o_x := %s; o_fx := %s; o_y := %s; o_ay := %s; o_inv := %s |}'
                    % (C.b(fixed), T.PMODE[mode], C.q(c), doms, C.zs(nnew),
                       C.lst(offs, lambda o: 'None' if o is None else '(Some %s%%Z)' % C.z(o)),
                       C.lst(kw_flags, lambda f: '(%s, %s)' % (C.b(f[0]), C.b(f[1]))),
                       C.qs(R.min_pt.tolist()), C.qs(R.max_pt.tolist()), C.qs(R.cell_sides.tolist()),
                       C.zs([int(o) for o in op.offset]),
                       C.qs(x.ravel().tolist()), fx, C.qs(y.ravel().tolist()), ay, inv))
            cs.add(term, {'mode': mode, 'domain': dom, 'ran_shp': nnew, 'offset': offs, 'kw_nodes_on_bdry': kw_flags,
                          'pad_const': c, 'x': x.tolist()},
                   (mode, tuple(dom), tuple(nnew), tuple(offs), tuple(kw_flags), c, tuple(x.ravel().tolist())))
    return cs


def correspondence(rng, tier):
    return [cases_1d(rng, tier), cases_nd(rng, tier), cases_op(rng, tier)]


def probes(rng, tier):
    return []


LEVEL_TEXT = 'TODO'
LEVEL_NOTE = 'TODO'
TECHNIQUE = 'Coq proof by list induction over source-regenerated slice arithmetic + in-Coq differential correspondence'
