"""C16 resizing and padding: translator + correspondence + probes."""
import itertools

import numpy as np

from . import common as C
from translate import padding as T

PID = 'C16'
RULE = ('resize_array on 1-d arrays: 5 pad modes x 2 directions x input lengths 0..n x output lengths 0..m x '
        'every offset from -2 to |m-n|+2 (legal and illegal) x small-integer contents x pad constants; '
        'a case is non-trivial when the array is not identically zero or the outcome is an error; '
        'distinct by (mode, direction, n, n_out, offset, pad_const, dtype, values)')
ASSUMPTIONS = ['exact arithmetic: inputs are small integers so every float operation is exact '
               '(that the Q-executed 1-d model is the restriction of the R model is a theorem: resize1_Q_is_restriction_of_R)',
               'NumPy slicing / broadcasting / overlapping-assignment semantics are trusted as modelled']
TRUSTED = ['translate/padding.py (Python ast -> Gallina: slice arithmetic, legality guards, offset validation, '
           'num_l/num_r tree, new_minpt/new_maxpt, offset_float), fail-closed',
           'C16/Model.v Python-slice semantics and the statement sequence of _apply_padding']
SHARD_SIZE = 400

MODES = list(T.MODES)
DIRS = ['forward', 'adjoint']
DIRK = {'forward': 'Forward', 'adjoint': 'Adjoint'}


def translate():
    return {'Gen/Padding.v': T.translate(), 'Gen/ResizeDiscr.v': T.translate_discr()}


class _SubArr(np.ndarray):
    """an ndarray subclass: np.asarray(view) is a NEW base-class object sharing the caller's memory"""


WRAP_KINDS = ['ndarray', 'ndarray', 'subclass', 'memoryview', 'rn-element', 'discr-element', 'strided', 'fortran']


def wrap_input(rng, arr, kind=None):
    """Return (object handed to the implementation, array owning the memory, kind).  The owner is compared
    bitwise before/after the call: array-likes whose np.asarray() is a new object sharing memory (ODL
    elements, subclass views, memoryviews) and non-contiguous layouts are all exercised."""
    import odl
    kind = kind or rng.choice(WRAP_KINDS)
    arr = np.ascontiguousarray(arr)
    if kind == 'subclass':
        return arr.view(_SubArr), arr, kind
    if kind == 'memoryview' and arr.size > 0:
        return memoryview(arr), arr, kind
    if kind == 'rn-element' and arr.size > 0:
        el = odl.tensor_space(arr.shape, dtype=arr.dtype).element(arr)
        if np.shares_memory(np.asarray(el), arr):
            return el, arr, kind
    if kind == 'discr-element' and arr.size > 0 and arr.ndim >= 1:
        el = odl.uniform_discr([0] * arr.ndim, [1] * arr.ndim, arr.shape, dtype=arr.dtype).element(arr)
        if np.shares_memory(np.asarray(el), arr):
            return el, arr, kind
    if kind == 'strided' and arr.ndim >= 1:
        big = np.zeros(arr.shape[:-1] + (2 * arr.shape[-1],), dtype=arr.dtype)
        view = big[..., ::2]
        view[...] = arr
        return view, big, kind
    if kind == 'fortran' and arr.ndim >= 2:
        f = np.asfortranarray(arr)
        return f, f, kind
    return arr, arr, 'ndarray'


def impl_resize(arr, newshp, off, mode, c, direction, rng=None, kind=None):
    """-> (outcome literal, input kept bitwise AND a second evaluation gives the same result, wrapper kind)"""
    from odl.util.numerics import resize_array
    obj, owner, kind = wrap_input(rng, arr, kind) if (rng is not None or kind) else (arr, arr, 'ndarray')
    before = owner.tobytes()
    try:
        r = resize_array(obj, newshp, offset=off, pad_mode=mode, pad_const=c, direction=direction)
        r = np.array(r)
        kept = owner.tobytes() == before
        r2 = np.asarray(resize_array(obj, newshp, offset=off, pad_mode=mode, pad_const=c, direction=direction))
        kept = kept and owner.tobytes() == before and r2.tobytes() == r.tobytes()
        return 'IOk %s' % C.qs(np.asarray(r).ravel().tolist()), kept, kind
    except ValueError:
        return 'IValueErr', owner.tobytes() == before, kind
    except Exception:
        return 'IOtherErr', owner.tobytes() == before, kind


def cases_1d(rng, tier):
    cs = C.CaseSet('resize1d', ['C16.Syntax', 'Gen.Padding', 'C16.Model', 'C16.Corr'], 'check1', 'case1')
    nmax, mmax = (5, 7) if tier == "quick" else (8, 13)
    for mode, d in itertools.product(MODES, DIRS):
        for n, m in itertools.product(range(0, nmax + 1), range(0, mmax + 1)):
            for off in range(-2, abs(m - n) + 3):
                if tier == 'quick' and (off < 0 or off > abs(m - n)) and rng.random() < 0.5:
                    continue
                dt = rng.choice([float, float, float, int])
                arr = np.array([rng.randint(-9, 9) for _ in range(n)], dtype=dt)
                if mode == 'constant':
                    c = rng.choice([0, 0, 1, -2, 1.5]) if d == 'forward' else rng.choice([0, 0, 0, 1])
                else:
                    c = rng.choice([0, 0, 3])
                cast = bool(np.can_cast(c, arr.dtype))
                out, kept, kind = impl_resize(arr, (m,), None if (off == 0 and rng.random() < 0.4) else off, mode, c, d, rng)
                term = ('{| k_m := %s; k_d := %s; k_c := %s; k_cast := %s; k_arr := %s; k_nout := %s; '
                        'k_off := %s; k_out := %s; k_kept := %s |}'
                        % (T.PMODE[mode], DIRK[d], C.q(c), C.b(cast), C.qs(arr.tolist()), C.nat(m), C.z(off), out, C.b(kept)))
                key = ((mode, d, n, m, off, c, dt.__name__, tuple(arr.tolist()))
                       if (arr.any() or out.startswith('IValueErr')) else None)
                cs.add(term, {'mode': mode, 'direction': d, 'arr': arr.tolist(), 'dtype': dt.__name__,
                              'newshp': m, 'offset': off, 'pad_const': c, 'input_kind': kind, 'input_kept': kept}, key)
    # complex dtype: real and imaginary parts are resized separately (the constant goes to the real part)
    from odl.util.numerics import resize_array
    for mode, d in itertools.product(MODES, DIRS):
        for _ in range(6 if tier == 'quick' else 40):
            n, m = rng.randint(0, nmax), rng.randint(0, mmax)
            off = rng.randint(0, abs(m - n))
            re = np.array([rng.randint(-9, 9) for _ in range(n)], dtype=float)
            im = np.array([rng.randint(-9, 9) for _ in range(n)], dtype=float)
            c = rng.choice([0, 2, -1]) if (mode == 'constant' and d == 'forward') else 0
            obj, owner, kind = wrap_input(rng, re + 1j * im)
            before = owner.tobytes()
            try:
                r = np.array(resize_array(obj, (m,), offset=off, pad_mode=mode, pad_const=c, direction=d))
                outs = ('IOk %s' % C.qs(r.real.tolist()), 'IOk %s' % C.qs(r.imag.tolist()))
            except ValueError:
                outs = ('IValueErr', 'IValueErr')
            except Exception:
                outs = ('IOtherErr', 'IOtherErr')
            kept = owner.tobytes() == before
            for part, arr, cc, o in (('re', re, c, outs[0]), ('im', im, 0, outs[1])):
                term = ('{| k_m := %s; k_d := %s; k_c := %s; k_cast := true; k_arr := %s; k_nout := %s; '
                        'k_off := %s; k_out := %s; k_kept := %s |}'
                        % (T.PMODE[mode], DIRK[d], C.q(cc), C.qs(arr.tolist()), C.nat(m), C.z(off), o, C.b(kept)))
                cs.add(term, {'mode': mode, 'direction': d, 'arr': arr.tolist(), 'dtype': 'complex/' + part,
                              'newshp': m, 'offset': off, 'pad_const': cc, 'input_kind': kind, 'input_kept': kept},
                       (mode, d, n, m, off, cc, 'complex', part, tuple(arr.tolist())) if arr.any() or o == 'IValueErr' else None)
    return cs


def _legal_off(rng, n, m):
    return rng.randint(0, abs(m - n))


def cases_nd(rng, tier):
    cs = C.CaseSet('resizeNd', ['C16.Syntax', 'Gen.Padding', 'C16.Model', 'C16.ModelNd', 'C16.Corr'],
                   'checkN', 'caseN')
    nper = 40 if tier == "quick" else 300
    for mode, d in itertools.product(MODES, DIRS):
        for k in range(nper):
            ndim = rng.choice([2, 2, 2, 3]) if k % 6 else 1
            hi = 4 if ndim == 2 else 3
            ish = [rng.randint(1 if k % 7 else 0, hi + 1) for _ in range(ndim)]
            osh = [rng.randint(1 if k % 5 else 0, hi + 2) for _ in range(ndim)]
            kind = k % 4   # 0,1,2: admissible offsets (mostly legal paddings); 3: arbitrary offsets
            offs = []
            for a in range(ndim):
                n_in, n_out = ish[a], osh[a]
                small, large = (n_in, n_out) if d == 'forward' else (n_out, n_in)
                if kind == 3:
                    offs.append(rng.randint(-1, abs(n_out - n_in) + 1))
                    continue
                # try to make the padding legal for the mode by shrinking the size change
                if large > small and kind != 2:
                    lim = {'symmetric': small - 1, 'periodic': small}.get(mode, 99)
                    lim = max(lim, 0)
                    grow = min(large - small, 2 * lim)
                    if d == 'forward':
                        osh[a] = small + grow
                    else:
                        ish[a] = small + grow
                    lo = max(0, grow - lim)
                    offs.append(rng.randint(lo, min(lim, grow)) if grow else 0)
                else:
                    offs.append(_legal_off(rng, n_in, n_out))
            dt = rng.choice([float, float, int])
            arr = np.array([rng.randint(-9, 9) for _ in range(int(np.prod(ish)))], dtype=dt).reshape(ish)
            if mode == 'constant':
                c = rng.choice([0, 0, 1, -2, 1.5]) if d == 'forward' else rng.choice([0, 0, 0, 1])
            else:
                c = 0
            cast = bool(np.can_cast(c, arr.dtype))
            out, kept, kind = impl_resize(arr, tuple(osh), offs, mode, c, d, rng)
            term = ('{| n_m := %s; n_d := %s; n_c := %s; n_cast := %s; n_ishape := %s%%nat; n_arr := %s; '
                    'n_oshape := %s%%nat; n_offs := %s%%Z; n_out := %s; n_kept := %s |}'
                    % (T.PMODE[mode], DIRK[d], C.q(c), C.b(cast), C.nats(ish), C.qs(arr.ravel().tolist()),
                       C.nats(osh), C.zs(offs), out, C.b(kept)))
            key = ((mode, d, tuple(ish), tuple(osh), tuple(offs), c, dt.__name__, tuple(arr.ravel().tolist()))
                   if (arr.any() or out.startswith('IValueErr')) else None)
            cs.add(term, {'mode': mode, 'direction': d, 'ishape': ish, 'oshape': osh, 'offset': offs,
                          'dtype': dt.__name__, 'pad_const': c, 'arr': arr.tolist(),
                          'outcome': out[:10], 'input_kind': kind, 'input_kept': kept}, key)
    # non-extended axes (kept or cropped) of length 0, 1, 2 next to extended ones: every mode, both directions
    for mode, d in itertools.product(MODES, DIRS):
        for ish, osh, offs in _nonext_configs(rng, mode, 8 if tier == 'quick' else 60):
            # offset entries for axes of unchanged size are accepted and ignored (e.g. a broadcast scalar offset)
            offs = [rng.choice([0, 1, 2, -1]) if i_ == o_ else f_ for i_, o_, f_ in zip(ish, osh, offs)]
            a, b = (ish, osh) if d == 'forward' else (osh, ish)
            arr = np.array([rng.randint(-9, 9) for _ in range(int(np.prod(a)))], dtype=float).reshape(a)
            out, kept, kind = impl_resize(arr, tuple(b), offs, mode, 0, d, rng)
            term = ('{| n_m := %s; n_d := %s; n_c := %s; n_cast := true; n_ishape := %s%%nat; n_arr := %s; '
                    'n_oshape := %s%%nat; n_offs := %s%%Z; n_out := %s; n_kept := %s |}'
                    % (T.PMODE[mode], DIRK[d], C.q(0), C.nats(a), C.qs(arr.ravel().tolist()),
                       C.nats(b), C.zs(offs), out, C.b(kept)))
            cs.add(term, {'mode': mode, 'direction': d, 'ishape': list(a), 'oshape': list(b), 'offset': offs,
                          'dtype': 'float', 'pad_const': 0, 'arr': arr.tolist(), 'outcome': out[:10],
                          'input_kind': kind, 'input_kept': kept, 'family': 'short-non-extended-axis'},
                   (mode, d, tuple(a), tuple(b), tuple(offs), 'nonext', tuple(arr.ravel().tolist())))
    return cs


def measured_adjguard():
    """Does ResizingOperator.adjoint refuse non-uniformly weighted spaces (proposed fix for
    finding adjoint-nodes-on-bdry)?"""
    import odl
    X = odl.uniform_discr(0, 1, 5, nodes_on_bdry=True)
    try:
        odl.ResizingOperator(X, ran_shp=(9,), offset=1).adjoint
        return False
    except NotImplementedError:
        return True


def _out(f):
    try:
        return 'IOk %s' % C.qs(np.asarray(f()).ravel().tolist())
    except ValueError:
        return 'IValueErr'
    except Exception:
        return 'IOtherErr'


def cases_op(rng, tier):
    import odl
    cs = C.CaseSet('resizing_op', ['C16.Syntax', 'Gen.Padding', 'C16.Model', 'C16.ModelNd', 'C16.ModelOp',
                                   'C16.Corr'], 'checkOp', 'caseOp')
    adjguard = measured_adjguard()
    nper = 30 if tier == "quick" else 200
    for mode in MODES:
        for k in range(nper * (3 if mode == 'constant' else 1)):
            ndim = rng.choice([1, 1, 2])
            dom, nnew, offs, flags, kw_flags = [], [], [], [], []
            mins, maxs, shape = [], [], []
            same_flags = k % 3 != 0
            for a in range(ndim):
                bl, br = rng.choice([(False, False), (False, False), (True, True), (True, False), (False, True)])
                n = rng.randint(2, 5)
                csz = rng.choice([0.5, 0.25, 1.0, 2.0])
                mn = rng.choice([0.0, -1.0, 0.5, 3.0])
                ext = (n - 0.5 * (bl + br)) * csz
                lim = {'symmetric': n - 1, 'periodic': n}.get(mode, 4)
                grow = k % 4 != 3
                if ndim > 1 and a > 0 and rng.random() < 0.3 or (ndim == 1 and k % 11 == 10):
                    m_ = n                                   # axis NOT resized, but an offset is given for it
                    off = rng.choice([None, 0, 1, 2, 2])
                elif grow:
                    pl, pr = rng.randint(0, min(lim, 3)), rng.randint(0, min(lim, 3))
                    m_ = n + pl + pr
                    off = rng.choice([None, pl, pl, rng.randint(0, pl + pr)])
                else:
                    m_ = rng.randint(2, n)
                    off = rng.choice([None, None, rng.randint(0, n - m_)])
                nbl, nbr = (bl, br) if same_flags else rng.choice([(False, False), (True, True), (True, False)])
                dom.append((mn, mn + ext, n, (bl, br)))
                mins.append(mn); maxs.append(mn + ext); shape.append(n)
                nnew.append(m_); offs.append(off); flags.append((bl, br)); kw_flags.append((nbl, nbr))
            # pad constants incl. values not representable in float32 / int64 (they are cast to the RANGE dtype)
            c = rng.choice([0, 1.5, -2, 0.1, 0.3, 0.5, -0.7, 0.1, 0.5]) if mode == 'constant' else rng.choice([0, 0, 0.1])
            # attributes the inferred range must inherit from the domain unless given in discr_kwargs
            dom_w = rng.choice([None, None, 2.0, 0.5, 3.0])
            dom_exp = 2.0 if dom_w is None or rng.random() < 0.8 else 1.0
            dom_dt = rng.choice(['float64', 'float64', 'float32', 'float32', 'int64'])
            kw_w = rng.choice([None, None, None, 4.0])
            kw_exp = None if rng.random() < 0.85 else 1.0
            kw_dt = None if rng.random() < 0.6 else rng.choice(['float64', 'float32'])
            if dom_dt == 'int64':
                dom_w, dom_exp = None, 2.0
                kw_dt = rng.choice([None, 'float64', 'float64'])
            dkw = {'nodes_on_bdry': kw_flags}
            if kw_w is not None:
                dkw['weighting'] = kw_w
            if kw_exp is not None:
                dkw['exponent'] = kw_exp
            if kw_dt is not None:
                dkw['dtype'] = kw_dt
            xkw = {} if dom_w is None else {'weighting': dom_w}
            try:
                X = odl.uniform_discr(mins, maxs, shape, nodes_on_bdry=flags, exponent=dom_exp, dtype=dom_dt, **xkw)
                offarg = None if all(o is None for o in offs) else [o for o in offs]
                if offarg is not None and len(set(offs)) == 1 and rng.random() < 0.5:
                    offarg = offs[0]                       # scalar offset for all axes
                op = odl.ResizingOperator(X, ran_shp=tuple(nnew), offset=offarg, pad_mode=mode, pad_const=c,
                                          discr_kwargs=dkw)
            except Exception:
                continue
            explicit = (k % 3 == 1)
            if explicit:
                # same operator through ResizingOperator(domain, range): offset from _offset_from_spaces
                try:
                    op = odl.ResizingOperator(X, op.range, pad_mode=mode, pad_const=c)
                except Exception:
                    continue
            x = np.array([rng.randint(-9, 9) for _ in range(int(np.prod(shape)))], dtype=float).reshape(shape)
            y = np.array([rng.randint(-9, 9) for _ in range(int(np.prod(nnew)))], dtype=float).reshape(nnew)
            R = op.range
            # inputs handed over as ndarrays / space elements / subclass views; compared bitwise afterwards
            xk = rng.choice(['ndarray', 'element', 'subclass'])
            xa = np.ascontiguousarray(x, dtype=X.dtype); ya = np.ascontiguousarray(y, dtype=R.dtype)
            xin = {'ndarray': xa, 'element': X.element(xa), 'subclass': xa.view(_SubArr)}[xk]
            yin = {'ndarray': ya, 'element': R.element(ya), 'subclass': ya.view(_SubArr)}[xk]
            bx, by = xa.tobytes(), ya.tobytes()
            fx = _out(lambda: op(xin))
            ay = _out(lambda: op.adjoint(yin))
            ay2 = _out(lambda: op.adjoint(yin))
            fx2 = _out(lambda: op(xin))
            inv = _out(lambda: op.inverse(op(xin)))
            kept = (xa.tobytes() == bx and ya.tobytes() == by and ay2 == ay and fx2 == fx
                    and np.array_equal(np.asarray(xin), x) and np.array_equal(np.asarray(yin), y))
            DT = {'float64': 0, 'float32': 1, 'int64': 2}
            NPDT = ['float64', 'float32', 'int64']
            with np.errstate(all='ignore'):
                ccast = [float(np.array(c, dtype=t)) for t in NPDT]                 # pad_const cast to a dtype
                cinv = [[float(np.array(np.array(c, dtype=t), dtype=u)) for u in NPDT] for t in NPDT]
            wconst = lambda sp: float(getattr(sp.weighting, 'const', float('nan')))
            inner = 'None'
            if (op.is_linear and X.is_uniformly_weighted and R.is_uniformly_weighted and X.exponent == 2.0
                    and R.exponent == 2.0 and str(X.dtype) == 'float64' and str(R.dtype) == 'float64'):
                try:
                    inner = '(Some (%s, %s))' % (C.q(float(op(X.element(x)).inner(R.element(y)))),
                                                 C.q(float(X.element(x).inner(op.adjoint(R.element(y))))))
                except Exception:
                    inner = 'None'
            oq = lambda v: 'None' if v is None else '(Some %s)' % C.q(v)
            doms = C.lst(dom, lambda d: '(%s, %s, %s%%Z, (%s, %s))' % (C.q(d[0]), C.q(d[1]), C.z(d[2]),
                                                                    C.b(d[3][0]), C.b(d[3][1])))
            term = ('{| o_adjguard := %s; o_m := %s; o_c := %s; o_ccast := %s; o_cinv := %s; o_padconst := %s; o_dom := %s; o_nnew := %s%%Z; o_off := %s; '
                    'o_flags := %s; o_rmin := %s; o_rmax := %s; o_rcs := %s; o_offset := %s%%Z; o_islinear := %s; o_axes := %s%%nat; '
                    'o_x := %s; o_fx := %s; o_y := %s; o_ay := %s; o_inv := %s; o_w := (%s, %s, %s); '
                    'o_exp := (%s, %s, %s); o_dtype := (%s, %s, %s)%%nat; o_inner := %s; o_kept := %s |}'
                    % (C.b(adjguard and not (op.domain.is_uniformly_weighted and op.range.is_uniformly_weighted)),
                       T.PMODE[mode], C.q(c), C.qs(ccast), C.qss(cinv), C.q(float(np.real(op.pad_const))), doms, C.zs(nnew),
                       C.lst(offs, lambda o: 'None' if o is None else '(Some %s%%Z)' % C.z(o)),
                       C.lst(kw_flags, lambda f: '(%s, %s)' % (C.b(f[0]), C.b(f[1]))),
                       C.qs(R.min_pt.tolist()), C.qs(R.max_pt.tolist()), C.qs(R.cell_sides.tolist()),
                       C.zs([int(o) for o in op.offset]), C.b(bool(op.is_linear)), C.nats(list(op.axes)),
                       C.qs(x.ravel().tolist()), fx, C.qs(y.ravel().tolist()), ay, inv,
                       C.q(wconst(X)), oq(kw_w), C.q(wconst(R)),
                       C.q(X.exponent), oq(kw_exp), C.q(R.exponent),
                       DT[str(X.dtype)], 'None' if kw_dt is None else '(Some %d)' % DT[kw_dt], DT[str(R.dtype)],
                       inner, C.b(kept)))
            cs.add(term, {'mode': mode, 'domain': dom, 'ran_shp': nnew, 'offset': offs, 'kw_nodes_on_bdry': kw_flags,
                          'pad_const': c, 'x': x.tolist(), 'explicit_range': explicit,
                          'domain_weighting': dom_w, 'domain_exponent': dom_exp, 'domain_dtype': dom_dt,
                          'kw_weighting': kw_w, 'kw_exponent': kw_exp, 'kw_dtype': kw_dt, 'input_kind': xk,
                          'input_kept': kept},
                   (mode, explicit, tuple(dom), tuple(nnew), tuple(offs), tuple(kw_flags), c, tuple(x.ravel().tolist())))
    return cs


def correspondence(rng, tier):
    return [cases_1d(rng, tier), cases_nd(rng, tier), cases_op(rng, tier)]


NP_MODE = {'constant': 'constant', 'periodic': 'wrap', 'symmetric': 'reflect', 'order0': 'edge'}

_REF_SRC = """
import numpy as np
def ref_resize(arr, newshp, offs, mode, c=0):
    # independent oracle: crop the shrinking axes by slicing, pad the growing axes with
    # numpy.pad (constant / wrap / reflect / edge) or, for order1, by linear extrapolation
    arr = np.asarray(arr)
    sl = tuple(slice(o, o + m) if m < n else slice(None) for n, m, o in zip(arr.shape, newshp, offs))
    a = arr[sl]
    pads = [(o, m - n - o) if m > n else (0, 0) for n, m, o in zip(arr.shape, newshp, offs)]
    if mode == 'order1':
        for ax, (pl, pr) in enumerate(pads):
            if pl == 0 and pr == 0:
                continue
            a = np.moveaxis(a, ax, 0)
            lo = [a[0] + k * (a[1] - a[0]) for k in range(-pl, 0)]
            hi = [a[-1] + k * (a[-1] - a[-2]) for k in range(1, pr + 1)]
            a = np.concatenate([np.array(lo).reshape((pl,) + a.shape[1:]), a,
                                np.array(hi).reshape((pr,) + a.shape[1:])], axis=0)
            a = np.moveaxis(a, 0, ax)
        return a
    kw = {'constant_values': c} if mode == 'constant' else {}
    return np.pad(a, pads, mode={'constant': 'constant', 'periodic': 'wrap', 'symmetric': 'reflect',
                                 'order0': 'edge'}[mode], **kw)
def matrix_out(f, ishape, oshape, order='C'):
    # matrix of a map called as f(a, out) with a caller-supplied NaN-filled `out`
    n = int(np.prod(ishape)); cols = []
    for j in range(n):
        e = np.zeros(n); e[j] = 1.0
        out = np.full(tuple(oshape), np.nan, order=order)
        f(e.reshape(ishape), out)
        cols.append(np.asarray(out).ravel())
    return np.array(cols).T.reshape(int(np.prod(oshape)), n)
def transpose_oracle(ishape, oshape, offs, mode, order='C'):
    # forward and adjoint matrices from unit vectors, through out= with garbage in it
    M = matrix_out(lambda a, o: resize_array(a, tuple(oshape), offset=list(offs), pad_mode=mode, out=o), ishape, oshape, order)
    A = matrix_out(lambda a, o: resize_array(a, tuple(ishape), offset=list(offs), pad_mode=mode, direction='adjoint', out=o),
                   oshape, ishape, order)
    M0 = matrix(lambda a: resize_array(a, tuple(oshape), offset=list(offs), pad_mode=mode), ishape, oshape)
    return M, A, M0
def op_transpose_oracle(op):
    dom, ran = op.domain, op.range
    def fwd(a, o):
        el = ran.element(o); op(dom.element(a), out=el); o[...] = np.asarray(el)
    def adj(a, o):
        el = dom.element(o); op.adjoint(ran.element(a), out=el); o[...] = np.asarray(el)
    return matrix_out(fwd, dom.shape, ran.shape), matrix_out(adj, ran.shape, dom.shape)
def range_oracle(X, op, offs):
    # cell sides kept; copied samples keep their physical position; .inverse exists and undoes op
    R = op.range
    ok = bool(np.allclose(R.cell_sides, X.cell_sides, rtol=1e-12, atol=0))
    for ax in range(X.ndim):
        n, m, o = X.shape[ax], R.shape[ax], int(op.offset[ax])
        gx, gr = X.grid.coord_vectors[ax], R.grid.coord_vectors[ax]
        if m >= n:
            ok = ok and o + n <= m and bool(np.allclose(gr[o:o + n], gx, rtol=0, atol=1e-12 * (1 + abs(gx).max())))
            ok = ok and R.min_pt[ax] <= gx[0] + 1e-12 and R.max_pt[ax] >= gx[-1] - 1e-12
        if offs is not None and offs[ax] is not None and m > n:
            ok = ok and o == offs[ax]
    inv = op.inverse
    x = X.element(np.arange(1, X.size + 1, dtype=float).reshape(X.shape))
    if all(m >= n for n, m in zip(X.shape, R.shape)):
        ok = ok and bool(np.array_equal(np.asarray(inv(op(x))), np.asarray(x)))
    return ok
def legal_axis(mode, n, m, off):
    # independent statement of which (length, new length, offset) an axis admits
    if n == m:
        return True
    if not 0 <= off <= abs(m - n):
        return False
    if m < n or mode == 'constant':
        return True
    pl, pr = off, m - n - off
    return {'periodic': pl <= n and pr <= n, 'symmetric': pl < n and pr < n,
            'order0': n >= 1, 'order1': n >= 2}[mode]
def expected_outcome(arr, newshp, offs, mode, c, direction):
    # -> ('raise', None) | ('ok', array): what the documented behaviour is for this call
    arr = np.asarray(arr); ish = arr.shape; osh = tuple(newshp)
    small, large = (ish, osh) if direction == 'forward' else (osh, ish)
    ok = all(legal_axis(mode, a, b, o) for a, b, o in zip(small, large, offs))
    grows = any(b > a for a, b in zip(ish, osh))
    if mode == 'constant' and grows and not np.can_cast(c, arr.dtype):
        ok = False
    if direction == 'adjoint' and mode == 'constant' and c != 0:
        ok = False
    if not ok:
        return 'raise', None
    if direction == 'forward':
        return 'ok', ref_resize(arr, osh, offs, mode, c)
    n = int(np.prod(osh)); cols = []        # adjoint = transpose of the reference forward matrix
    for j in range(n):
        e = np.zeros(n); e[j] = 1.0
        cols.append(np.asarray(ref_resize(e.reshape(osh), ish, offs, mode, 0)).ravel())
    M = np.array(cols).T.reshape(int(np.prod(ish)), n)
    return 'ok', (M.T @ arr.ravel().astype(float)).reshape(osh)
def case_oracle(arr, newshp, offs, mode, c, direction):
    # the call itself as a failing input: raised although legal / returned although illegal / wrong values
    kind, want = expected_outcome(arr, newshp, offs, mode, c, direction)
    try:
        got = resize_array(arr, tuple(newshp), offset=list(offs), pad_mode=mode, pad_const=c, direction=direction)
    except ValueError as e:
        return kind == 'raise', 'ValueError: %s' % e, want
    return (kind == 'ok' and got.shape == tuple(newshp) and bool(np.array_equal(got, want))), got, want
def matrix(f, ishape, oshape):
    n = int(np.prod(ishape)); cols = []
    for j in range(n):
        e = np.zeros(n); e[j] = 1.0
        cols.append(np.asarray(f(e.reshape(ishape))).ravel())
    return np.array(cols).T.reshape(int(np.prod(oshape)), n)
"""
_REF = {}
exec(_REF_SRC, _REF)


def _pads_for(mode, n):
    """(pl, pr) pairs: left only / right only / both, legal for the mode on an axis of length n"""
    lim = {'symmetric': n - 1, 'periodic': n, 'order0': 3 if n >= 1 else 0, 'order1': 3 if n >= 2 else 0,
           'constant': 3}[mode]
    out = []
    for k in (1, 2, 3):
        if k <= lim:
            out += [(k, 0), (0, k)]
    for a, b in ((1, 1), (1, 2), (2, 1), (lim, lim)):
        if 0 < a <= lim and 0 < b <= lim and (a, b) not in out:
            out.append((a, b))
    return out


def _legal_config(rng, mode, ndim, hi, allow_shrink=True):
    ish, osh, offs = [], [], []
    for _ in range(ndim):
        n = rng.randint(2, hi)
        lim = {'symmetric': n - 1, 'periodic': n}.get(mode, hi)
        kind = rng.choice(['grow', 'grow', 'shrink', 'same']) if allow_shrink else 'grow'
        if kind == 'grow':
            pl, pr = rng.randint(0, min(lim, hi)), rng.randint(0, min(lim, hi))
            ish.append(n); osh.append(n + pl + pr); offs.append(pl)
        elif kind == 'shrink':
            m = rng.randint(1, n)
            ish.append(n); osh.append(m); offs.append(rng.randint(0, n - m))
        else:
            ish.append(n); osh.append(n); offs.append(0)
    return ish, osh, offs


def _run(rp):
    env = {}
    try:
        exec(rp, env)
        return bool(env.get('ok')), env
    except Exception as e:   # a crash of the property evaluation counts as failing
        return False, {'error': repr(e)}


def probes(rng, tier):
    import odl
    from odl.util.numerics import resize_array
    out = []
    big = tier != 'quick'
    nper = 6 if not big else 30
    hi = 4 if not big else 7
    pre = "import numpy as np, odl\nfrom odl.util.numerics import resize_array\n" + _REF_SRC

    # 1. the named rule / numpy.pad equivalence, N-d, mixed grow/shrink per axis, several dtypes
    for mode in MODES:
        for k in range(nper):
            ndim = rng.choice([1, 2, 2, 3])
            ish, osh, offs = _legal_config(rng, mode, ndim, hi if ndim < 3 else 3)
            dt = rng.choice(['float', 'int', 'complex', 'float32'])
            vals = [rng.randint(-9, 9) for _ in range(int(np.prod(ish)))]
            c = rng.choice([0, 1, -2]) if mode == 'constant' else 0
            rp = pre + ("arr=np.array(%r,dtype=%r).reshape(%r)\n" % (vals, dt, ish))
            if dt == 'complex':
                rp += "arr=arr*(1+2j)\n"
            rp += ("observed=resize_array(arr,%r,offset=%r,pad_mode=%r,pad_const=%r)\n"
                   "expected=ref_resize(arr,%r,%r,%r,%r)\n"
                   "ok=bool(observed.shape==expected.shape and observed.dtype==arr.dtype and np.array_equal(observed,expected))\n"
                   % (tuple(osh), offs, mode, c, tuple(osh), offs, mode, c))
            ok, _ = _run(rp)
            what = ('resize_array %s %s->%s offset %s (%s) vs %s' %
                    (mode, ish, osh, offs, dt, 'numpy.pad(%s)' % NP_MODE[mode] if mode in NP_MODE else 'linear extrapolation'))
            out.append(C.Probe(ok, 'rule-%s-%s' % (mode, 'complex' if dt == 'complex' else 'real'), what, rp))

    # 2. forward and adjoint are transposes (full matrices), N-d incl. mixed axes
    for mode in MODES:
        for k in range(nper):
            ndim = rng.choice([1, 2, 2])
            ish, osh, offs = _legal_config(rng, mode, ndim, min(hi, 4))
            rp = pre + ("M=matrix(lambda a: resize_array(a,%r,offset=%r,pad_mode=%r),%r,%r)\n"
                        "A=matrix(lambda a: resize_array(a,%r,offset=%r,pad_mode=%r,direction='adjoint'),%r,%r)\n"
                        "observed=A.tolist(); expected=M.T.tolist(); ok=bool(np.array_equal(A,M.T))\n"
                        % (tuple(osh), offs, mode, ish, osh, tuple(ish), offs, mode, osh, ish))
            ok, _ = _run(rp)
            out.append(C.Probe(ok, 'transpose-%s' % mode,
                               'adjoint direction is the transpose of the forward matrix, %s %s->%s offset %s'
                               % (mode, ish, osh, offs), rp))

    # 3. crop after extend = identity (array level and operator level)
    for mode in MODES:
        for k in range(nper):
            ndim = rng.choice([1, 2])
            ish, osh, offs = _legal_config(rng, mode, ndim, hi, allow_shrink=False)
            vals = [rng.randint(-9, 9) for _ in range(int(np.prod(ish)))]
            rp = pre + ("x=np.array(%r,dtype=float).reshape(%r)\n"
                        "big=resize_array(x,%r,offset=%r,pad_mode=%r,pad_const=3)\n"
                        "observed=resize_array(big,%r,offset=%r,pad_mode=%r); expected=x\n"
                        "ok=bool(np.array_equal(observed,x))\n"
                        % (vals, ish, tuple(osh), offs, mode, tuple(ish), offs, rng.choice(MODES)))
            ok, _ = _run(rp)
            out.append(C.Probe(ok, 'crop-extend-%s' % mode, 'crop(extend(x)) == x, %s %s->%s offset %s'
                               % (mode, ish, osh, offs), rp))
            rp = pre + ("X=odl.uniform_discr(%r,%r,%r)\nop=odl.ResizingOperator(X,ran_shp=%r,offset=%r,pad_mode=%r)\n"
                        "x=X.element(np.array(%r,dtype=float).reshape(%r))\n"
                        "observed=np.asarray(op.inverse(op(x))); expected=np.asarray(x)\n"
                        "ok=bool(np.array_equal(observed,expected))\n"
                        % ([0.0] * ndim, [float(n) for n in ish], ish, tuple(osh), offs, mode, vals, ish))
            ok, _ = _run(rp)
            out.append(C.Probe(ok, 'op-inverse-%s' % mode, 'op.inverse(op(x)) == x for an extending operator (%s)' % mode, rp))

    # 4. illegal paddings and out-of-range offsets must be rejected
    for mode in ['symmetric', 'periodic', 'order0', 'order1']:
        for k in range(nper):
            n = rng.randint(0, hi)
            if mode == 'symmetric':
                n = max(n, 1); pl = rng.choice([n, n + 1, 0]); pr = n if pl == 0 else rng.randint(0, n)
            elif mode == 'periodic':
                pl = rng.choice([n + 1, n + 2, 0]); pr = n + 1 if pl == 0 else rng.randint(0, n)
            elif mode == 'order0':
                n = 0; pl, pr = rng.randint(0, 2), 1
            else:
                n = rng.randint(0, 1); pl, pr = rng.randint(0, 2), 1
            for direction in DIRS:
                a, b = ((n,), (n + pl + pr,)) if direction == 'forward' else ((n + pl + pr,), (n,))
                rp = pre + ("try:\n    observed=resize_array(np.zeros(%r),%r,offset=%r,pad_mode=%r,direction=%r); ok=False\n"
                            "except ValueError:\n    ok=True\n" % (a, b, pl, mode, direction))
                ok, _ = _run(rp)
                out.append(C.Probe(ok, 'illegal-padding-%s' % mode,
                                   '%s padding %d|%d|%d (%s) must raise ValueError' % (mode, pl, n, pr, direction), rp))
    for k in range(nper * 3):
        n, m = rng.randint(1, hi), rng.randint(1, hi + 2)
        if n == m:
            continue
        d = abs(m - n)
        off = rng.choice([-1, -2, d + 1, d + 2, -d - 1])
        mode = rng.choice(MODES)
        vals = [rng.randint(1, 9) for _ in range(n)]
        rp = pre + ("try:\n    observed=resize_array(np.array(%r,dtype=float),(%d,),offset=%d,pad_mode=%r); ok=False\n"
                    "except ValueError:\n    ok=True\n" % (vals, m, off, mode))
        ok, _ = _run(rp)
        out.append(C.Probe(ok, 'offset-out-of-range-accepted',
                           'offset %d outside 0..%d for %d->%d must be rejected, not silently wrapped/broadcast' % (off, d, n, m), rp))

    # 5. operator range: enlarged physical domain, unchanged cell sides; restriction = sub-interval
    for k in range(nper * 2):
        ndim = rng.choice([1, 2])
        n = [rng.randint(2, 6) for _ in range(ndim)]
        cs_ = [rng.choice([0.5, 0.25, 1.0]) for _ in range(ndim)]
        mn = [rng.choice([0.0, -1.0, 2.0]) for _ in range(ndim)]
        mx = [a + k_ * c_ for a, k_, c_ in zip(mn, n, cs_)]
        kind = ['extend', 'restrict-default', 'restrict-explicit'][k % 3]
        if kind == 'extend':
            pl = [rng.randint(0, 3) for _ in range(ndim)]; pr = [rng.randint(0, 3) for _ in range(ndim)]
            m = [a + b + c_ for a, b, c_ in zip(n, pl, pr)]
            off = pl
            exp_min = [a - p * c_ for a, p, c_ in zip(mn, pl, cs_)]
            exp_max = [a + p * c_ for a, p, c_ in zip(mx, pr, cs_)]
            ctor = "odl.ResizingOperator(X,ran_shp=%r,offset=%r)" % (tuple(m), off)
            key = 'range-extend'
        else:
            m = [rng.randint(1, a) for a in n]
            if kind == 'restrict-default':
                off = [(a - b) - (a - b) // 2 if False else -(((b - a)) - ((b - a) // 2)) for a, b in zip(n, m)]
                ctor = "odl.ResizingOperator(X,ran_shp=%r)" % (tuple(m),)
                key = 'range-restrict-default'
            else:
                off = [rng.randint(0, a - b) for a, b in zip(n, m)]
                if not any(off):
                    continue
                ctor = "odl.ResizingOperator(X,ran_shp=%r,offset=%r)" % (tuple(m), off)
                key = 'range-restrict-explicit-offset'
            exp_min = [a + o * c_ for a, o, c_ in zip(mn, off, cs_)]
            exp_max = [a + (o + b) * c_ for a, o, b, c_ in zip(mn, off, m, cs_)]
        rp = pre + ("X=odl.uniform_discr(%r,%r,%r)\nop=%s\nR=op.range\n"
                    "observed=(R.min_pt.tolist(),R.max_pt.tolist(),R.cell_sides.tolist(),list(op.offset))\n"
                    "expected=(%r,%r,X.cell_sides.tolist(),%r)\n"
                    "ok=bool(np.allclose(observed[0],expected[0]) and np.allclose(observed[1],expected[1]) "
                    "and np.allclose(observed[2],expected[2]) and [int(o) for o in observed[3]]==[o if a!=b else 0 for o,a,b in zip(expected[3],%r,%r)])\n"
                    % (mn, mx, n, ctor, exp_min, exp_max, off, n, m))
        ok, _ = _run(rp)
        out.append(C.Probe(ok, key, '%s on [%s,%s] %s: range interval / cell sides / offset' % (ctor, mn, mx, n), rp))

    # 6. adjoint identity in the weighted inner products (operator level)
    for mode in MODES:
        for k in range(nper):
            ndim = rng.choice([1, 2])
            ish, osh, offs = _legal_config(rng, mode, ndim, min(hi, 5))
            variant = ['default', 'default', 'nodes-on-bdry', 'weighting-mismatch'][k % 4]
            vx = [rng.randint(-5, 5) for _ in range(int(np.prod(ish)))]
            vy = [rng.randint(-5, 5) for _ in range(int(np.prod(osh)))]
            lo, hi_ = [0.0] * ndim, [n * 0.5 for n in ish]
            if variant == 'default':
                sp = "X=odl.uniform_discr(%r,%r,%r)\nop=odl.ResizingOperator(X,ran_shp=%r,offset=%r,pad_mode=%r)\n" % (
                    lo, hi_, ish, tuple(osh), offs, mode)
                key = 'adjoint-weighted-%s' % mode
            elif variant == 'nodes-on-bdry':
                if min(ish) < 2 or min(osh) < 2:
                    continue
                sp = ("X=odl.uniform_discr(%r,%r,%r,nodes_on_bdry=True)\n"
                      "op=odl.ResizingOperator(X,ran_shp=%r,offset=%r,pad_mode=%r,discr_kwargs={'nodes_on_bdry':True})\n"
                      % (lo, hi_, ish, tuple(osh), offs, mode))
                key = 'adjoint-nodes-on-bdry'
            else:
                sp = ("X=odl.uniform_discr(%r,%r,%r,weighting=2.0)\nop0=odl.ResizingOperator(X,ran_shp=%r,offset=%r)\n"
                      "Y=odl.uniform_discr(op0.range.min_pt,op0.range.max_pt,%r,weighting=3.0)\n"
                      "op=odl.ResizingOperator(X,Y,pad_mode=%r)\n" % (lo, hi_, ish, tuple(osh), offs, osh, mode))
                key = 'adjoint-weighting-mismatch'
            rp = pre + sp + ("x=X.element(np.array(%r,dtype=float).reshape(%r)); y=op.range.element(np.array(%r,dtype=float).reshape(%r))\n"
                             "try:\n    adj=op.adjoint\nexcept NotImplementedError:\n    adj=None   # no adjoint offered: nothing to violate\n"
                             "if adj is None:\n    ok=True\nelse:\n"
                             "    observed=float(op(x).inner(y)); expected=float(x.inner(adj(y)))\n"
                             "    ok=bool(abs(observed-expected)<=1e-9*(1+abs(expected)))\n" % (vx, ish, vy, osh))
            ok, _ = _run(rp)
            out.append(C.Probe(ok, key, '<op x, y>_range == <x, op.adjoint y>_domain (%s, %s %s->%s)' % (variant, mode, ish, osh), rp))

    # 7. an explicitly given range that does not contain the domain on the left must be rejected
    for k in range(nper):
        n = rng.randint(3, 6); sh = rng.randint(1, 2); extra = rng.randint(sh + 1, sh + 3)
        rp = pre + ("X=odl.uniform_discr(0,%r,%d)\nY=odl.uniform_discr(%r,%r,%d)\n"
                    "try:\n    op=odl.ResizingOperator(X,Y); observed=op.offset; ok=False\n"
                    "except ValueError:\n    ok=True\n" % (float(n), n, float(sh), float(n + extra), n + extra - sh))
        ok, _ = _run(rp)
        out.append(C.Probe(ok, 'offset-from-spaces-abs-sign',
                           'range [%d,%d] starts to the right of the domain [0,%d] but is larger: must be rejected' % (sh, n + extra, n), rp))

    # 8. restricted axes are reported, untouched axes are copied
    for k in range(nper):
        ish, osh, offs = _legal_config(rng, 'order0', 3, 3)
        rp = pre + ("X=odl.uniform_discr([0]*3,%r,%r)\nop=odl.ResizingOperator(X,ran_shp=%r,offset=%r,pad_mode='order0')\n"
                    "observed=op.axes; expected=tuple(i for i in range(3) if %r[i]!=%r[i]); ok=bool(observed==expected)\n"
                    % ([float(n) for n in ish], ish, tuple(osh), offs, ish, osh))
        ok, _ = _run(rp)
        out.append(C.Probe(ok, 'op-axes', 'ResizingOperator.axes lists exactly the resized axes', rp))
    # 9. derivative: zero-padding variant for constant c != 0 (affine), the operator itself otherwise
    for mode in MODES:
        for k in range(max(2, nper // 3)):
            ish, osh, offs = _legal_config(rng, mode, rng.choice([1, 2]), hi)
            c = rng.choice([1.5, -2]) if mode == 'constant' else 0
            vx = [rng.randint(-5, 5) for _ in range(int(np.prod(ish)))]
            vh = [rng.randint(-5, 5) for _ in range(int(np.prod(ish)))]
            rp = pre + ("X=odl.uniform_discr(%r,%r,%r)\nop=odl.ResizingOperator(X,ran_shp=%r,offset=%r,pad_mode=%r,pad_const=%r)\n"
                        "x=X.element(np.array(%r,dtype=float).reshape(%r)); h=X.element(np.array(%r,dtype=float).reshape(%r))\n"
                        "D=op.derivative(x)\nobserved=np.asarray(D(h)); expected=np.asarray(op(x+h))-np.asarray(op(x))\n"
                        "grows=any(a<b for a,b in zip(%r,%r))\n"
                        "ok=bool(np.array_equal(observed,expected) and D.is_linear and (op.is_linear or %r!=0) and ((D is op) == op.is_linear))\n"
                        % ([0.0] * len(ish), [float(n) for n in ish], ish, tuple(osh), offs, mode, c, vx, ish, vh, ish, ish, osh, c))
            ok, _ = _run(rp)
            out.append(C.Probe(ok, 'derivative-%s' % mode, 'derivative of ResizingOperator (%s, pad_const=%r) is the linear part' % (mode, c), rp))

    # 10. explicit range: shift by a non-multiple of the cell side / other cell side must be rejected
    for k in range(max(2, nper // 2)):
        n = rng.randint(3, 6); pl = rng.randint(1, 2); pr = rng.randint(0, 2)
        bad = ['shift', 'cell'][k % 2]
        if bad == 'shift':
            lo, hi2, m = -pl - 0.5, n + pr - 0.5, n + pl + pr
        else:
            lo, hi2, m = -pl * 1.0, (n + pr) * 1.0, 2 * (n + pl + pr)
        rp = pre + ("X=odl.uniform_discr(0,%r,%d)\nY=odl.uniform_discr(%r,%r,%d)\n"
                    "try:\n    op=odl.ResizingOperator(X,Y); observed=op.offset; ok=False\n"
                    "except ValueError:\n    ok=True\n" % (float(n), n, lo, hi2, m))
        ok, _ = _run(rp)
        out.append(C.Probe(ok, 'explicit-range-%s-rejected' % bad,
                           'explicit range with a %s mismatch must raise ValueError' % bad, rp))

    # 11. out= : previous contents (NaN) and memory order of `out` do not matter
    for mode in MODES:
        for k in range(max(2, nper // 3)):
            ish, osh, offs = _legal_config(rng, mode, 2, hi)
            vals = [rng.randint(-9, 9) for _ in range(int(np.prod(ish)))]
            order = rng.choice(['C', 'F'])
            direction = rng.choice(DIRS)
            a, b = (ish, osh) if direction == 'forward' else (osh, ish)
            vals = [rng.randint(-9, 9) for _ in range(int(np.prod(a)))]
            rp = pre + ("arr=np.array(%r,dtype=float).reshape(%r)\nout=np.full(%r,np.nan,order=%r)\n"
                        "r=resize_array(arr,%r,offset=%r,pad_mode=%r,direction=%r,out=out)\n"
                        "expected=resize_array(arr.copy(),%r,offset=%r,pad_mode=%r,direction=%r)\nobserved=out\n"
                        "ok=bool(r is out and np.array_equal(out,expected) and np.array_equal(arr,np.array(%r,dtype=float).reshape(%r)))\n"
                        % (vals, a, tuple(b), order, tuple(b), offs, mode, direction, tuple(b), offs, mode, direction, vals, a))
            ok, _ = _run(rp)
            out.append(C.Probe(ok, 'out-param-%s' % mode,
                               'resize_array(out=NaN-filled %s-order array) gives the same result and leaves the input unchanged' % order, rp))
    out += transpose_probes(rng, tier)
    out += range_flag_probes(rng, tier)
    out += input_kept_probes(rng, tier)
    out += inherit_probes(rng, tier)
    out += nonextended_probes(rng, tier)
    out += padconst_dtype_probes(rng, tier)
    out += unchanged_axis_offset_probes(rng, tier)
    out += unchanged_axis_array_probes(rng, tier)
    return out


def unchanged_axis_array_probes(rng, tier, only_mode=None):
    """Array level: an offset entry for an axis of UNCHANGED size (scalar offset broadcast to all axes, or per-axis) is
    ignored -- the axis is copied completely -- while the other axes are resized; every mode, both directions."""
    out = []
    pre = "import numpy as np, odl\nfrom odl.util.numerics import resize_array\n" + _REF_SRC
    for mode in ([only_mode] if only_mode else MODES):
        for k in range(6 if tier == 'quick' else 30):
            ndim = rng.choice([2, 2, 3])
            scalar = k % 2 == 0
            o = rng.randint(1, 2)
            ish, osh, offs = [], [], []
            unchanged = rng.randrange(ndim)
            for a in range(ndim):
                if a == unchanged or (ndim == 3 and rng.random() < 0.3):
                    n = rng.randint(2, 5); ish.append(n); osh.append(n)
                    offs.append(o if scalar else rng.choice([1, 2, 3, -1, n + 1]))
                elif rng.random() < 0.6:       # grow, left pad = o when the offset is a scalar
                    n = rng.randint(3, 4); lim = {'symmetric': n - 1, 'periodic': n}.get(mode, 3)
                    pl = o if scalar else rng.randint(0, min(lim, 2)); pr = rng.randint(0, min(lim, 2))
                    ish.append(n); osh.append(n + pl + pr); offs.append(pl)
                else:                           # crop
                    n = rng.randint(4, 5); m = rng.randint(1, n - o)
                    ish.append(n); osh.append(m); offs.append(o if scalar else rng.randint(0, n - m))
            for direction in DIRS:
                a_, b_ = (ish, osh) if direction == 'forward' else (osh, ish)
                vals = [rng.randint(-9, 9) for _ in range(int(np.prod(a_)))]
                offarg = o if scalar else offs
                rp = pre + ("arr=np.array(%r,dtype=float).reshape(%r)\n"
                            "kind,expected=expected_outcome(arr,%r,%r,%r,0,%r)\n"
                            "try:\n    observed=resize_array(arr,%r,offset=%r,pad_mode=%r,direction=%r)\n"
                            "    ok=bool(kind=='ok' and observed.shape==expected.shape and np.array_equal(observed,expected))\n"
                            "except ValueError as e:\n    observed='ValueError: %%s' %% e; ok=False\n"
                            % (vals, a_, tuple(b_), offs, mode, direction, tuple(b_), offarg, mode, direction))
                ok, _ = _run(rp)
                out.append(C.Probe(ok, 'array-unchanged-axis-offset-%s-%s' % (mode, direction),
                                   'resize_array %s %s %s->%s with offset %r: the unchanged axes are copied completely'
                                   % (mode, direction, a_, b_, offarg), rp))
    return out


def padconst_dtype_probes(rng, tier):
    """pad_const is cast to the RANGE dtype (not the domain's): domain and range of different dtypes (float32, float64,
    int64, complex), constants not representable in the narrower type, is_linear == (cast constant == 0), every mode
    constructs and applies; range dtype through discr_kwargs and through an explicit range; array level with out=."""
    out = []
    pre = "import numpy as np, odl\nfrom odl.util.numerics import resize_array\n"
    pairs = [('float32', 'float64'), ('float64', 'float32'), ('int64', 'float64'), ('float64', 'complex128'),
             ('float32', 'complex64'), ('float32', 'float32'), ('int64', 'int64')]
    consts = [0.1, 0.5, 1.0 / 3, 0, -0.7, 2]
    for dd, rd in pairs:
        for via in ('discr_kwargs', 'explicit-range'):
            for c in (consts if tier != 'quick' else rng.sample(consts, 3) + [0.5]):
                n = rng.randint(2, 4); pl, pr = rng.randint(1, 2), rng.randint(0, 2)
                vals = [rng.randint(-5, 5) for _ in range(n)]
                ctor = ("op=odl.ResizingOperator(X,ran_shp=(%d,),offset=%d,pad_const=%r,discr_kwargs={'dtype':%r})\n"
                        % (n + pl + pr, pl, c, rd)) if via == 'discr_kwargs' else \
                       ("Y=odl.uniform_discr(%r,%r,%d,dtype=%r)\nop=odl.ResizingOperator(X,Y,pad_const=%r)\n"
                        % (-float(pl), float(n + pr), n + pl + pr, rd, c))
                rp = pre + ("X=odl.uniform_discr(0,%r,%d,dtype=%r)\n%s"
                            "want=np.array(%r,dtype=op.range.dtype)\nx=X.element(np.array(%r,dtype=%r))\nr=np.asarray(op(x))\n"
                            "observed=(op.pad_const.tolist(),str(op.pad_const.dtype),bool(op.is_linear),r.tolist())\n"
                            "expected=(want.tolist(),str(op.range.dtype),bool(want==0),'x in the middle, want outside')\n"
                            "ok=bool(str(op.range.dtype)==%r and op.pad_const.dtype==op.range.dtype and op.pad_const==want "
                            "and bool(op.is_linear)==bool(want==0) and r.dtype==op.range.dtype "
                            "and np.array_equal(r[%d:%d],np.array(%r,dtype=%r).astype(r.dtype)) "
                            "and np.all(r[:%d]==want) and np.all(r[%d:]==want))\n"
                            % (float(n), n, dd, ctor, c, vals, dd, rd, pl, pl + n, vals, dd, pl, pl + n))
                ok, _ = _run(rp)
                out.append(C.Probe(ok, 'padconst-dtype-%s-to-%s' % (dd, rd),
                                   'pad_const=%r with domain dtype %s and range dtype %s (%s): stored and padded in the range dtype, '
                                   'is_linear iff the cast constant is 0' % (c, dd, rd, via), rp))
        # the other modes must construct and apply across dtypes as well (pad_const default)
        for mode in MODES[1:]:
            rp = pre + ("X=odl.uniform_discr(0,4.0,4,dtype=%r)\nop=odl.ResizingOperator(X,ran_shp=(7,),offset=2,pad_mode=%r,"
                        "discr_kwargs={'dtype':%r})\nx=np.array([1,2,3,4],dtype=%r)\nr=np.asarray(op(x))\n"
                        "expected=resize_array(x.astype(op.range.dtype),(7,),offset=2,pad_mode=%r)\nobserved=r\n"
                        "ok=bool(op.is_linear and r.dtype==op.range.dtype and np.array_equal(r,expected))\n" % (dd, mode, rd, dd, mode))
            ok, _ = _run(rp)
            out.append(C.Probe(ok, 'padconst-dtype-%s-to-%s' % (dd, rd), '%s across dtypes %s -> %s' % (mode, dd, rd), rp))
    # .inverse carries the constant: for an operator that grows in one axis and shrinks in the other the inverse pads too
    for c in (0.5, -2, 0.1):
        for dd, rd in (('float64', 'float64'), ('float32', 'float64'), ('float64', 'float32')):
            rp = pre + ("X=odl.uniform_discr([0,0],[2.0,4.0],(2,4),dtype=%r)\n"
                        "op=odl.ResizingOperator(X,ran_shp=(4,2),offset=(1,1),pad_const=%r,discr_kwargs={'dtype':%r})\ninv=op.inverse\n"
                        "want=np.array(np.array(%r,dtype=op.range.dtype),dtype=X.dtype)\n"
                        "y=op.range.element(np.arange(1.,9).reshape(4,2))\nr=np.asarray(inv(y))\n"
                        "expected=np.full((2,4),want); expected[:,1:3]=np.arange(1.,9).reshape(4,2)[1:3,:]\nobserved=r\n"
                        "ok=bool(inv.pad_const==want and inv.pad_const.dtype==X.dtype and np.array_equal(r,expected.astype(X.dtype)))\n"
                        % (dd, c, rd, c))
            ok, _ = _run(rp)
            out.append(C.Probe(ok, 'inverse-padconst', 'op.inverse pads with the operator constant (cast to its own range dtype): '
                               'pad_const=%r, %s -> %s' % (c, dd, rd), rp))
    # array level: arr and out of different dtypes
    for ad, od in [('float32', 'float64'), ('int64', 'float64'), ('float64', 'complex128')]:
        for direction in DIRS:
            c = 0.1 if direction == 'forward' else 0
            rp = pre + ("arr=np.array([1,2,3],dtype=%r); out=np.full(6,np.nan,dtype=%r)\n"
                        "r=resize_array(arr,(6,),offset=1,pad_const=%r,direction=%r,out=out)\n"
                        "expected=np.array([%r,1,2,3,%r,%r],dtype=%r); observed=out\nok=bool(r is out and np.array_equal(out,expected))\n"
                        % (ad, od, c, direction, c, c, c, od))
            ok, _ = _run(rp)
            out.append(C.Probe(ok, 'padconst-dtype-%s-to-%s' % (ad, od),
                               'resize_array(arr %s, out %s, %s): the constant is written in the dtype of out' % (ad, od, direction), rp))
    return out


def unchanged_axis_offset_probes(rng, tier):
    """An offset given for an axis that is NOT resized (scalar offset, or per-axis) must not move the range: interval
    and cell sides of that axis are the domain's, op.offset is 0 there and the array is copied along it."""
    out = []
    pre = "import numpy as np, odl\nfrom odl.util.numerics import resize_array\n" + _REF_SRC
    for k in range(8 if tier == 'quick' else 40):
        n0, n1 = rng.randint(2, 4), rng.randint(2, 4)
        grow = rng.randint(2, 4)
        cs0, cs1 = rng.choice([0.5, 1.0, 0.25]), rng.choice([0.5, 1.0, 2.0])
        mn = [rng.choice([0.0, -1.0]), rng.choice([0.0, 3.0])]
        flags = rng.choice([False, True, [(True, False), (False, True)]])
        which = k % 3      # 0: scalar offset, axis 1 unchanged; 1: per-axis offset; 2: 1-d unchanged axis with an offset
        mode = rng.choice(['constant', 'order0', 'order1'])     # legal for every padding length used here (n >= 2)
        if which == 2:
            off = rng.choice([1, 2, 3])
            rp = pre + ("X=odl.uniform_discr(%r,%r,%d,nodes_on_bdry=%r)\nop=odl.ResizingOperator(X,ran_shp=(%d,),offset=%d,pad_mode=%r,discr_kwargs={'nodes_on_bdry':%r})\n"
                        "x=X.element(np.arange(1.,%d))\nobserved=(op.range.min_pt.tolist(),op.range.max_pt.tolist(),list(op.offset))\n"
                        "expected=(X.min_pt.tolist(),X.max_pt.tolist(),[0])\n"
                        "ok=bool(op.range==X and list(op.offset)==[0] and np.array_equal(np.asarray(op(x)),np.asarray(x)))\n"
                        % (mn[0], mn[0] + (n0 if flags is not True else n0 - 1) * cs0, n0, bool(flags is True), n0, off, mode, bool(flags is True), n0 + 1))
        else:
            o0 = rng.randint(0, grow) if which == 1 else rng.randint(1, grow)
            offarg = o0 if which == 0 else (o0, rng.choice([1, 2]))
            rp = pre + ("X=odl.uniform_discr(%r,%r,%r,nodes_on_bdry=%r)\n"
                        "op=odl.ResizingOperator(X,ran_shp=(%d,%d),offset=%r,pad_mode=%r,discr_kwargs={'nodes_on_bdry':%r})\nR=op.range\n"
                        "cs=X.cell_sides\nobserved=(R.min_pt.tolist(),R.max_pt.tolist(),R.cell_sides.tolist(),list(op.offset))\n"
                        "expected=([X.min_pt[0]-%d*cs[0],X.min_pt[1]],[X.max_pt[0]+%d*cs[0],X.max_pt[1]],cs.tolist(),[%d,0])\n"
                        "x=np.arange(1.,%d).reshape(%r)\n"
                        "ok=bool(np.allclose(observed[0],expected[0]) and np.allclose(observed[1],expected[1]) and np.allclose(observed[2],expected[2]) "
                        "and [int(o) for o in op.offset]==[%d,0] and np.array_equal(np.asarray(op(x)),ref_resize(x,(%d,%d),[%d,0],%r,0)))\n"
                        % (mn, [mn[0] + n0 * cs0 - (0 if flags is False else (cs0 if flags is True else cs0 * 0.5)),
                                mn[1] + n1 * cs1 - (0 if flags is False else (cs1 if flags is True else cs1 * 0.5))],
                           [n0, n1], flags, n0 + grow, n1, offarg, mode, flags, o0, grow - o0, o0, n0 * n1 + 1, [n0, n1],
                           o0, n0 + grow, n1, o0, mode))
        ok, _ = _run(rp)
        out.append(C.Probe(ok, 'range-unchanged-axis-offset',
                           'offset given for an axis that is not resized (%s) must not move the range'
                           % ['scalar offset', 'per-axis offset', '1-d, same size'][which], rp))
    return out


def _nonext_configs(rng, mode, count):
    """forward configurations (ishape, oshape, offsets) that are LEGAL and have at least one non-extended axis of
    length 0, 1 or 2 (kept, or cropped to 0/1/2) next to extended, kept and cropped axes"""
    out = []
    while len(out) < count:
        ndim = rng.choice([1, 2, 2, 3])
        ish, osh, offs, small = [], [], [], False
        for a in range(ndim):
            kind = rng.choice(['kept-small', 'crop-small', 'extend', 'extend', 'kept', 'crop'])
            if kind == 'kept-small':
                n = rng.choice([0, 1, 1, 2]); ish.append(n); osh.append(n); offs.append(0); small = True
            elif kind == 'crop-small':
                m = rng.choice([0, 1, 1, 2]); n = m + rng.randint(1, 2)
                ish.append(n); osh.append(m); offs.append(rng.randint(0, n - m)); small = True
            elif kind == 'extend':
                n = rng.randint({'order1': 2, 'symmetric': 2, 'order0': 1, 'periodic': 1}.get(mode, 0), 3)
                lim = {'symmetric': n - 1, 'periodic': n}.get(mode, 2)
                pl, pr = rng.randint(0, min(lim, 2)), rng.randint(0, min(lim, 2))
                ish.append(n); osh.append(n + pl + pr); offs.append(pl)
            elif kind == 'kept':
                n = rng.randint(2, 3); ish.append(n); osh.append(n); offs.append(0)
            else:
                n = rng.randint(3, 4); m = rng.randint(2, n - 1)
                ish.append(n); osh.append(m); offs.append(rng.randint(0, n - m))
        if small and int(np.prod(ish)) <= 40 and int(np.prod(osh)) <= 60:
            out.append((ish, osh, offs))
    return out


def nonextended_probes(rng, tier, only_mode=None):
    """A legal resize must not raise: the size guard of a mode concerns only the axes that are extended.  Axes that
    are kept or cropped may have length 0, 1, 2 (e.g. order1 (5,1)->(9,1), (1,5)->(1,8)), every mode, both directions."""
    out = []
    pre = "import numpy as np, odl\nfrom odl.util.numerics import resize_array\n" + _REF_SRC
    fixed = [([5, 1], [9, 1], [2, 0]), ([1, 5], [1, 8], [0, 1]), ([3, 0], [5, 0], [1, 0]), ([2, 1], [4, 0], [1, 1]),
             ([1], [1], [0]), ([0], [0], [0]), ([2, 1, 3], [4, 1, 2], [1, 0, 1])]
    for mode in ([only_mode] if only_mode else MODES):
        confs = [c for c in fixed if all(_REF['legal_axis'](mode, a, b, o) for a, b, o in zip(*c))]
        confs += _nonext_configs(rng, mode, 6 if tier == 'quick' else 40)
        for ish, osh, offs in confs:
            for direction in DIRS:
                a, b = (ish, osh) if direction == 'forward' else (osh, ish)
                vals = [rng.randint(-9, 9) for _ in range(int(np.prod(a)))]
                rp = pre + ("arr=np.array(%r,dtype=float).reshape(%r)\n"
                            "ok,observed,expected=case_oracle(arr,%r,%r,%r,0,%r)\n" % (vals, a, tuple(b), offs, mode, direction))
                ok, _ = _run(rp)
                out.append(C.Probe(ok, 'legal-resize-raises-%s-%s' % (mode, direction),
                                   'legal resize with a short non-extended axis must return the padded array: %s %s %s->%s offset %s'
                                   % (mode, direction, a, b, offs), rp))
    return out


def case_probe(detail):
    """The inputs of one array-level correspondence case as a probe: the call must raise exactly when the documented
    limits say so, and otherwise return the reference values (independent oracle, no Coq model involved)."""
    if 'domain' in detail or 'mode' not in detail or 'arr' not in detail:
        return None
    arr = np.array(detail['arr'])
    if 'oshape' in detail:
        newshp, offs = tuple(detail['oshape']), list(detail['offset'])
    else:
        newshp, offs = (detail['newshp'],), [detail['offset']]
    dt = str(detail.get('dtype', 'float')).split('/')[0]
    dt = 'float' if dt == 'complex' else dt
    pre = "import numpy as np, odl\nfrom odl.util.numerics import resize_array\n" + _REF_SRC
    rp = pre + ("arr=np.array(%r,dtype=%r).reshape(%r)\nok,observed,expected=case_oracle(arr,%r,%r,%r,%r,%r)\n"
                % (arr.ravel().tolist(), dt, list(arr.shape), newshp, offs, detail['mode'], detail['pad_const'],
                   detail['direction']))
    ok, env = _run(rp)
    raised = isinstance(env.get('observed'), str)
    key = ('legal-resize-raises-%s-%s' % (detail['mode'], detail['direction'])) if (raised and not ok) \
        else 'case-%s-%s' % (detail['mode'], detail['direction'])
    return C.Probe(ok, key, 'correspondence case as failing input: resize_array %s %s %s->%s offset %s pad_const %r: %s'
                   % (detail['mode'], detail['direction'], list(arr.shape), list(newshp), offs, detail['pad_const'],
                      'implementation raised where the documented behaviour is a value' if raised else 'wrong outcome'), rp)


_WRAP_SRC = """
class _V(np.ndarray):
    pass
def wrap(a, kind):
    # -> (object handed to the library, array owning the memory)
    a = np.ascontiguousarray(a)
    if kind == 'subclass': return a.view(_V), a
    if kind == 'memoryview': return memoryview(a), a
    if kind == 'rn-element': return odl.rn(a.shape).element(a), a
    if kind == 'discr-element': return odl.uniform_discr([0]*a.ndim, [1]*a.ndim, a.shape).element(a), a
    if kind == 'strided':
        big = np.zeros(a.shape[:-1] + (2*a.shape[-1],)); v = big[..., ::2]; v[...] = a; return v, big
    if kind == 'fortran': f = np.asfortranarray(a); return f, f
    return a, a
"""


def input_kept_probes(rng, tier, only_mode=None):
    """The caller's input (any array-like sharing memory with what np.asarray returns) is bitwise unchanged by
    both directions, a second evaluation with the same object gives the same result, and the result equals the one
    for a fresh plain copy; array level and operator level."""
    out = []
    pre = "import numpy as np, odl\nfrom odl.util.numerics import resize_array\n" + _REF_SRC + _WRAP_SRC
    kinds = ['ndarray', 'subclass', 'memoryview', 'rn-element', 'discr-element', 'strided', 'fortran']
    for mode in ([only_mode] if only_mode else MODES):
        for kind in kinds:
            for direction in DIRS:
                for rep in range(1 if tier == 'quick' else 4):
                    ndim = 2 if kind == 'fortran' else rng.choice([1, 2])
                    ish, osh, offs = _legal_config(rng, mode, ndim, 4)
                    a, b = (ish, osh) if direction == 'forward' else (osh, ish)
                    vals = [rng.randint(1, 9) for _ in range(int(np.prod(a)))]
                    rp = pre + ("a0=np.array(%r,dtype=float).reshape(%r)\nobj,owner=wrap(a0.copy(),%r)\nbefore=owner.tobytes()\n"
                                "r1=np.array(resize_array(obj,%r,offset=%r,pad_mode=%r,direction=%r))\n"
                                "r2=np.array(resize_array(obj,%r,offset=%r,pad_mode=%r,direction=%r))\n"
                                "expected=resize_array(a0.copy(),%r,offset=%r,pad_mode=%r,direction=%r)\nobserved=r2\n"
                                "ok=bool(owner.tobytes()==before and np.array_equal(r1,expected) and np.array_equal(r2,expected))\n"
                                % (vals, a, kind, tuple(b), offs, mode, direction, tuple(b), offs, mode, direction,
                                   tuple(b), offs, mode, direction))
                    ok, _ = _run(rp)
                    out.append(C.Probe(ok, 'input-kept-%s-%s' % (direction, kind),
                                       'resize_array(%s, %s) leaves a %s input untouched and is repeatable (%s->%s)'
                                       % (mode, direction, kind, a, b), rp))
        # operator level: elements and subclass views as inputs of op and op.adjoint
        for kind in ('element', 'subclass', 'ndarray'):
            ish, osh, offs = _legal_config(rng, mode, rng.choice([1, 2]), 4, allow_shrink=False)
            vx = [rng.randint(1, 9) for _ in range(int(np.prod(ish)))]
            vy = [rng.randint(1, 9) for _ in range(int(np.prod(osh)))]
            rp = pre + ("X=odl.uniform_discr(%r,%r,%r)\nop=odl.ResizingOperator(X,ran_shp=%r,offset=%r,pad_mode=%r)\n"
                        "xa=np.array(%r,dtype=float).reshape(%r); ya=np.array(%r,dtype=float).reshape(%r)\n"
                        "mk=lambda sp,a: sp.element(a) if %r=='element' else (a.view(_V) if %r=='subclass' else a)\n"
                        "x=mk(X,xa); y=mk(op.range,ya); bx,by=xa.tobytes(),ya.tobytes()\n"
                        "f1=np.array(op(x)); a1=np.array(op.adjoint(y)); a2=np.array(op.adjoint(y)); f2=np.array(op(x))\n"
                        "ip1=float(op.range.element(f1).inner(op.range.element(ya))); ip2=float(X.element(xa).inner(X.element(a2)))\n"
                        "observed=(ip1,ip2); expected='equal, inputs untouched'\n"
                        "ok=bool(xa.tobytes()==bx and ya.tobytes()==by and np.array_equal(a1,a2) and np.array_equal(f1,f2) "
                        "and abs(ip1-ip2)<=1e-9*(1+abs(ip1)))\n"
                        % ([0.0] * len(ish), [float(n) for n in ish], ish, tuple(osh), offs, mode, vx, ish, vy, osh, kind, kind))
            ok, _ = _run(rp)
            out.append(C.Probe(ok, 'op-input-kept-%s' % kind,
                               'op(x), op.adjoint(y) twice: inputs (%s) untouched, results repeatable, <Rx,y>=<x,R*y> afterwards (%s)'
                               % (kind, mode), rp))
    return out


def inherit_probes(rng, tier):
    """ResizingOperator(domain, ran_shp=...) without weighting/exponent/dtype in discr_kwargs: the inferred range
    inherits them from the domain, so the adjoint identity holds in the weighted inner products also for a
    user-chosen constant weighting of the domain."""
    out = []
    pre = "import numpy as np, odl\nfrom odl.util.numerics import resize_array\n"
    for mode in MODES:
        for k in range(3 if tier == 'quick' else 12):
            ish, osh, offs = _legal_config(rng, mode, rng.choice([1, 2]), 4)
            w = rng.choice([2.0, 0.5, 3.0, 7.0])
            dt = rng.choice(['float64', 'float32', 'float64'])
            expo = 2.0 if k % 3 else rng.choice([1.0, 2.0])
            vx = [rng.randint(-5, 5) for _ in range(int(np.prod(ish)))]
            vy = [rng.randint(-5, 5) for _ in range(int(np.prod(osh)))]
            rp = pre + ("X=odl.uniform_discr(%r,%r,%r,weighting=%r,exponent=%r,dtype=%r)\n"
                        "op=odl.ResizingOperator(X,ran_shp=%r,offset=%r,pad_mode=%r)\nR=op.range\n"
                        "observed=(repr(R.weighting),R.exponent,str(R.dtype)); expected=(repr(X.weighting),X.exponent,str(X.dtype))\n"
                        "ok=bool(R.weighting==X.weighting and R.exponent==X.exponent and R.dtype==X.dtype)\n"
                        "if ok and X.exponent==2.0:\n"
                        "    x=X.element(np.array(%r,dtype=float).reshape(%r)); y=R.element(np.array(%r,dtype=float).reshape(%r))\n"
                        "    observed=float(op(x).inner(y)); expected=float(x.inner(op.adjoint(y)))\n"
                        "    ok=bool(abs(observed-expected)<=1e-5*(1+abs(expected)))\n"
                        % ([0.0] * len(ish), [n * 0.5 for n in ish], ish, w, expo, dt, tuple(osh), offs, mode, vx, ish, vy, osh))
            ok, _ = _run(rp)
            out.append(C.Probe(ok, 'range-inherits-domain-attrs-%s' % mode,
                               'range inferred from ran_shp inherits weighting=%r / exponent / dtype of the domain; '
                               '<Rx,y>_ran = <x,R*y>_dom (%s %s->%s)' % (w, mode, ish, osh), rp))
    return out


def transpose_probes(rng, tier, only_mode=None, sizes=None):
    """adjoint == exact transpose of the forward matrix built from unit vectors, through a caller-supplied
    NaN-filled `out`; array level and operator level; every mode, axis lengths 1, 2, 3, left / right / both
    paddings, shrinking, and 2-d mixed grow + shrink."""
    out = []
    pre = "import numpy as np, odl\nfrom odl.util.numerics import resize_array\n" + _REF_SRC
    sizes = sizes or ([1, 2, 3] if tier == 'quick' else [1, 2, 3, 4, 5])
    for mode in ([only_mode] if only_mode else MODES):
        confs = []
        for n in sizes:
            for pl, pr in _pads_for(mode, n):
                confs.append(([n], [n + pl + pr], [pl]))           # growing
                confs.append(([n + pl + pr], [n], [pl]))           # shrinking
        # 2-d: one axis grows while the other shrinks, and both grow
        for n in sizes[:3]:
            pads = _pads_for(mode, n)
            if not pads:
                continue
            pl, pr = rng.choice(pads)
            k = rng.randint(1, 2)
            confs.append(([n, n + k], [n + pl + pr, n], [pl, rng.randint(0, k)]))
            confs.append(([n + k, n], [n, n + pl + pr], [rng.randint(0, k), pl]))
            pl2, pr2 = rng.choice(pads)
            confs.append(([n, n], [n + pl + pr, n + pl2 + pr2], [pl, pl2]))
        for ish, osh, offs in confs:
            order = rng.choice(['C', 'F'])
            rp = pre + ("M,A,M0=transpose_oracle(%r,%r,%r,%r,%r)\nobserved=A.tolist(); expected=M.T.tolist()\n"
                        "ok=bool(np.array_equal(A,M.T) and np.array_equal(M,M0))\n" % (ish, osh, offs, mode, order))
            ok, _ = _run(rp)
            out.append(C.Probe(ok, 'transpose-out-%s' % mode,
                               'adjoint matrix == transpose of forward matrix (unit vectors, NaN-filled %s-order out), %s %s->%s offset %s'
                               % (order, mode, ish, osh, offs), rp))
            rp = pre + ("X=odl.uniform_discr(%r,%r,%r)\nop=odl.ResizingOperator(X,ran_shp=%r,offset=%r,pad_mode=%r)\n"
                        "M,A=op_transpose_oracle(op)\nobserved=A.tolist(); expected=M.T.tolist()\n"
                        "M0=matrix(lambda a: resize_array(a,%r,offset=[int(o) for o in op.offset],pad_mode=%r),%r,%r)\n"
                        "ok=bool(np.array_equal(A,M.T) and np.array_equal(M,M0))\n"
                        % ([0.0] * len(ish), [float(n) for n in ish], ish, tuple(osh),
                           [o if a <= b else None for o, a, b in zip(offs, ish, osh)] if any(a > b for a, b in zip(ish, osh)) else offs,
                           mode, tuple(osh), mode, ish, osh))
            if any(a > b for a, b in zip(ish, osh)):
                # restriction with explicit offset is a recorded finding of the range, not of the matrices: use default offsets
                rp = rp.replace("offset=%r,pad_mode" % ([o if a <= b else None for o, a, b in zip(offs, ish, osh)],),
                                "pad_mode")
            ok, _ = _run(rp)
            out.append(C.Probe(ok, 'op-transpose-out-%s' % mode,
                               'ResizingOperator.adjoint matrix == transpose of the operator matrix (out= pre-filled with NaN), %s %s->%s'
                               % (mode, ish, osh), rp))
    return out


def range_flag_probes(rng, tier, only=None):
    """range built from ran_shp + discr_kwargs nodes_on_bdry with per-side flags: same cell sides, the range
    grid continues the domain grid, the enlarged domain is covered, .inverse can be built and undoes op."""
    out = []
    pre = "import numpy as np, odl\nfrom odl.util.numerics import resize_array\n" + _REF_SRC
    F = [(False, False), (True, True), (True, False), (False, True)]
    confs = []
    for dom_f in F:
        for kw_f in F + [True, False]:
            for n, pl, pr in ((3, 1, 2), (2, 0, 1), (4, 2, 0)):
                confs.append(([n], [dom_f], [n + pl + pr], [pl], kw_f if not isinstance(kw_f, bool) else kw_f))
    # 2-d with mixed forms like [(False, True), True]
    for kw in ([(False, True), True], [True, (True, False)], [(True, False), (False, True)], [False, (True, True)]):
        for dom_f in ([(False, False), (False, False)], [(True, False), (False, True)], [(True, True), (False, False)]):
            confs.append(([3, 2], dom_f, [5, 4], [1, 2], kw))
            confs.append(([3, 4], dom_f, [6, 4], [None, 0], kw))
    if only is not None:
        confs = only
    for shape, dom_f, nnew, offs, kw in confs:
        ndim = len(shape)
        cs_ = [rng.choice([0.5, 0.25, 1.0, 2.0]) for _ in range(ndim)]
        mn = [rng.choice([0.0, -1.0, 3.0]) for _ in range(ndim)]
        mx = []
        for a in range(ndim):
            bl, br = dom_f[a]
            mx.append(mn[a] + (shape[a] - 0.5 * (bl + br)) * cs_[a])
        mode = rng.choice(MODES)
        if mode == 'symmetric' and any(m - n >= n for n, m in zip(shape, nnew)):
            mode = 'order0'
        offarg = None if all(o is None for o in offs) else offs
        rp = pre + ("X=odl.uniform_discr(%r,%r,%r,nodes_on_bdry=%r)\n"
                    "op=odl.ResizingOperator(X,ran_shp=%r,offset=%r,pad_mode=%r,discr_kwargs={'nodes_on_bdry':%r})\n"
                    "observed=(op.range.min_pt.tolist(),op.range.max_pt.tolist(),op.range.cell_sides.tolist(),list(op.offset))\n"
                    "expected='cell sides %%r, grid continued, inverse exists' %% (X.cell_sides.tolist(),)\n"
                    "ok=range_oracle(X,op,%r)\n" % (mn, mx, shape, dom_f if ndim > 1 else dom_f[0], tuple(nnew), offarg, mode,
                                                     kw if ndim > 1 or isinstance(kw, bool) else kw, offs))
        ok, _ = _run(rp)
        mixed = (not isinstance(kw, bool)) and len(set(isinstance(f, bool) for f in kw)) > 1
        out.append(C.Probe(ok, 'range-flags-mixed-form' if mixed else 'range-flags',
                           'ResizingOperator range with nodes_on_bdry %r (domain %r) %s->%s: cell sides, '
                           'grid continuation, coverage, inverse' % (kw, dom_f, shape, nnew), rp))
    return out


def search(rng, broken):
    """A proof or a correspondence shard broke and no probe failed: evaluate the property oracles on the failing
    correspondence inputs themselves, on shrunk variants and on the neighbourhood (same mode, all small sizes)."""
    C.setup_impl_path()
    known = C.load_findings(PID)
    cands = []
    for kind, what, detail in broken:
        if kind != 'correspondence' or not isinstance(detail, dict):
            continue
        cp = case_probe(detail)          # the failing case itself first
        if cp is not None:
            cands.append(cp)
        mode = detail.get('mode')
        if mode and 'domain' not in detail:
            cands += nonextended_probes(rng, 'quick', only_mode=mode)
            cands += unchanged_axis_array_probes(rng, 'quick', only_mode=mode)
        if 'domain' in detail:      # operator case
            dom = detail['domain']
            conf = ([d[2] for d in dom], [tuple(d[3]) for d in dom], list(detail['ran_shp']),
                    list(detail['offset']), [tuple(f) for f in detail['kw_nodes_on_bdry']])
            cands += range_flag_probes(rng, 'quick', only=[conf])
            cands += range_flag_probes(rng, 'quick')
            if mode:
                cands += transpose_probes(rng, 'quick', only_mode=mode)
        elif mode:
            ish = detail.get('ishape') or [len(detail.get('arr', []))]
            cands += transpose_probes(rng, 'thorough', only_mode=mode,
                                      sizes=sorted(set([1, 2, 3] + [n for n in ish if 0 < n <= 6])))
        if detail.get('input_kept') is False and mode:
            cands = input_kept_probes(rng, 'thorough', only_mode=mode) + cands
        if 'domain_weighting' in detail:
            cands += inherit_probes(rng, 'quick') + padconst_dtype_probes(rng, 'thorough') \
                + unchanged_axis_offset_probes(rng, 'thorough')
    if not cands:
        cands = (nonextended_probes(rng, 'thorough') + unchanged_axis_array_probes(rng, 'thorough')
                 + transpose_probes(rng, 'thorough')
                 + range_flag_probes(rng, 'thorough') + input_kept_probes(rng, 'quick') + inherit_probes(rng, 'quick'))
    for p in cands:
        if not p.ok and p.key not in known:
            return p
    return None


LEVEL_TEXT = ('Proof: for the slice arithmetic, legality guards, offset validation and range construction formulas '
              'regenerated from odl/util/numerics.py and odl/discr/discr_ops.py on every run, Coq proves for EVERY input '
              'length, output length (growing, shrinking, equal), offset, pad mode and all contents that the 1-d '
              'resize_array (a) computes exactly the named rule as an index formula (constant, periodic wrap, symmetric '
              'reflection without edge repeat, order0, order1), (b) rejects paddings outside the documented limits and '
              'offsets outside 0..|delta|, (c) has an adjoint direction that is the exact transpose, (d) crop after '
              'extend is the identity, (e) is linear for pad_const = 0; that the model executed at Q is the restriction '
              'of the one proved at R; for N-d arrays of any number of axes (growing in some, shrinking in others) that '
              'the composition of the 1-d maps in the code axis order satisfies (c) and (d) and that the axis order is '
              'immaterial; and for the range built by ResizingOperator: unchanged cell sides, interval enlarged by exactly '
              'the added cells (restriction: the sub-interval at the offset), offset recovered from the grids. The in-place '
              'N-d statement sequence (working slices, corners) and the operator wrapper are tied by exact in-Coq '
              'correspondence, which also checks in-place = separable on every case; that equality is validated, not proved.')
LEVEL_NOTE = ('Trusted: the translator (fail-closed, small grammar), the hand-written Python-slice semantics / NumPy 1-d '
              'broadcasting and statement sequences of _apply_padding/resize_array (validated by the correspondence on all '
              'modes x directions x lengths 0..5 x 0..7 x all offsets incl. illegal ones), exact arithmetic (rounding out '
              'of scope), dtype casting rules (np.can_cast is an input). Weighted adjoint identity holds only for uniformly '
              'weighted spaces with equal constants: two recorded open findings. Axioms: classical reals as printed.')
TECHNIQUE = 'Coq proof by list induction over source-regenerated slice arithmetic + in-Coq differential correspondence'
