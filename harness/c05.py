"""C05 adjoints: encoder of ODL operator objects into the Coq expression model,
correspondence through full matrices, probes (the property on the real objects)."""
import itertools
import warnings

import numpy as np

from . import common as C
from translate import finite_diff as TFD

PID = 'C05'
SHARD_SIZE = 40
RULE = ('(1) every modelled built-in class x space kinds (unweighted / const / array weighting, uniform_discr with and '
        'without nodes_on_bdry, 2-d, complex, product spaces with const/array weights) x options; (2) random linear '
        'expression trees built with the real Python operators (+, *, scalar and vector multiples on either side, '
        'composition, Broadcast/Reduction/Diagonal/ProductSpaceOperator) and read back from the object graph. '
        'Per case: Gram diagonals of the 4 spaces, A on a full basis (+ random vectors), A.adjoint on a full basis '
        'of its domain, A.adjoint.adjoint on the basis. A case is non-trivial when A is not the zero map; distinct by '
        '(model term, spaces)')
ASSUMPTIONS = ['exact arithmetic: entries are small integers / dyadic rationals, so float results are exact or within 1e-9',
               'every ODL space used has a diagonal Gram matrix (checked on each case: off-diagonal inner products are 0)',
               'the inner products themselves (Gram diagonals are read from the implementation) are the subject of C02',
               'finite-difference leaves reuse C13 (tables regenerated from diff_ops.py); ResizingOperator leaves reuse '
               'C16 (slice arithmetic regenerated from resize_array), in its separable form']
TRUSTED = ['harness/c05.py:encode (reads the operator object graph: class names, .left/.right/.scalar/.vector/.matrix ...)',
           'C05/Model.v eval/adjoint (hand-written; validated by the correspondence on every class/option)',
           'translate/finite_diff.py (shared with C13)', 'translate/padding.py (shared with C16)']

warnings.filterwarnings('ignore')


def translate():
    from translate import padding as TPAD
    from translate import adjoints as TADJ
    return {'Gen/FiniteDiff.v': TFD.translate(), 'Gen/Padding.v': TPAD.translate(),
            'Gen/Adjoints.v': TADJ.translate()}


# ===================================================================== spaces
class Unsupported(Exception):
    pass


def _is_field(sp):
    import odl
    return isinstance(sp, (odl.RealNumbers, odl.ComplexNumbers))


def _is_complex(sp):
    import odl
    if isinstance(sp, odl.ComplexNumbers):
        return True
    if isinstance(sp, odl.RealNumbers):
        return False
    if isinstance(sp, odl.ProductSpace):
        return any(_is_complex(s) for s in sp)
    return bool(sp.is_complex)


def units(sp):
    """Elements e_j (one per flat real/complex coordinate), C order, parts concatenated."""
    import odl
    if _is_field(sp):
        return [1.0]
    if isinstance(sp, odl.ProductSpace):
        out = []
        for i, s in enumerate(sp):
            for b in units(s):
                parts = [si.zero() for si in sp]
                parts[i] = b
                out.append(sp.element(parts))
        return out
    out = []
    for j in range(sp.size):
        e = np.zeros(sp.size, dtype=sp.dtype)
        e[j] = 1
        out.append(sp.element(e.reshape(sp.shape)))
    return out


def scal_mul(sp, el, s):
    return el * s


def basis(sp, mode):
    """Real basis of the space in the given mode ('Q': real, 'C': complex carrier, 'R2': realified)."""
    us = units(sp)
    if _is_complex(sp):
        if mode == 'C':
            return us + [u * 1j for u in us]
        return us + [u * 1j for u in us]
    return us


def cflat(el, sp):
    """flat numpy vector (complex or real) of an element"""
    import odl
    if _is_field(sp):
        return np.array([el])
    if isinstance(sp, odl.ProductSpace):
        return np.concatenate([cflat(e, s) for e, s in zip(el, sp)])
    return np.asarray(el).ravel()


def flat(el, sp, mode):
    v = cflat(el, sp)
    if mode == 'R2' and _is_complex(sp):
        import odl
        if isinstance(sp, odl.ProductSpace):
            raise Unsupported('realified product space')
        return np.concatenate([v.real, v.imag])
    if mode == 'C':
        return v.astype(complex)
    if np.iscomplexobj(v):
        assert not np.any(v.imag), 'complex value in real mode'
        v = v.real
    return v.astype(float)


def sinner(sp, a, b):
    if _is_field(sp):
        return a * np.conj(b)
    return a.inner(b)


def gram(sp, mode):
    """Gram diagonal (exactly diagonal is asserted)."""
    us = units(sp)
    d = []
    for i, u in enumerate(us):
        d.append(complex(sinner(sp, u, u)).real)
    # off-diagonal entries (cheap: dims are small)
    if len(us) <= 12:
        for i, j in itertools.combinations(range(len(us)), 2):
            assert abs(sinner(sp, us[i], us[j])) == 0, 'Gram matrix of %r is not diagonal' % sp
    d = np.array(d)
    if mode == 'R2' and _is_complex(sp):
        return np.concatenate([d, d])
    if mode == 'C':
        return d.astype(complex)
    return d


def rand_el(rng, sp):
    import odl
    if _is_field(sp):
        return float(rng.randint(-3, 3)) + (1j * rng.randint(-3, 3) if _is_complex(sp) else 0)
    if isinstance(sp, odl.ProductSpace):
        return sp.element([rand_el(rng, s) for s in sp])
    a = np.array([float(rng.randint(-4, 4)) for _ in range(sp.size)])
    if sp.is_complex:
        a = a + 1j * np.array([float(rng.randint(-4, 4)) for _ in range(sp.size)])
    return sp.element(a.reshape(sp.shape))


# =================================================================== literals
def num(x, mode):
    if mode == 'C':
        x = complex(x)
        return '(%s, %s)' % (C.q(x.real), C.q(x.imag))
    x = complex(x)
    assert x.imag == 0, 'complex literal in real mode'
    return C.q(x.real)


def vec(xs, mode):
    return C.lst(list(xs), lambda v: num(v, mode))


def vecs(xss, mode):
    return C.lst(list(xss), lambda v: vec(v, mode))


def nats(xs):
    return C.nats([int(i) for i in xs]) + '%nat'


# ==================================================================== encoder
def _pweights(P):
    w = P.weighting
    if hasattr(w, 'array'):
        return np.asarray(w.array, dtype=float)
    if hasattr(w, 'const'):
        return float(w.const) * np.ones(len(P))
    raise Unsupported('product weighting %r' % w)


def encode(op, mode):
    """Coq term of type oexpr T for an ODL operator object (fail closed)."""
    import odl
    from odl.operator import operator as O
    from odl.operator import default_ops as D
    from odl.operator import tensor_ops as TO
    from odl.operator import pspace_ops as PO
    from odl.discr import diff_ops as DO
    from odl.discr import discr_ops as DI

    def W(sp):
        return vec(gram(sp, mode), mode)

    def V(el, sp):
        return vec(flat(el, sp, mode), mode)

    def N(x):
        return num(x, mode)

    name = type(op).__name__
    t = type(op)
    if t is O.OperatorSum:
        return '(Sum %s %s)' % (encode(op.left, mode), encode(op.right, mode))
    if t is O.OperatorComp:
        return '(Comp %s %s)' % (encode(op.left, mode), encode(op.right, mode))
    if t is O.OperatorLeftScalarMult:
        return '(LScal %s %s)' % (N(op.scalar), encode(op.operator, mode))
    if t is O.OperatorRightScalarMult:
        return '(RScal %s %s)' % (encode(op.operator, mode), N(op.scalar))
    if t is O.OperatorLeftVectorMult:
        return '(LVec %s %s)' % (V(op.vector, op.range), encode(op.operator, mode))
    if t is O.OperatorRightVectorMult:
        return '(RVec %s %s)' % (encode(op.operator, mode), V(op.vector, op.domain))
    if t is O.FunctionalLeftVectorMult:
        return '(FLVec %s %s %s)' % (W(op.range), V(op.vector, op.range), encode(op.functional, mode))
    if t in (D.ScalingOperator, D.IdentityOperator):
        return '(Leaf (LScaling %s %s))' % (W(op.domain), N(op.scalar))
    if t is D.MultiplyOperator:
        m = op.multiplicand
        if _is_field(op.domain):
            return '(Leaf (LMulField %s %s))' % (W(op.range), V(m, op.range))
        if np.isscalar(m):
            m = op.domain.element(m * np.ones(op.domain.shape))
        if op.domain != op.range:
            raise Unsupported('MultiplyOperator with domain != range')
        return '(Leaf (LMultiply %s %s))' % (W(op.domain), V(m, op.domain))
    if t is D.InnerProductOperator:
        return '(Leaf (LInner %s %s))' % (W(op.domain), V(op.vector, op.domain))
    if t is D.ZeroOperator:
        return '(Leaf (LZero %s %s))' % (W(op.domain), W(op.range))
    if t is D.RealPart or t is D.ImagPart:
        if mode == 'C':
            raise Unsupported('RealPart in complex mode')
        re = t is D.RealPart
        if op.domain.is_real:
            return '(Leaf (%s %s))' % ('LRealR' if re else 'LImagR', W(op.domain))
        return '(Leaf (%s %s))' % ('LRealC' if re else 'LImagC', W(op.range))
    if t is D.ComplexEmbedding:
        if mode == 'C':
            raise Unsupported('ComplexEmbedding in complex mode')
        s = complex(op.scalar)
        rw = vec(gram(op.domain.real_space, 'Q'), 'Q')
        if op.domain.is_real:
            return '(Leaf (LEmbedR %s %s %s))' % (rw, C.q(s.real), C.q(s.imag))
        return '(Leaf (LEmbedC %s %s %s))' % (rw, C.q(s.real), C.q(s.imag))
    if t is TO.MatrixOperator:
        import scipy.sparse
        M = op.matrix.toarray() if scipy.sparse.isspmatrix(op.matrix) else np.asarray(op.matrix)
        if op.domain.ndim != 1:
            return '(Leaf (LMatrixAx %s %s %s %d%%nat %s))' % (W(op.domain), W(op.range), nats(op.domain.shape),
                                                             op.axis, vecs(M.tolist(), mode))
        return '(Leaf (LMatrix %s %s %s))' % (W(op.domain), W(op.range), vecs(M.tolist(), mode))
    if t is TO.SamplingOperator:
        cv = getattr(op.domain, 'cell_volume', 1.0)
        return '(Leaf (LSampling %s %s %s %s))' % (W(op.domain), nats(op._indices_flat),
                                                    C.b(op.variant == 'integrate'), N(cv))
    if t is TO.WeightedSumSamplingOperator:
        cv = getattr(op.range, 'cell_volume', 1.0)
        return '(Leaf (LWSum %s %s %s %s))' % (W(op.range), nats(op._indices_flat), C.b(op.variant == 'dirac'), N(cv))
    if t is TO.FlatteningOperator:
        perm = np.arange(op.domain.size).reshape(op.domain.shape).ravel(order=op.order)
        return '(Leaf (LFlatten %s %s %s))' % (W(op.domain), nats(perm), N(getattr(op.domain, 'cell_volume', 1.0)))
    if name == 'FlatteningOperatorInverse':
        f = op.inverse
        perm = np.arange(f.domain.size).reshape(f.domain.shape).ravel(order=f.order)
        return '(Leaf (LUnflatten %s %s %s))' % (W(op.range), nats(perm), N(getattr(f.domain, 'cell_volume', 1.0)))
    if t in (PO.ComponentProjection, PO.ComponentProjectionAdjoint):
        P = op.domain if t is PO.ComponentProjection else op.range
        if not isinstance(op.index, (int, np.integer)):
            raise Unsupported('ComponentProjection with non-integer index')
        ws = C.lst([W(s) for s in P])
        return '(Leaf (%s %s %s %d%%nat))' % ('LProj' if t is PO.ComponentProjection else 'LProjAdj',
                                              ws, vec(_pweights(P), mode), int(op.index))
    if t in (TO.PointwiseInner, TO.PointwiseInnerAdjoint, TO.PointwiseSum):
        adj = t is TO.PointwiseInnerAdjoint
        P = op.range if adj else op.domain
        g = C.lst([V(gi, P[0]) for gi in op.vecfield])
        return '(Leaf (%s %s %s %s %s))' % ('LPtInnerAdj' if adj else 'LPtInner', W(P[0]), vec(_pweights(P), mode),
                                            g, vec(op.weights, mode))
    if t in (DO.PartialDerivative, DO.Gradient, DO.Divergence, DO.Laplacian):
        if not op.is_linear:
            raise Unsupported('affine finite difference')
        base = op.domain if t is not DO.Divergence else op.range
        shape = nats(base.shape)
        dxs = vec(base.cell_sides, mode)
        if t is DO.PartialDerivative:
            return '(Leaf (LPDeriv %s %s %s %d%%nat %s %s %s))' % (
                W(op.domain), W(op.range), shape, op.axis, TFD.METH[op.method], TFD.PMODE[op.pad_mode],
                N(base.cell_sides[op.axis]))
        if t is DO.Laplacian:
            return '(Leaf (LLap %s %s %s %s %s))' % (W(op.domain), W(op.range), shape, TFD.PMODE[op.pad_mode], dxs)
        return '(Leaf (%s %s %s %s %s %s %s))' % ('LGrad' if t is DO.Gradient else 'LDiv', W(op.domain), W(op.range),
                                                  shape, TFD.METH[op.method], TFD.PMODE[op.pad_mode], dxs)
    if t is DI.ResizingOperator or name == 'ResizingOperatorAdjoint':
        from translate import padding as TPAD
        fwd = t is DI.ResizingOperator
        if fwd:
            rop = op
        else:
            rop = op.adjoint                      # the ResizingOperator it was built from
        if not rop.is_linear:
            raise Unsupported('affine ResizingOperator')
        return '(Leaf (%s %s %s C16.Syntax.%s %s %s %s))' % (
            'LResize' if fwd else 'LResizeAdj', W(op.domain), W(op.range), TPAD.PMODE[rop.pad_mode],
            nats(rop.domain.shape), nats(rop.range.shape), C.zs([int(o) for o in rop.offset]) + '%Z')
    if t is PO.BroadcastOperator:
        return '(Bcast %s)' % C.lst([encode(o, mode) for o in op.operators])
    if t is PO.ReductionOperator:
        return '(Reduce %s)' % C.lst([encode(o, mode) for o in op.operators])
    if t is PO.DiagonalOperator:
        return '(Diag %s)' % C.lst([encode(o, mode) for o in op.operators])
    if t is PO.ProductSpaceOperator:
        rows = []
        for i in range(len(op.range)):
            row = []
            for j in range(len(op.domain)):
                e = op[i, j]
                if isinstance(e, odl.Operator):
                    row.append(encode(e, mode))
                else:
                    row.append('(Leaf (LZero %s %s))' % (W(op.domain[j]), W(op.range[i])))
            rows.append('(Reduce %s)' % C.lst(row))
        return '(Bcast %s)' % C.lst(rows)
    raise Unsupported('no model for %s' % name)


# ============================================================ running a case
def _mode_of(op):
    d, r = _is_complex(op.domain), _is_complex(op.range)
    if d and r:
        return 'C'
    if not d and not r:
        return 'Q'
    return 'R2'


def mode_of(op):
    """carrier of a case: 'R2' (realified) as soon as a real<->complex operator occurs anywhere"""
    from odl.operator import default_ops as D
    seen = set()

    def walk(o):
        if isinstance(o, (D.RealPart, D.ImagPart, D.ComplexEmbedding)):
            seen.add('R2')
        seen.add(_mode_of(o))
        for a in ('left', 'right', 'operator', 'functional'):
            s = getattr(o, a, None)
            if s is not None and hasattr(s, 'domain'):
                walk(s)
        for s in getattr(o, 'operators', ()) or ():
            walk(s)
    walk(op)
    if 'R2' in seen:
        return 'R2'
    if 'C' in seen and 'Q' in seen:
        return 'R2'
    return 'C' if 'C' in seen else 'Q'


def verdict(op, adj=None, tol=1e-9):
    """The property on the real objects over full bases.  Returns (holds, spaces_ok, maxdefect, witness)."""
    adj = op.adjoint if adj is None else adj
    spaces_ok = (adj.domain == op.range and adj.range == op.domain)
    # real part whenever a real<->complex operator occurs anywhere in the expression: such an operator is
    # only real-linear (also when composed back into a complex->complex map), and the real-part pairing is
    # the only sense in which it has an adjoint (C = R^2)
    mixed = (_is_complex(op.domain) != _is_complex(op.range)) or mode_of(op) == 'R2'
    worst, wit = 0.0, None
    for i, x in enumerate(basis(op.domain, 'R2')):
        ax = op(x)
        for j, y in enumerate(basis(op.range, 'R2')):
            l = complex(sinner(op.range, ax, y))
            r = complex(sinner(op.domain, x, adj(y)))
            d = abs(l.real - r.real) if mixed else abs(l - r)
            if d > worst:
                worst, wit = d, (i, j, l, r)
    return (spaces_ok and worst <= tol), spaces_ok, worst, wit


def make_case(rng, op, nrand=1):
    """Coq term of a case for operator op, or raises Unsupported."""
    mode = mode_of(op)
    term = encode(op, mode)
    try:
        adj = op.adjoint
    except Exception as e:
        raise Unsupported('adjoint raised %s' % type(e).__name__)
    xs = basis(op.domain, mode) + [rand_el(rng, op.domain) for _ in range(nrand)]
    ys = basis(adj.domain, mode) + [rand_el(rng, adj.domain) for _ in range(nrand)]
    Ax = [flat(op(x), op.range, mode) for x in xs]
    By = [flat(adj(y), adj.range, mode) for y in ys]
    try:
        aa = adj.adjoint
        xs2 = [aa.domain.element(x) if aa.domain != op.domain else x for x in xs]
        BBx = 'Some %s' % vecs([flat(aa(x), aa.range, mode) for x in xs2], mode)
        fx2 = [flat(x, aa.domain, mode) for x in xs2]
        aa_raised = False
    except (AttributeError, NotImplementedError, TypeError) as e:
        BBx = 'None'
        fx2 = []
        aa_raised = True
    holds, spaces_ok, worst, _ = verdict(op, adj)
    fx = [flat(x, op.domain, mode) for x in xs]
    fy = [flat(y, adj.domain, mode) for y in ys]
    coq = ('{| c_e := %s; c_dom := %s; c_ran := %s; c_adom := %s; c_aran := %s; c_xs := %s; c_Ax := %s; '
           'c_ys := %s; c_By := %s; c_xs2 := %s; c_BBx := %s; c_holds := %s |}'
           % (term, vec(gram(op.domain, mode), mode), vec(gram(op.range, mode), mode),
              vec(gram(adj.domain, mode), mode), vec(gram(adj.range, mode), mode),
              vecs(fx, mode), vecs(Ax, mode), vecs(fy, mode), vecs(By, mode), vecs(fx2, mode), BBx, C.b(holds)))
    nontriv = any(np.any(a != 0) for a in Ax)
    info = {'mode': mode, 'holds': holds, 'spaces_ok': spaces_ok, 'defect': worst, 'aa_raised': aa_raised,
            'nontrivial': nontriv}
    return mode, coq, info


# ============================================================== case sources
def space_pool(rng, n, cplx=False, kinds=None):
    """named constructors of 1-d spaces of size n"""
    import odl
    dt = complex if cplx else float
    wa = [float(rng.choice([1, 2, 3, 4, 0.5])) for _ in range(n)]
    dx = rng.choice([0.5, 1.0, 2.0, 0.25])
    pool = {
        'unweighted': lambda: odl.tensor_space(n, dtype=dt),
        'const': lambda: odl.tensor_space(n, dtype=dt, weighting=float(rng.choice([2.0, 0.5, 4.0]))),
        'array': lambda: odl.tensor_space(n, dtype=dt, weighting=wa),
        'discr': lambda: odl.uniform_discr(0, n * dx, n, dtype=dt),
    }
    if n >= 2:
        pool['discr_bdry'] = lambda: odl.uniform_discr(0, (n - 1) * dx, n, dtype=dt, nodes_on_bdry=True)
        pool['discr_bdry_l'] = lambda: odl.uniform_discr(0, (n - 0.5) * dx, n, dtype=dt, nodes_on_bdry=(True, False))
    if kinds:
        pool = {k: v for k, v in pool.items() if k in kinds}
    return pool


def rvec(rng, sp, lo=-3, hi=3, nonzero=False):
    a = np.array([float(rng.randint(lo, hi)) for _ in range(sp.size)])
    if nonzero:
        a[a == 0] = 1.0
    if sp.is_complex:
        a = a + 1j * np.array([float(rng.randint(lo, hi)) for _ in range(sp.size)])
    return sp.element(a.reshape(sp.shape))


def rscalar(rng, cplx):
    s = float(rng.choice([-2, -1, 2, 3, 0.5, -0.5]))
    if cplx:
        s = s + 1j * float(rng.choice([-2, -1, 0, 1, 2]))
    return s


def builtin_ops(rng, tier):
    """yield (class key, space kind, operator)"""
    import odl
    reps = 1 if tier == 'quick' else 3
    for _ in range(reps):
        for cplx in (False, True):
            n = rng.randint(1, 4)
            for kind, mk in space_pool(rng, n, cplx).items():
                sp = mk()
                ck = ('complex-' if cplx else '') + kind
                yield 'ScalingOperator', ck, odl.ScalingOperator(sp, rscalar(rng, cplx))
                yield 'IdentityOperator', ck, odl.IdentityOperator(sp)
                yield 'MultiplyOperator', ck, odl.MultiplyOperator(rvec(rng, sp))
                yield 'InnerProductOperator', ck, odl.InnerProductOperator(rvec(rng, sp))
                yield 'MultiplyOperator-field', ck, odl.MultiplyOperator(rvec(rng, sp), domain=sp.field)
                yield 'ZeroOperator', ck, odl.ZeroOperator(sp)
                m = rng.randint(1, 4)
                M = np.array([[float(rng.randint(-3, 3)) for _ in range(n)] for _ in range(m)])
                if cplx:
                    M = M + 1j * np.array([[float(rng.randint(-2, 2)) for _ in range(n)] for _ in range(m)])
                if kind in ('unweighted', 'const', 'array'):
                    yield 'MatrixOperator', ck, odl.MatrixOperator(M, domain=sp)
                    ran = space_pool(rng, m, cplx)[rng.choice(['unweighted', 'const', 'array'])]()
                    yield 'MatrixOperator', ck + '->other', odl.MatrixOperator(M, domain=sp, range=ran)
                    yield 'ZeroOperator', ck + '->other', odl.ZeroOperator(sp, ran)
                idx = [rng.randrange(n) for _ in range(rng.randint(1, 4))]
                if not cplx:
                    for variant in ('point_eval', 'integrate'):
                        yield 'SamplingOperator-' + variant, ck, odl.SamplingOperator(sp, idx, variant)
                    for variant in ('dirac', 'char_fun'):
                        yield 'WeightedSumSamplingOperator-' + variant, ck, odl.WeightedSumSamplingOperator(sp, idx, variant)
                yield 'FlatteningOperator', ck, odl.FlatteningOperator(sp)
                yield 'FlatteningOperatorInverse', ck, odl.FlatteningOperator(sp).inverse
        # 2-d spaces: flattening orders, sampling with multi-indices
        for kind in ('unweighted', 'const', 'discr', 'discr_bdry'):
            shape = (rng.randint(1, 3), rng.randint(2, 3))
            if kind == 'unweighted':
                sp = odl.rn(shape)
            elif kind == 'const':
                sp = odl.rn(shape, weighting=2.0)
            elif kind == 'discr':
                sp = odl.uniform_discr([0, 0], [shape[0] * 0.5, shape[1] * 2.0], shape)
            else:
                if shape[0] < 2:
                    shape = (2, shape[1])
                sp = odl.uniform_discr([0, 0], [(shape[0] - 1) * 0.5, (shape[1] - 1) * 2.0], shape, nodes_on_bdry=True)
            for order in ('C', 'F'):
                yield 'FlatteningOperator-' + order, '2d-' + kind, odl.FlatteningOperator(sp, order=order)
                yield 'FlatteningOperatorInverse-' + order, '2d-' + kind, odl.FlatteningOperator(sp, order=order).inverse
            k = rng.randint(1, 3)
            pts = [[rng.randrange(shape[0]) for _ in range(k)], [rng.randrange(shape[1]) for _ in range(k)]]
            yield 'SamplingOperator-point_eval', '2d-' + kind, odl.SamplingOperator(sp, pts)
            yield 'SamplingOperator-integrate', '2d-' + kind, odl.SamplingOperator(sp, pts, 'integrate')
            yield 'WeightedSumSamplingOperator-dirac', '2d-' + kind, odl.WeightedSumSamplingOperator(sp, pts, 'dirac')
        # N-d MatrixOperator along an axis, sparse matrices
        import scipy.sparse
        for kind in ('unweighted', 'const', 'complex-unweighted'):
            shp = (rng.randint(1, 3), rng.randint(2, 3), rng.randint(1, 2))[:rng.choice([2, 3])]
            dt = complex if kind.startswith('complex') else float
            sp = odl.tensor_space(shp, dtype=dt) if 'unweighted' in kind else odl.tensor_space(shp, dtype=dt, weighting=2.0)
            for ax in range(len(shp)):
                M = np.array([[float(rng.randint(-2, 2)) for _ in range(shp[ax])] for _ in range(rng.randint(1, 3))])
                if dt is complex:
                    M = M + 1j * np.array([[float(rng.randint(-1, 1)) for _ in range(shp[ax])] for _ in range(M.shape[0])])
                yield 'MatrixOperator-axis%d' % ax, '%dd-' % len(shp) + kind, odl.MatrixOperator(M, domain=sp, axis=ax)
        Ms = scipy.sparse.coo_matrix(np.array([[1.0, 0, 2], [0, -1, 0]]))
        yield 'MatrixOperator-sparse', 'unweighted', odl.MatrixOperator(Ms)
        yield 'MatrixOperator-sparse', 'array', odl.MatrixOperator(Ms, domain=odl.rn(3, weighting=[1, 2, 3]),
                                                                     range=odl.rn(2, weighting=[1, 2]))
        # product spaces
        for cplx in (False, True):
            for pk in ('none', 'const', 'array'):
                n1, n2 = rng.randint(1, 3), rng.randint(1, 3)
                pool1, pool2 = space_pool(rng, n1, cplx), space_pool(rng, n2, cplx)
                s1 = pool1[rng.choice(sorted(pool1))]()
                s2 = pool2[rng.choice(sorted(pool2))]()
                kw = {} if pk == 'none' else ({'weighting': 2.0} if pk == 'const' else {'weighting': [2.0, 3.0]})
                P = odl.ProductSpace(s1, s2, **kw)
                ck = ('complex-' if cplx else '') + 'pspace-' + pk
                for i in (0, 1):
                    yield 'ComponentProjection', ck, odl.ComponentProjection(P, i)
                    yield 'ComponentProjectionAdjoint', ck, odl.operator.pspace_ops.ComponentProjectionAdjoint(P, i)
                # power spaces for the pointwise operators
                k = rng.randint(1, 3)
                kw = {} if pk == 'none' else ({'weighting': 2.0} if pk == 'const' else
                                              {'weighting': [float(rng.choice([1, 2, 4])) for _ in range(k)]})
                VF = odl.ProductSpace(s1, k, **kw)
                g = [rvec(rng, s1) for _ in range(k)]
                for wgt in (None, 2.0, [float(rng.choice([1, 2, 4])) for _ in range(k)]):
                    wk = 'default' if wgt is None else ('const' if np.isscalar(wgt) else 'array')
                    yield 'PointwiseInner-w' + wk, ck, odl.PointwiseInner(VF, g, weighting=wgt)
                    yield 'PointwiseInnerAdjoint-w' + wk, ck, odl.operator.tensor_ops.PointwiseInnerAdjoint(s1, g, vfspace=VF, weighting=wgt)
                yield 'PointwiseSum', ck, odl.PointwiseSum(VF)
        # finite differences (C13 model) on uniform and nodes_on_bdry discretisations
        for kind in ('discr', 'discr_bdry'):
            for m in TFD.METH:
                pms = list(TFD.PMODE) if tier != 'quick' else rng.sample(list(TFD.PMODE), 4)
                for p in pms:
                    ndim = rng.choice([1, 1, 2])
                    lo = 3 if p.startswith('order2') else 2
                    shape = [rng.randint(lo, 4 if ndim == 1 else 3) for _ in range(ndim)]
                    dxs = [rng.choice([1.0, 0.5, 2.0]) for _ in range(ndim)]
                    if kind == 'discr':
                        sp = odl.uniform_discr([0.0] * ndim, [n_ * d for n_, d in zip(shape, dxs)], shape)
                    else:
                        sp = odl.uniform_discr([0.0] * ndim, [(n_ - 1) * d for n_, d in zip(shape, dxs)], shape,
                                               nodes_on_bdry=True)
                    yield 'PartialDerivative', kind + '-' + m + '-' + p, odl.PartialDerivative(
                        sp, rng.randrange(ndim), method=m, pad_mode=p)
                    yield 'Gradient', kind + '-' + m + '-' + p, odl.Gradient(sp, method=m, pad_mode=p)
                    yield 'Divergence', kind + '-' + m + '-' + p, odl.Divergence(range=sp, method=m, pad_mode=p)
                    if p in ('constant', 'symmetric', 'symmetric_adjoint', 'periodic', 'order0', 'order0_adjoint') \
                            and m == 'forward':
                        yield 'Laplacian', kind + '-' + p, odl.Laplacian(sp, pad_mode=p)
                    if kind == 'discr' and rng.random() < 0.5:
                        n_ = rng.randint(lo, 4)
                        csp = odl.uniform_discr(0, n_ * dxs[0], n_, dtype=complex)
                        yield 'PartialDerivative', 'complex-discr-' + m + '-' + p, odl.PartialDerivative(
                            csp, 0, method=m, pad_mode=p)
                        yield 'Gradient', 'complex-discr-' + m + '-' + p, odl.Gradient(csp, method=m, pad_mode=p)
        # real <-> complex
        for kind in ('unweighted', 'const', 'array', 'discr', 'discr_bdry'):
            n = rng.randint(2, 3)
            rs = space_pool(rng, n, False)[kind]()
            cs = rs.complex_space
            yield 'RealPart-real', kind, odl.RealPart(rs)
            yield 'ImagPart-real', kind, odl.ImagPart(rs)
            yield 'RealPart-complex', kind, odl.RealPart(cs)
            yield 'ImagPart-complex', kind, odl.ImagPart(cs)
            for s in (2.0, 3j, 1 - 2j):
                sk = 'real' if s.imag == 0 else ('imag' if s.real == 0 else 'general')
                yield 'ComplexEmbedding-real-' + sk, kind, odl.ComplexEmbedding(rs, s)
                yield 'ComplexEmbedding-complex-' + sk, kind, odl.ComplexEmbedding(cs, s)


def _leaf_pool(rng, spaces, cplx):
    """random linear leaf between two spaces of the pool (or on one)"""
    import odl
    def leaf(dom, ran):
        ch = rng.randrange(6)
        if dom is ran and ch == 0:
            return odl.ScalingOperator(dom, rscalar(rng, cplx))
        if dom is ran and ch == 1:
            return odl.MultiplyOperator(rvec(rng, dom))
        if dom is ran and ch == 2 and isinstance(dom, odl.DiscretizedSpace) and dom.size >= 2:
            return odl.PartialDerivative(dom, 0, method=rng.choice(list(TFD.METH)),
                                         pad_mode=rng.choice(['constant', 'symmetric', 'periodic', 'order0']))
        if dom is ran and ch == 3:
            return odl.IdentityOperator(dom)
        M = np.array([[float(rng.randint(-2, 2)) for _ in range(dom.size)] for _ in range(ran.size)])
        if cplx:
            M = M + 1j * np.array([[float(rng.randint(-1, 1)) for _ in range(dom.size)] for _ in range(ran.size)])
        td = odl.tensor_space(dom.size, dtype=dom.dtype, weighting=2.0)
        # matrix leaves live on tensor spaces; discretised spaces get them through flattening-free casting
        if isinstance(dom, odl.DiscretizedSpace) or isinstance(ran, odl.DiscretizedSpace):
            return odl.ZeroOperator(dom, ran) if rng.random() < 0.3 else _outer(rng, dom, ran)
        return odl.MatrixOperator(M, domain=dom, range=ran)
    return leaf


def _outer(rng, dom, ran):
    """rank-one operator x -> <x, u> v, built from library pieces (works between any two spaces)"""
    import odl
    u, v = rvec(rng, dom), rvec(rng, ran)
    return v * odl.InnerProductOperator(u)


def random_tree(rng, spaces, cplx, depth):
    """random linear operator expression dom -> ran over the given spaces, built with the Python operators"""
    import odl
    leaf = _leaf_pool(rng, spaces, cplx)

    def build(dom, ran, d):
        if d == 0 or rng.random() < 0.15:
            return leaf(dom, ran)
        ch = rng.randrange(9)
        if ch == 0:
            return build(dom, ran, d - 1) + build(dom, ran, d - 1)
        if ch == 1:
            mid = rng.choice(spaces)
            return build(mid, ran, d - 1) * build(dom, mid, d - 1)
        if ch == 2:
            return rscalar(rng, cplx) * build(dom, ran, d - 1)
        if ch == 3:
            return build(dom, ran, d - 1) * rscalar(rng, cplx)
        if ch == 4:
            return rvec(rng, ran) * build(dom, ran, d - 1)
        if ch == 5:
            return build(dom, ran, d - 1) * rvec(rng, dom)
        if ch == 6:
            from odl.operator.operator import OperatorRightScalarMult
            return OperatorRightScalarMult(build(dom, ran, d - 1), rscalar(rng, cplx))
        if ch == 7:
            return build(dom, ran, d - 1) - build(dom, ran, d - 1)
        return -build(dom, ran, d - 1)
    dom, ran = rng.choice(spaces), rng.choice(spaces)
    top = rng.randrange(5)
    if top == 0:
        k = rng.randint(1, 3)
        return odl.BroadcastOperator(*[build(dom, rng.choice(spaces), depth - 1) for _ in range(k)])
    if top == 1:
        k = rng.randint(1, 3)
        return odl.ReductionOperator(*[build(rng.choice(spaces), ran, depth - 1) for _ in range(k)])
    if top == 2 and depth >= 2:
        k = rng.randint(1, 3)
        return odl.DiagonalOperator(*[build(rng.choice(spaces), rng.choice(spaces), depth - 1) for _ in range(k)])
    if top == 3 and depth >= 2:
        doms = [rng.choice(spaces) for _ in range(rng.randint(1, 2))]
        rans = [rng.choice(spaces) for _ in range(rng.randint(1, 2))]
        rows = [[(build(dj, ri, depth - 2) if rng.random() < 0.7 else None) for dj in doms] for ri in rans]
        for i in range(len(rans)):
            if all(r is None for r in rows[i]):
                rows[i][0] = build(doms[0], rans[i], 0)
        for j in range(len(doms)):
            if all(rows[i][j] is None for i in range(len(rans))):
                rows[0][j] = build(doms[j], rans[0], 0)
        A = odl.ProductSpaceOperator(rows)
        if rng.random() < 0.5:
            B = odl.ReductionOperator(*[build(ri, ran, 0) for ri in rans])
            return B * A
        return A
    return build(dom, ran, depth)


def tree_spaces(rng, cplx, uniform):
    """pool of 1-d spaces for trees. uniform=True: only spaces on which every modelled leaf satisfies the property"""
    import odl
    dt = complex if cplx else float
    out = []
    for _ in range(3):
        n = rng.randint(1, 3)
        kinds = ['unweighted', 'const2', 'discr'] if uniform else ['unweighted', 'const', 'array', 'discr', 'discr_bdry']
        k = rng.choice(kinds)
        if k == 'unweighted':
            out.append(odl.tensor_space(n, dtype=dt))
        elif k == 'const2':
            out.append(odl.tensor_space(n, dtype=dt, weighting=2.0))
        elif k == 'const':
            out.append(odl.tensor_space(n, dtype=dt, weighting=float(rng.choice([2.0, 0.5]))))
        elif k == 'array':
            out.append(odl.tensor_space(n, dtype=dt, weighting=[float(rng.choice([1, 2, 4])) for _ in range(n)]))
        elif k == 'discr':
            out.append(odl.uniform_discr(0, n * 0.5, n, dtype=dt))
        else:
            n = max(n, 2)
            out.append(odl.uniform_discr(0, (n - 1) * 0.5, n, dtype=dt, nodes_on_bdry=True))
    return out


def correspondence(rng, tier):
    csQ = C.CaseSet('real', ['C13.Syntax', 'Gen.FiniteDiff', 'C05.Model', 'C05.Corr'], 'checkQ', '@case Q')
    csC = C.CaseSet('complex', ['C13.Syntax', 'Gen.FiniteDiff', 'C05.Model', 'C05.Corr'], 'checkC', '@case (Q * Q)')
    csT = C.CaseSet('trees_real', ['C13.Syntax', 'Gen.FiniteDiff', 'C05.Model', 'C05.Corr'], 'checkQ', '@case Q')
    csTC = C.CaseSet('trees_complex', ['C13.Syntax', 'Gen.FiniteDiff', 'C05.Model', 'C05.Corr'], 'checkC',
                     '@case (Q * Q)')
    global LAST_STATS
    stats = {}
    for cls, kind, op in builtin_ops(rng, tier):
        mode, coq, info = make_case(rng, op)
        cs = csC if mode == 'C' else csQ
        desc = {'class': cls, 'space': kind, 'mode': mode, 'holds': info['holds'], 'op': repr(op)[:200]}
        cs.add(coq, desc, (cls, kind, C.digest(coq)) if info['nontrivial'] else None)
        st = stats.setdefault(cls, [0, 0])
        st[0] += 1
        st[1] += 0 if info['holds'] else 1
    # classes that entered the model later (ResizingOperator ...): whatever the encoder accepts
    for cls, kind, op in extra_ops(rng, tier):
        try:
            mode, coq, info = make_case(rng, op)
        except Unsupported:
            continue
        cs = csC if mode == 'C' else csQ
        cs.add(coq, {'class': cls, 'space': kind, 'mode': mode, 'holds': info['holds'], 'op': repr(op)[:200]},
               (cls, kind, C.digest(coq)) if info['nontrivial'] else None)
    ntree = 60 if tier == 'quick' else 400
    for i in range(ntree):
        cplx = (i % 3 == 2)
        spaces = tree_spaces(rng, cplx, uniform=(i % 2 == 0))
        depth = rng.randint(1, 3 if tier == 'quick' else 5)
        op = random_tree(rng, spaces, cplx, depth)
        mode, coq, info = make_case(rng, op, nrand=1)
        cs = csTC if mode == 'C' else csT
        cs.add(coq, {'tree': repr(op)[:300], 'mode': mode, 'holds': info['holds']},
               ('tree', C.digest(coq)) if info['nontrivial'] else None)
    # real/complex mixed trees (realified carrier)
    import odl
    nmix = 10 if tier == 'quick' else 60
    for i in range(nmix):
        n = rng.randint(1, 3)
        rs = space_pool(rng, n, False)[rng.choice(['unweighted', 'const', 'discr'])]()
        cs_ = rs.complex_space
        s = complex(rng.choice([2.0, 1j, 1 + 2j, -1 - 1j]))
        E = odl.ComplexEmbedding(rs, s)
        parts = [odl.RealPart(cs_), odl.ImagPart(cs_)]
        a, b = float(rng.randint(-2, 2)), float(rng.randint(1, 3))
        op = rng.choice([
            lambda: (a * parts[0] + b * parts[1]) * E,
            lambda: E * odl.MultiplyOperator(rvec(rng, rs)) * parts[i % 2],
            lambda: parts[i % 2] * odl.ComplexEmbedding(cs_, s) * E,
            lambda: odl.BroadcastOperator(parts[0], parts[1]),
            lambda: odl.ReductionOperator(E, b * E),
        ])()
        mode, coq, info = make_case(rng, op)
        csT.add(coq, {'tree': repr(op)[:300], 'mode': mode, 'holds': info['holds']},
                ('mixed', C.digest(coq)) if info['nontrivial'] else None)
    LAST_STATS = stats
    return [csQ, csC, csT, csTC]


LAST_STATS = {}


# ===================================================================== probes
def _const(v):
    v = np.asarray(v, dtype=float)
    return v.size == 0 or bool(np.all(v == v.flat[0]))


def finding_keys(op):
    """Keys of the recorded findings whose precondition is met by some node of the operator graph
    (the exact complement of the preconditions of the *_partial theorems in C05/Props.v)."""
    import odl
    from odl.operator import default_ops as D
    from odl.operator import tensor_ops as TO
    from odl.operator import pspace_ops as PO
    from odl.discr import diff_ops as DO
    from odl.discr import discr_ops as DI
    keys = set()

    def walk(o):
        t = type(o)
        name = t.__name__
        if t is TO.MatrixOperator:
            wd, wr = gram(o.domain, 'Q'), gram(o.range, 'Q')
            if not (_const(wd) and _const(wr) and (wd.size == 0 or wr.size == 0 or wd.flat[0] == wr.flat[0])):
                keys.add('matrix-adjoint-nonuniform-weight')
        elif t in (TO.SamplingOperator, TO.WeightedSumSamplingOperator):
            sp = o.domain if t is TO.SamplingOperator else o.range
            if not np.all(gram(sp, 'Q') == getattr(sp, 'cell_volume', 1.0)):
                keys.add('sampling-adjoint-nonuniform-weight')
        elif t is TO.FlatteningOperator or name == 'FlatteningOperatorInverse':
            sp = o.domain if t is TO.FlatteningOperator else o.range
            if not np.all(gram(sp, 'Q') == getattr(sp, 'cell_volume', 1.0)):
                keys.add('flattening-adjoint-nonuniform-weight')
        elif t in (PO.ComponentProjection, PO.ComponentProjectionAdjoint):
            P = o.domain if t is PO.ComponentProjection else o.range
            if isinstance(o.index, (int, np.integer)) and _pweights(P)[o.index] != 1:
                keys.add('component-projection-adjoint-weighted-pspace')
        elif t in (DO.PartialDerivative, DO.Gradient, DO.Divergence, DO.Laplacian):
            base = o.range if t is DO.Divergence else o.domain
            if not _const(gram(base, 'Q')):
                keys.add('finite-difference-adjoint-nodes-on-bdry')
        elif t is DI.ResizingOperator or name == 'ResizingOperatorAdjoint':
            wd, wr = gram(o.domain, 'Q'), gram(o.range, 'Q')
            if not (_const(wd) and _const(wr)):
                keys.add('resizing-adjoint-nodes-on-bdry')
        for a in ('left', 'right', 'operator', 'functional'):
            sub = getattr(o, a, None)
            if sub is not None and hasattr(sub, 'domain'):
                walk(sub)
        for sub in getattr(o, 'operators', ()) or ():
            walk(sub)
        if t is PO.ProductSpaceOperator:
            for sub in o.ops.data:
                walk(sub)
    walk(op)
    return keys


def check_property(op):
    """(ok, clause, detail): the property C05 on one operator object, by full bases."""
    try:
        adj = op.adjoint
    except Exception as e:
        return False, 'adjoint-raises', '%s: %s' % (type(e).__name__, str(e)[:120])
    if not (adj.domain == op.range and adj.range == op.domain):
        return False, 'spaces', 'adjoint maps %r -> %r, expected %r -> %r' % (adj.domain, adj.range, op.range, op.domain)
    holds, _, worst, wit = verdict(op, adj, tol=0.0)
    scale = 1.0
    if wit is not None:
        scale = max(1.0, abs(wit[2]), abs(wit[3]))
    if worst > 1e-9 * scale:
        return False, 'identity', 'max |<Ax,y> - <x,A*y>| = %g at basis pair %r' % (worst, wit)
    try:
        aa = adj.adjoint
    except Exception as e:
        return False, 'double-adjoint-raises', '%s: %s' % (type(e).__name__, str(e)[:120])
    for x in basis(op.domain, 'R2'):
        a, b = cflat(op(x), op.range), cflat(aa(aa.domain.element(x) if aa.domain != op.domain else x), aa.range)
        if a.shape != b.shape or np.max(np.abs(a - b), initial=0.0) > 1e-9 * max(1.0, np.max(np.abs(a), initial=0.0)):
            return False, 'double-adjoint', 'A.adjoint.adjoint(x) != A(x)'
    return True, None, None


def extra_ops(rng, tier):
    """classes/options that are NOT in the Coq model: probed only"""
    import odl
    import scipy.sparse
    reps = 1 if tier == 'quick' else 3
    for _ in range(reps):
        for bdry in (False, True):
            for pm in ('constant', 'symmetric', 'periodic', 'order0', 'order1'):
                n = rng.randint(3, 5)
                dx = rng.choice([0.5, 1.0, 2.0])
                sp = (odl.uniform_discr(0, (n - 1) * dx, n, nodes_on_bdry=True) if bdry
                      else odl.uniform_discr(0, n * dx, n))
                k = n + rng.randint(1, 2) if rng.random() < 0.6 else n - 1
                kw = {'discr_kwargs': {'nodes_on_bdry': True}} if bdry else {}
                yield 'ResizingOperator-' + pm, 'discr_bdry' if bdry else 'discr', \
                    odl.ResizingOperator(sp, ran_shp=(k,), pad_mode=pm, **kw)
        sp2 = odl.uniform_discr([0, 0], [1, 2], (2, 3))
        yield 'ResizingOperator-constant', '2d-discr', odl.ResizingOperator(sp2, ran_shp=(3, 5))
        yield 'ResizingOperator-adjoint', '2d-discr', odl.ResizingOperator(sp2, ran_shp=(3, 5)).adjoint
        for kind in ('unweighted', 'const'):
            shp = (rng.randint(2, 3), rng.randint(2, 3))
            sp = odl.rn(shp) if kind == 'unweighted' else odl.rn(shp, weighting=2.0)
            for ax in (0, 1):
                M = np.array([[float(rng.randint(-2, 2)) for _ in range(shp[ax])] for _ in range(rng.randint(1, 3))])
                yield 'MatrixOperator-axis%d' % ax, '2d-' + kind, odl.MatrixOperator(M, domain=sp, axis=ax)
        M = scipy.sparse.coo_matrix(np.array([[1.0, 0, 2], [0, -1, 0]]))
        yield 'MatrixOperator-sparse', 'unweighted', odl.MatrixOperator(M)
        yield 'MatrixOperator-sparse', 'const', odl.MatrixOperator(M, domain=odl.rn(3, weighting=2.0))
        yield 'MatrixOperator-sparse', 'array', odl.MatrixOperator(M, domain=odl.rn(3, weighting=[1, 2, 3]),
                                                                     range=odl.rn(2, weighting=[1, 2]))
        # power-space projections with slices / lists are not modelled
        P = odl.ProductSpace(odl.rn(2), 3)
        yield 'ComponentProjection-slice', 'pspace-none', odl.ComponentProjection(P, slice(0, 2))
        yield 'ComponentProjection-list', 'pspace-none', odl.ComponentProjection(P, [0, 2])
        # complex sampling is unsupported by np.bincount in the adjoint: see probes
        yield 'IdentityOperator-field', 'field', odl.IdentityOperator(odl.RealNumbers())
        yield 'ScalingOperator-field', 'field', odl.ScalingOperator(odl.ComplexNumbers(), 1 + 2j)
        yield 'InnerProductOperator-pspace', 'pspace-array', odl.InnerProductOperator(
            rand_el(rng, odl.ProductSpace(odl.rn(2), odl.rn(3, weighting=2.0), weighting=[2.0, 3.0])))
        yield 'MultiplyOperator-pspace', 'pspace-array', odl.MultiplyOperator(
            rand_el(rng, odl.ProductSpace(odl.rn(2), odl.rn(3, weighting=2.0), weighting=[2.0, 3.0])))
        # derivatives of the complex modulus: real-linear C^n -> R^n with a hand-written adjoint
        for kind in ('unweighted', 'const', 'array', 'discr', 'discr_bdry'):
            n = rng.randint(2, 3)
            csp = space_pool(rng, n, True)[kind]()
            x0 = csp.element([rng.choice([3 + 4j, -4 + 3j, 5 - 12j, 8 + 6j]) for _ in range(n)])
            yield 'ComplexModulus.derivative', 'complex-' + kind, odl.ComplexModulus(csp).derivative(x0)
            yield 'ComplexModulusSquared.derivative', 'complex-' + kind, odl.ComplexModulusSquared(csp).derivative(x0)
            yield 'ComplexModulus.derivative.adjoint', 'complex-' + kind, odl.ComplexModulus(csp).derivative(x0).adjoint
        try:
            from odl.trafos import DiscreteFourierTransform
            yield 'DiscreteFourierTransform', 'complex-unweighted', DiscreteFourierTransform(odl.cn(rng.randint(2, 5)))
            yield 'DiscreteFourierTransform-real', 'unweighted', DiscreteFourierTransform(odl.rn(rng.randint(2, 5)),
                                                                                         halfcomplex=False)
        except Exception:
            pass


def probe_ops(rng, tier):
    for it in builtin_ops(rng, tier):
        yield it
    for it in extra_ops(rng, tier):
        yield it
    ntree = 40 if tier == 'quick' else 250
    for i in range(ntree):
        cplx = (i % 3 == 2)
        uniform = (i % 2 == 0)
        spaces = tree_spaces(rng, cplx, uniform=uniform)
        depth = rng.randint(1, 4 if tier == 'quick' else 6)
        yield 'tree', ('complex-' if cplx else '') + ('uniform' if uniform else 'mixed-weights'), \
            random_tree(rng, spaces, cplx, depth)


def nth_probe_op(seed, tier, k):
    import random
    for i, (cls, kind, op) in enumerate(probe_ops(random.Random(seed), tier)):
        if i == k:
            return op
    raise IndexError(k)


def probes(rng, tier):
    import odl
    seed = rng.getrandbits(48)
    import random
    out = []
    for k, (cls, kind, op) in enumerate(probe_ops(random.Random(seed), tier)):
        ok, clause, detail = check_property(op)
        expected = sorted(finding_keys(op))
        if ok:
            key = 'adjoint-%s-%s' % (cls, kind)
        elif clause == 'identity' and expected:
            key = expected[0]
        else:
            key = 'adjoint-%s-%s-%s' % (cls, kind, clause)
        rp = ("import sys\nsys.path.insert(0, %r)\nfrom harness import c05\nop = c05.nth_probe_op(%d, %r, %d)\n"
              "print(repr(op)[:400])\nok, clause, observed = c05.check_property(op)\n"
              "expected = 'adjoint identity, swapped spaces, A.adjoint.adjoint = A'\n" % (C.VERIF, seed, tier, k))
        out.append(C.Probe(ok, key, '%s on %s: %s' % (cls, kind, repr(op)[:160]), rp, {'clause': clause, 'detail': detail}))
    # fixed finding innerproduct-complex-double-adjoint-raises (/repo a344936): must hold now
    A = odl.MultiplyOperator(odl.cn(2).element([1 + 2j, 3j]), domain=odl.ComplexNumbers())
    ok, clause, detail = check_property(A)
    out.append(C.Probe(ok, 'adjoint-MultiplyOperator-field-complex',
                       'MultiplyOperator(complex vector, domain=ComplexNumbers())',
                       "import sys\nsys.path.insert(0, %r)\nfrom harness import c05\nimport odl\n"
                       "A=odl.MultiplyOperator(odl.cn(2).element([1+2j,3j]), domain=odl.ComplexNumbers())\n"
                       "ok, clause, observed = c05.check_property(A)\n" % C.VERIF, {'clause': clause, 'detail': detail}))
    return out


LEVEL_TEXT = ('Proof: Coq proves, over an abstract commutative ring with involution instantiated at R and at C = R*R, that for '
              'EVERY operator expression tree (sum, composition, scalar multiples on either side, vector multiples on either '
              'side, functional-times-vector, Broadcast/Reduction/Diagonal blocks; any depth and width) the expression the '
              'library returns as .adjoint (mirrored incl. Python operator dispatch and scalar merging) maps range to '
              'domain and satisfies <Ax,y>_ran = <x,A*y>_dom in the weighted inner products whenever the leaves do, that the '
              'returned adjoint is again such a tree, and that A.adjoint.adjoint acts like A. Leaf theorems for all '
              'sizes/shapes/index lists: Scaling, Multiply, InnerProduct, field-Multiply, Zero, PointwiseInner(+Adjoint), '
              'RealPart/ImagPart/ComplexEmbedding (any weights); Matrix (1-d and along an axis of any N-d shape), Sampling, '
              'WeightedSumSampling, Flattening(+inverse), ComponentProjection(+Adjoint), PartialDerivative/Gradient/'
              'Divergence/Laplacian for every shape and all method/padding pairs (lifting C13), ResizingOperator for all 5 pad '
              'modes (lifting C16) under the exact weighting precondition -- and the full statements are REFUTED by '
              'witnesses on non-uniformly weighted spaces (6 open findings; 2 fixed in /repo). Preconditions of the Matrix '
              'and Sampling theorems are proved necessary. The model is tied to the code by an in-Coq correspondence on '
              'full bases (structure, spaces, forward, adjoint, double adjoint, identity verdict).')
LEVEL_NOTE = ('Validated, not proved: the code-order adjoint of ResizingOperator when several axes are resized at once '
              '(proved for the reversed axis order and for <= 1 resized axis), sparse matrices (same model as dense), '
              'ComponentProjection with slice/list index, operators on product-space elements, ComplexModulus derivatives, '
              'DFT (probes only). Trusted: the encoder reading the operator object graph, exact-arithmetic idealisation '
              '(dyadic inputs), Gram diagonals read from the implementation (C02), translators of C13/C16. The generic '
              'theorems are closed under the global context; instances at R use the classical-reals axioms printed.')
TECHNIQUE = 'Coq proof by structural induction over a deep embedding of operator arithmetic (abstract ring with involution) + in-Coq differential correspondence via full matrices'
