"""C11 optimised solvers vs references, exact resumption, callbacks: correspondence + probes."""
import numpy as np

from . import common as C
from translate import solvers as TS

PID = 'C11'
SHARD_SIZE = 60
IMPORTS = ['Base.Vec', 'C11.Model', 'C11.Corr']


def translate():
    return {'Gen/Solvers.v': TS.translate(), 'Gen/SolversL.v': TS.translate_l()}


# ---------------------------------------------------------------- generators
def _vec(rng, n, lo=-3, hi=3, half=True):
    return [rng.randint(lo, hi) + (0.5 if half and rng.random() < 0.3 else 0.0) for _ in range(n)]


def _mat(rng, m, n, lo=-2, hi=2):
    return [[float(rng.randint(lo, hi)) for _ in range(n)] for _ in range(m)]


def _dy(rng, choices=(0.125, 0.25, 0.5, 1.0)):
    return rng.choice(list(choices))


class F(object):
    """A functional of the modelled family: Coq term + odl constructor."""

    def __init__(self, kind, coq, build, desc, spec=None):
        self.kind, self.coq, self.build, self.desc = kind, coq, build, desc
        self.spec = spec        # the same functional in the plain-data format of the probes (_pf)


def _fk(rng, n, role, allow_trans=True):
    """role: 'prox' | 'cc' | 'grad'.  n = dimension of the space."""
    import odl
    S = odl.solvers
    if role == 'grad':
        kinds = ['l2sq', 'l2sq', 'zero', 'quad', 'trans']
    else:
        kinds = ['zero', 'l1', 'l1', 'l2sq', 'box', 'nonneg', 'trans', 'trans']
    k = rng.choice(kinds)
    if k == 'trans' and not allow_trans:
        k = 'l2sq'
    if k == 'zero':
        return F(k, 'FZero', lambda sp: S.ZeroFunctional(sp), 'Zero', ['zero'])
    if k == 'l1':
        lam = rng.choice([0.5, 1.0, 2.0])
        if lam == 1.0:
            return F(k, '(FL1 1)', lambda sp: S.L1Norm(sp), 'L1', ['l1'])
        return F(k, '(FL1 %s)' % C.q(lam), lambda sp: lam * S.L1Norm(sp), '%g*L1' % lam, ['scaled', lam, ['l1']])
    if k == 'l2sq':
        lam = rng.choice([0.5, 1.0, 2.0, 0.25])
        if lam == 1.0:
            return F(k, '(FL2sq 1)', lambda sp: S.L2NormSquared(sp), 'L2sq', ['l2sq'])
        return F(k, '(FL2sq %s)' % C.q(lam), lambda sp: lam * S.L2NormSquared(sp), '%g*L2sq' % lam,
                 ['scaled', lam, ['l2sq']])
    if k == 'box':
        lo = float(rng.randint(-2, 0))
        hi = lo + rng.choice([0.5, 1.0, 2.0, 3.0])
        return F(k, '(FBox %s %s)' % (C.q(lo), C.q(hi)), lambda sp: S.IndicatorBox(sp, lo, hi), 'Box[%g,%g]' % (lo, hi),
                 ['box', lo, hi])
    if k == 'nonneg':
        return F(k, 'FNonneg', lambda sp: S.IndicatorNonnegativity(sp), 'Nonneg', ['nonneg'])
    if k == 'quad':
        mm = rng.randint(1, 3)
        M = _mat(rng, mm, n)
        bb = _vec(rng, mm)
        return F(k, '(FQuad %d %s %s)' % (n, C.qss(M), C.qs(bb)),
                 lambda sp: S.L2NormSquared(odl.rn(mm)).translated(bb) * odl.MatrixOperator(np.array(M), domain=sp, range=odl.rn(mm)),
                 'L2sq(M.-b) %dx%d' % (mm, n), ['l2sqdata', M, bb])
    # translated
    inner = _fk(rng, n, role, allow_trans=False)
    while inner.kind == 'quad':
        inner = _fk(rng, n, role, allow_trans=False)
    c = _vec(rng, n, -2, 2)
    return F('trans', '(FTrans %s %s)' % (inner.coq, C.qs(c)), lambda sp: inner.build(sp).translated(c),
             '%s.translated' % inner.desc, ['trans', c, inner.spec])


def _rec():
    tr = []
    return tr, (lambda x: tr.append(np.asarray(x).tolist()))


def _rn(n):
    import odl
    return odl.rn(n)


def _mop(M, n):
    import odl
    return odl.MatrixOperator(np.array(M, dtype=float).reshape(len(M), n), domain=odl.rn(n), range=odl.rn(len(M)))


def _oqs(v):
    return 'None' if v is None else '(Some %s)' % C.qs(v)


def _sizes(rng, tier):
    nmax = 3 if tier == 'quick' else 4
    return rng.randint(1, nmax), rng.randint(1, nmax)


def _niter(rng, tier, k):
    """iteration counts: 0, 1, 2 early, then up to 8 (quick) / 20 (thorough)"""
    if k < 3:
        return k
    return rng.randint(2, 8 if tier == 'quick' else 20)


# ------------------------------------------------------------- per solver
def gen_fk(rng, tier, cs):
    n_cases = 60 if tier == 'quick' else 400
    for k in range(n_cases):
        n = rng.randint(1, 4)
        role = rng.choice(['prox', 'cc', 'grad'])
        f = _fk(rng, n, role)
        sp = _rn(n)
        func = f.build(sp)
        s = _dy(rng, (0.25, 0.5, 1.0, 2.0))
        x = _vec(rng, n, -4, 4)
        prox = cc = grad = None
        if f.kind != 'quad' and role != 'grad':
            prox = np.asarray(func.proximal(s)(sp.element(x))).tolist()
            cc = np.asarray(func.convex_conj.proximal(s)(sp.element(x))).tolist()
        if role == 'grad':
            grad = np.asarray(func.gradient(sp.element(x))).tolist()
        cs.add('{| kf_f := %s; kf_s := %s; kf_x := %s; kf_prox := %s; kf_cc := %s; kf_grad := %s |}'
               % (f.coq, C.q(s), C.qs(x), _oqs(prox), _oqs(cc), _oqs(grad)),
               {'solver': 'functional-family', 'f': f.desc, 'sigma': s, 'x': x}, ('fk', f.coq, s, tuple(x)))


def gen_admm(rng, tier, cs):
    from odl.solvers.nonsmooth.admm import admm_linearized, admm_linearized_simple
    for k in range(24 if tier == 'quick' else 160):
        n, m = _sizes(rng, tier)
        M = _mat(rng, m, n)
        f, g = _fk(rng, n, 'prox'), _fk(rng, m, 'prox')
        tau, sigma = _dy(rng), _dy(rng, (0.5, 1.0, 2.0, 4.0))
        x0 = _vec(rng, n)
        N = _niter(rng, tier, k)
        L = _mop(M, n)
        fo, go = f.build(L.domain), g.build(L.range)
        t1, c1 = _rec()
        x = L.domain.element(x0)
        admm_linearized(x, fo, go, L, tau, sigma, N, callback=c1)
        t2, c2 = _rec()
        x = L.domain.element(x0)
        admm_linearized_simple(x, fo, go, L, tau, sigma, N, callback=c2)
        cs.add('{| ka_nc := %d; ka_M := %s; ka_f := %s; ka_g := %s; ka_tau := %s; ka_sigma := %s; ka_x := %s; '
               'ka_n := %d; ka_opt := %s; ka_ref := %s |}'
               % (n, C.qss(M), f.coq, g.coq, C.q(tau), C.q(sigma), C.qs(x0), N, C.qss(t1), C.qss(t2)),
               {'solver': 'admm_linearized', 'M': M, 'f': f.desc, 'g': g.desc, 'tau': tau, 'sigma': sigma,
                'x0': x0, 'niter': N,
                'probe': {'kind': 'admm-vs-simple', 'op': ['rn', M], 'f': f.spec, 'g': g.spec, 'tau': tau,
                          'sigma': sigma, 'x0': x0, 'niter': N}},
               ('admm', n, m, f.coq, g.coq, tau, sigma, N, tuple(x0)) if N > 0 else None)


def gen_adup(rng, tier, cs):
    from odl.solvers.nonsmooth.alternating_dual_updates import adupdates, adupdates_simple
    for k in range(20 if tier == 'quick' else 140):
        n, _ = _sizes(rng, tier)
        nops = rng.choice([1, 2, 2, 3]) if k else 0
        ms = [rng.randint(1, 3) for _ in range(nops)]
        if nops >= 2 and rng.random() < 0.6:
            ms[1] = ms[0]            # equal ranges share one temporary
        Ms = [_mat(rng, m, n) for m in ms]
        gs = [_fk(rng, m, 'cc') for m in ms]
        inner = [_dy(rng) for _ in ms]
        # array-valued inner step sizes (np.isscalar false) for some operators
        innerv = [[_dy(rng) for _ in range(m)] if rng.random() < 0.3 else None for m in ms]
        step = _dy(rng, (0.5, 1.0, 2.0))
        x0 = _vec(rng, n)
        N = _niter(rng, tier, k % 5) if k % 5 else rng.randint(1, 4)
        if nops == 0:
            continue    # len(g) == 0: L[0] raises IndexError in the optimised version only; not a loop property
        keys = [ms.index(m) for m in ms]
        Ls = [_mop(M, n) for M in Ms]
        go = [g.build(Li.range) for g, Li in zip(gs, Ls)]
        dom = _rn(n)
        t1, c1 = _rec()
        x = dom.element(x0)
        inner_arg = [iv if iv is not None else i for i, iv in zip(inner, innerv)]
        adupdates(x, go, Ls, step, inner_arg, N, callback=c1)
        t2, c2 = _rec()
        x = dom.element(x0)
        adupdates(x, go, Ls, step, inner_arg, N, callback=c2, callback_loop='inner')
        ref = []
        for j in range(1, N + 1):
            x = dom.element(x0)
            adupdates_simple(x, go, Ls, step, inner_arg, j)
            ref.append(np.asarray(x).tolist())
        cs.add('{| kd_nc := %d; kd_Ms := %s; kd_gs := %s; kd_inner := %s; kd_inner_v := %s; kd_keys := %s; kd_step := %s; kd_x := %s; '
               'kd_n := %d; kd_outer := %s; kd_inner_tr := %s; kd_ref := %s |}'
               % (n, C.lst(Ms, C.qss), C.lst([g.coq for g in gs]), C.qs(inner), C.lst(innerv, _oqs), C.nats(keys) + '%nat', C.q(step),
                  C.qs(x0), N, C.qss(t1), C.qss(t2), C.qss(ref)),
               {'solver': 'adupdates', 'Ms': Ms, 'g': [g.desc for g in gs], 'inner': inner_arg, 'stepsize': step,
                'x0': x0, 'niter': N,
                'probe': {'kind': 'adupdates-vs-simple', 'ops': [['rn', M] for M in Ms], 'gs': [g.spec for g in gs],
                          'inner': [['array', iv] if iv is not None else i for i, iv in zip(inner, innerv)],
                          'stepsize': step, 'x0': x0, 'niter': N}},
               ('adup', n, tuple(ms), tuple(g.coq for g in gs), step, str(inner_arg), N, tuple(x0)) if N > 0 else None)


def gen_dpdc(rng, tier, cs):
    from odl.solvers.nonsmooth.difference_convex import doubleprox_dc, doubleprox_dc_simple
    for k in range(20 if tier == 'quick' else 140):
        n, m = _sizes(rng, tier)
        M = _mat(rng, m, n)
        f, g, phi = _fk(rng, n, 'prox'), _fk(rng, m, 'cc'), _fk(rng, n, 'grad')
        gamma, mu = _dy(rng), _dy(rng)
        x0, y0 = _vec(rng, n), _vec(rng, m)
        N = _niter(rng, tier, k)
        K = _mop(M, n)
        fo, go, po = f.build(K.domain), g.build(K.range), phi.build(K.domain)
        t1, c1 = _rec()
        x, y = K.domain.element(x0), K.range.element(y0)
        doubleprox_dc(x, y, fo, po, go, K, N, gamma, mu, callback=c1)
        yfin = np.asarray(y).tolist()
        refx, refy = [], []
        for j in range(1, N + 1):
            x, y = K.domain.element(x0), K.range.element(y0)
            doubleprox_dc_simple(x, y, fo, po, go, K, j, gamma, mu)
            refx.append(np.asarray(x).tolist())
            refy.append(np.asarray(y).tolist())
        sx, sy = [], []
        for n1 in range(N + 1):
            x, y = K.domain.element(x0), K.range.element(y0)
            doubleprox_dc(x, y, fo, po, go, K, n1, gamma, mu)
            doubleprox_dc(x, y, fo, po, go, K, N - n1, gamma, mu)
            sx.append(np.asarray(x).tolist())
            sy.append(np.asarray(y).tolist())
        cs.add('{| kc_nc := %d; kc_K := %s; kc_f := %s; kc_g := %s; kc_phi := %s; kc_gamma := %s; kc_mu := %s; '
               'kc_x := %s; kc_y := %s; kc_n := %d; kc_opt := %s; kc_opt_y := %s; kc_ref := %s; kc_ref_y := %s; '
               'kc_split_x := %s; kc_split_y := %s |}'
               % (n, C.qss(M), f.coq, g.coq, phi.coq, C.q(gamma), C.q(mu), C.qs(x0), C.qs(y0), N, C.qss(t1),
                  C.qs(yfin), C.qss(refx), C.qss(refy), C.qss(sx), C.qss(sy)),
               {'solver': 'doubleprox_dc', 'K': M, 'f': f.desc, 'g': g.desc, 'phi': phi.desc, 'gamma': gamma,
                'mu': mu, 'x0': x0, 'y0': y0, 'niter': N,
                'probe': {'kind': 'doubleprox_dc-vs-simple', 'op': ['rn', M], 'f': f.spec, 'g': g.spec,
                          'phi': phi.spec, 'gamma': gamma, 'mu': mu, 'x0': x0, 'y0': y0, 'niter': N}},
               ('dpdc', n, m, f.coq, g.coq, phi.coq, gamma, mu, N, tuple(x0), tuple(y0)) if N > 0 else None)


def gen_pdhg(rng, tier, cs):
    from odl.solvers.nonsmooth.primal_dual_hybrid_gradient import pdhg
    for k in range(24 if tier == 'quick' else 160):
        n, m = _sizes(rng, tier)
        M = _mat(rng, m, n)
        f, g = _fk(rng, n, 'prox'), _fk(rng, m, 'cc')
        tau, sigma = _dy(rng), _dy(rng)
        theta = rng.choice([1, 1, 0.5, 0, 0.25])
        x0 = _vec(rng, n)
        N = _niter(rng, tier, k)
        L = _mop(M, n)
        fo, go = f.build(L.domain), g.build(L.range)
        mode = rng.choice(['none', 'both', 'both', 'xr', 'y'])
        xr0 = _vec(rng, n) if mode in ('both', 'xr') else None
        y0 = _vec(rng, m) if mode in ('both', 'y') else None
        kw = {}
        if xr0 is not None:
            kw['x_relax'] = L.domain.element(xr0)
        if y0 is not None:
            kw['y'] = L.range.element(y0)
        t1, c1 = _rec()
        x = L.domain.element(x0)
        pdhg(x, fo, go, L, N, tau, sigma, theta=theta, callback=c1, **kw)
        fin_xr = np.asarray(kw['x_relax']).tolist() if 'x_relax' in kw else None
        fin_y = np.asarray(kw['y']).tolist() if 'y' in kw else None
        sx, sxr, sy = [], [], []
        for n1 in range(N + 1):
            x = L.domain.element(x0)
            xr = L.domain.element(xr0) if xr0 is not None else x.copy()
            y = L.range.element(y0) if y0 is not None else L.range.zero()
            pdhg(x, fo, go, L, n1, tau, sigma, theta=theta, x_relax=xr, y=y)
            pdhg(x, fo, go, L, N - n1, tau, sigma, theta=theta, x_relax=xr, y=y)
            sx.append(np.asarray(x).tolist())
            sxr.append(np.asarray(xr).tolist())
            sy.append(np.asarray(y).tolist())
        cs.add('{| kp_nc := %d; kp_M := %s; kp_f := %s; kp_g := %s; kp_tau := %s; kp_sigma := %s; kp_theta := %s; '
               'kp_x := %s; kp_xr := %s; kp_y := %s; kp_n := %d; kp_tr := %s; kp_fin_xr := %s; kp_fin_y := %s; '
               'kp_split_x := %s; kp_split_xr := %s; kp_split_y := %s |}'
               % (n, C.qss(M), f.coq, g.coq, C.q(tau), C.q(sigma), C.q(theta), C.qs(x0), _oqs(xr0), _oqs(y0), N,
                  C.qss(t1), _oqs(fin_xr), _oqs(fin_y), C.qss(sx), C.qss(sxr), C.qss(sy)),
               {'solver': 'pdhg', 'M': M, 'f': f.desc, 'g': g.desc, 'tau': tau, 'sigma': sigma, 'theta': theta,
                'x0': x0, 'x_relax': xr0, 'y': y0, 'niter': N,
                'probe': {'kind': 'resume-pdhg', 'op': ['rn', M], 'f': f.spec, 'g': g.spec, 'tau': tau, 'sigma': sigma,
                          'theta': theta, 'x0': x0, 'niter': N}},
               ('pdhg', n, m, f.coq, g.coq, tau, sigma, theta, mode, N, tuple(x0)) if N > 0 else None)


def _proj(rng):
    k = rng.choice(['none', 'none', 'nonneg', 'box'])
    if k == 'none':
        return 'PNone', None, 'none'
    if k == 'nonneg':
        return 'PNonneg', (lambda x: x.ufuncs.maximum(0, out=x)), 'nonneg'
    lo = float(rng.randint(-2, 0))
    hi = lo + rng.choice([1.0, 2.0, 3.0])

    def pr(x):
        x[:] = np.clip(np.asarray(x), lo, hi)
    return '(PBox %s %s)' % (C.q(lo), C.q(hi)), pr, 'box[%g,%g]' % (lo, hi)


def gen_lw(rng, tier, cs):
    from odl.solvers.iterative.iterative import landweber
    for k in range(16 if tier == 'quick' else 110):
        n, m = _sizes(rng, tier)
        M = _mat(rng, m, n)
        rhs = _vec(rng, m)
        omega = _dy(rng, (0.0625, 0.125, 0.25, 0.5))
        pc, pf, pd = _proj(rng)
        x0 = _vec(rng, n)
        N = _niter(rng, tier, k)
        A = _mop(M, n)
        sq = rng.random() < 0.3
        if sq:        # nonlinear operator: the derivative must be taken at the current iterate
            import odl
            A = A * odl.PowerOperator(A.domain, 2)
            omega = omega / 8
            x0 = [rng.choice([-1.0, -0.5, 0.5, 1.0]) for _ in range(n)]
            N = min(N, 5)
        t1, c1 = _rec()
        x = A.domain.element(x0)
        landweber(A, x, A.range.element(rhs), N, omega=omega, projection=pf, callback=c1)
        sp = []
        for n1 in range(N + 1):
            x = A.domain.element(x0)
            landweber(A, x, A.range.element(rhs), n1, omega=omega, projection=pf)
            landweber(A, x, A.range.element(rhs), N - n1, omega=omega, projection=pf)
            sp.append(np.asarray(x).tolist())
        if not np.all(np.isfinite(np.array(t1 + sp, dtype=float))) or (t1 and np.max(np.abs(np.array(t1))) > 1e6):
            continue
        cs.add('{| kl_nc := %d; kl_M := %s; kl_sq := %s; kl_rhs := %s; kl_omega := %s; kl_proj := %s; kl_x := %s; kl_n := %d; '
               'kl_tr := %s; kl_split := %s |}'
               % (n, C.qss(M), C.b(sq), C.qs(rhs), C.q(omega), pc, C.qs(x0), N, C.qss(t1), C.qss(sp)),
               {'solver': 'landweber', 'M': M, 'squared': sq, 'rhs': rhs, 'omega': omega, 'projection': pd, 'x0': x0,
                'niter': N},
               ('lw', n, m, sq, omega, pd, N, tuple(x0)) if N > 0 else None)


def gen_kz(rng, tier, cs):
    from odl.solvers.iterative.iterative import kaczmarz
    for k in range(16 if tier == 'quick' else 110):
        n, _ = _sizes(rng, tier)
        nops = rng.choice([1, 2, 3])
        ms = [rng.randint(1, 3) for _ in range(nops)]
        Ms = [_mat(rng, m, n) for m in ms]
        rhs = [_vec(rng, m) for m in ms]
        scalar_omega = rng.random() < 0.3
        om = [_dy(rng, (0.0625, 0.125, 0.25, 0.5))] * nops if scalar_omega else \
            [_dy(rng, (0.0625, 0.125, 0.25, 0.5)) for _ in ms]
        pc, pf, pd = _proj(rng)
        x0 = _vec(rng, n)
        N = _niter(rng, tier, k)
        ops = [_mop(M, n) for M in Ms]
        rh = [o.range.element(r) for o, r in zip(ops, rhs)]
        dom = _rn(n)
        omarg = om[0] if scalar_omega else om
        t1, c1 = _rec()
        x = dom.element(x0)
        kaczmarz(ops, x, rh, N, omega=omarg, projection=pf, callback=c1)
        t2, c2 = _rec()
        x = dom.element(x0)
        kaczmarz(ops, x, rh, N, omega=omarg, projection=pf, callback=c2, callback_loop='inner')
        sp = []
        for n1 in range(N + 1):
            x = dom.element(x0)
            kaczmarz(ops, x, rh, n1, omega=omarg, projection=pf)
            kaczmarz(ops, x, rh, N - n1, omega=omarg, projection=pf)
            sp.append(np.asarray(x).tolist())
        cs.add('{| kk_nc := %d; kk_Ms := %s; kk_rhs := %s; kk_omega := %s; kk_proj := %s; kk_x := %s; kk_n := %d; '
               'kk_outer := %s; kk_inner := %s; kk_split := %s |}'
               % (n, C.lst(Ms, C.qss), C.qss(rhs), C.qs(om), pc, C.qs(x0), N, C.qss(t1), C.qss(t2), C.qss(sp)),
               {'solver': 'kaczmarz', 'Ms': Ms, 'rhs': rhs, 'omega': om, 'projection': pd, 'x0': x0, 'niter': N},
               ('kz', n, tuple(ms), tuple(om), pd, N, tuple(x0)) if N > 0 else None)


def gen_pg(rng, tier, cs):
    from odl.solvers.nonsmooth.proximal_gradient_solvers import proximal_gradient
    for k in range(20 if tier == 'quick' else 140):
        n = rng.randint(1, 4)
        f, g = _fk(rng, n, 'prox'), _fk(rng, n, 'grad')
        gamma = _dy(rng)
        const = rng.random() < 0.6
        lams = [rng.choice([1.0, 0.5, 1.5])] if const else [rng.choice([1.0, 0.5, 1.5, 0.25]) for _ in range(rng.randint(2, 5))]
        x0 = _vec(rng, n)
        N = _niter(rng, tier, k)
        sp_ = _rn(n)
        fo, go = f.build(sp_), g.build(sp_)

        def lamf(j, sh=0):
            return lams[min(j + sh, len(lams) - 1)]
        lam_arg = lams[0] if const else lamf
        t1, c1 = _rec()
        x = sp_.element(x0)
        proximal_gradient(x, fo, go, gamma, N, callback=c1, lam=lam_arg)
        same, shift = [], []
        for n1 in range(N + 1):
            x = sp_.element(x0)
            proximal_gradient(x, fo, go, gamma, n1, lam=lam_arg)
            proximal_gradient(x, fo, go, gamma, N - n1, lam=lam_arg)
            same.append(np.asarray(x).tolist())
            x = sp_.element(x0)
            proximal_gradient(x, fo, go, gamma, n1, lam=lam_arg)
            proximal_gradient(x, fo, go, gamma, N - n1, lam=(lams[0] if const else (lambda j, n1=n1: lamf(j, n1))))
            shift.append(np.asarray(x).tolist())
        cs.add('{| kg_f := %s; kg_g := %s; kg_gamma := %s; kg_lam := %s; kg_x := %s; kg_n := %d; kg_tr := %s; '
               'kg_split := %s; kg_split_shift := %s |}'
               % (f.coq, g.coq, C.q(gamma), C.qs(lams), C.qs(x0), N, C.qss(t1), C.qss(same), C.qss(shift)),
               {'solver': 'proximal_gradient', 'f': f.desc, 'g': g.desc, 'gamma': gamma, 'lam': lams, 'x0': x0,
                'niter': N},
               ('pg', n, f.coq, g.coq, gamma, tuple(lams), N, tuple(x0)) if N > 0 else None)


def gen_em(rng, tier, cs):
    from odl.solvers.iterative.statistical import mlem, osmlem
    for k in range(16 if tier == 'quick' else 110):
        n, _ = _sizes(rng, tier)
        nops = rng.choice([1, 1, 2, 3])
        ms = [rng.randint(1, 3) for _ in range(nops)]
        Ms = [_mat(rng, m, n, 0, 3) for m in ms]
        data = [[float(rng.randint(0, 5)) for _ in range(m)] for m in ms]
        x0 = [rng.choice([0.5, 1.0, 2.0, 3.0, 0.0 if rng.random() < 0.1 else 1.0]) for _ in range(n)]
        N = _niter(rng, tier, k)
        sens = None
        sens_scalar = None
        r = rng.random()
        if r < 0.3:
            sens = [[rng.choice([0.5, 1.0, 2.0, 4.0]) for _ in range(n)] for _ in ms]
        elif r < 0.45:
            sens_scalar = rng.choice([0.5, 2.0, 4.0])       # not iterable: used for every operator
            sens = [[sens_scalar] * n for _ in ms]
        ops = [_mop(M, n) for M in Ms]
        dom = _rn(n)
        kw = {}
        if sens_scalar is not None:
            kw['sensitivities'] = sens_scalar
        elif sens is not None:
            kw['sensitivities'] = [dom.element(s) for s in sens]

        # mlem (one operator): sensitivities as ONE element / ONE ndarray (wrapped by mlem), a list, a float, or None
        mlem_mode = None
        if nops == 1:
            mlem_mode = 'default' if sens is None else ('scalar' if sens_scalar is not None else
                                                        rng.choice(['element', 'ndarray', 'list']))

        def run(x, it, cb=None):
            if mlem_mode is not None:
                k2 = {}
                if mlem_mode == 'scalar':
                    k2['sensitivities'] = sens_scalar
                elif mlem_mode == 'element':
                    k2['sensitivities'] = dom.element(sens[0])
                elif mlem_mode == 'ndarray':
                    k2['sensitivities'] = np.array(sens[0], dtype=float)
                elif mlem_mode == 'list':
                    k2['sensitivities'] = [dom.element(sens[0])]
                mlem(ops[0], x, ops[0].range.element(data[0]), it, callback=cb, **k2)
            else:
                osmlem(ops, x, [o.range.element(d) for o, d in zip(ops, data)], it, callback=cb, **kw)
        t1, c1 = _rec()
        x = dom.element(x0)
        run(x, N, c1)
        sp = []
        for n1 in range(N + 1):
            x = dom.element(x0)
            run(x, n1)
            run(x, N - n1)
            sp.append(np.asarray(x).tolist())
        if not np.all(np.isfinite(np.array(t1 + sp, dtype=float))) or (t1 and np.max(np.abs(np.array(t1))) > 1e12):
            continue
        cs.add('{| ke_nc := %d; ke_Ms := %s; ke_data := %s; ke_sens := %s; ke_x := %s; ke_n := %d; ke_tr := %s; '
               'ke_split := %s |}'
               % (n, C.lst(Ms, C.qss), C.qss(data), 'None' if sens is None else '(Some %s)' % C.qss(sens), C.qs(x0),
                  N, C.qss(t1), C.qss(sp)),
               {'solver': ('mlem sensitivities=%s' % mlem_mode) if mlem_mode is not None else 'osmlem', 'Ms': Ms, 'data': data, 'sens': sens,
                'x0': x0, 'niter': N},
               ('em', n, tuple(ms), sens is None, mlem_mode, N, tuple(x0)) if N > 0 else None)


def gen_sd(rng, tier, cs):
    from odl.solvers.smooth.gradient import steepest_descent
    for k in range(16 if tier == 'quick' else 110):
        n = rng.randint(1, 4)
        f = _fk(rng, n, 'grad')
        step = _dy(rng, (0.0625, 0.125, 0.25, 0.5))
        tol = rng.choice([1e-16, 1e-16, 0.001, 0.3])
        pc, pf, pd = _proj(rng)
        x0 = _vec(rng, n)
        N = _niter(rng, tier, k)
        sp_ = _rn(n)
        fo = f.build(sp_)
        t1, c1 = _rec()
        x = sp_.element(x0)
        steepest_descent(fo, x, line_search=step, maxiter=N, tol=tol, projection=pf, callback=c1)
        fin = np.asarray(x).tolist()
        sp = []
        for n1 in range(N + 1):
            x = sp_.element(x0)
            steepest_descent(fo, x, line_search=step, maxiter=n1, tol=tol, projection=pf)
            steepest_descent(fo, x, line_search=step, maxiter=N - n1, tol=tol, projection=pf)
            sp.append(np.asarray(x).tolist())
        cs.add('{| ks_f := %s; ks_step := %s; ks_tol := %s; ks_proj := %s; ks_x := %s; ks_n := %d; ks_tr := %s; '
               'ks_fin := %s; ks_split := %s |}'
               % (f.coq, C.q(step), C.q(tol), pc, C.qs(x0), N, C.qss(t1), C.qs(fin), C.qss(sp)),
               {'solver': 'steepest_descent', 'f': f.desc, 'step': step, 'tol': tol, 'projection': pd, 'x0': x0,
                'maxiter': N, 'callbacks': len(t1)},
               ('sd', n, f.coq, step, tol, pd, N, len(t1), tuple(x0)) if N > 0 else None)


def gen_dr(rng, tier, cs):
    from odl.solvers.nonsmooth.douglas_rachford import douglas_rachford_pd
    for k in range(20 if tier == 'quick' else 140):
        n, _ = _sizes(rng, tier)
        nops = rng.choice([0, 1, 2, 2, 3])
        ms = [rng.randint(1, 3) for _ in range(nops)]
        if nops >= 2 and rng.random() < 0.5:
            ms[1] = ms[0]
        Ms = [_mat(rng, m, n) for m in ms]
        f = _fk(rng, n, 'prox')
        gs = [_fk(rng, m, 'cc') for m in ms]
        ls = None
        if nops and rng.random() < 0.3:
            ls = [F('l2sq', '(FL2sq %s)' % C.q(c), (lambda sp, c=c: c * __import__('odl').solvers.L2NormSquared(sp)), '%g*L2sq' % c)
                  for c in [rng.choice([0.5, 2.0]) for _ in ms]]
        tau = _dy(rng)
        sigma = [_dy(rng) for _ in ms]
        const = rng.random() < 0.6
        lams = [rng.choice([1.0, 0.5, 1.5])] if const else [rng.choice([1.0, 0.5, 1.5, 0.25]) for _ in range(rng.randint(2, 4))]
        x0 = _vec(rng, n)
        N = _niter(rng, tier, k)
        Ls = [_mop(M, n) for M in Ms]
        dom = _rn(n)
        fo = f.build(dom)
        go = [g.build(Li.range) for g, Li in zip(gs, Ls)]
        kw = {}
        if ls is not None:
            kw['l'] = [l.build(Li.range) for l, Li in zip(ls, Ls)]
        lam_arg = lams[0] if const else (lambda j: lams[min(j, len(lams) - 1)])
        t1, c1 = _rec()
        x = dom.element(x0)
        douglas_rachford_pd(x, fo, go, Ls, N, tau=tau, sigma=sigma, callback=c1, lam=lam_arg, **kw)
        fin = np.asarray(x).tolist()
        cs.add('{| kr_nc := %d; kr_Ms := %s; kr_f := %s; kr_gs := %s; kr_ls := %s; kr_tau := %s; kr_sigma := %s; '
               'kr_lam := %s; kr_x := %s; kr_n := %d; kr_tr := %s; kr_fin := %s |}'
               % (n, C.lst(Ms, C.qss), f.coq, C.lst([g.coq for g in gs]),
                  'None' if ls is None else '(Some %s)' % C.lst([l.coq for l in ls]), C.q(tau), C.qs(sigma),
                  C.qs(lams), C.qs(x0), N, C.qss(t1), C.qs(fin)),
               {'solver': 'douglas_rachford_pd', 'Ms': Ms, 'f': f.desc, 'g': [g.desc for g in gs],
                'l': None if ls is None else [l.desc for l in ls], 'tau': tau, 'sigma': sigma, 'lam': lams,
                'x0': x0, 'niter': N},
               ('dr', n, tuple(ms), f.coq, tuple(g.coq for g in gs), ls is None, tau, tuple(sigma), tuple(lams), N,
                tuple(x0)) if N > 0 else None)


def gen_dca(rng, tier, cs):
    from odl.solvers.nonsmooth.difference_convex import dca, prox_dca
    import odl
    for k in range(16 if tier == 'quick' else 110):
        n = rng.randint(1, 4)
        prox = bool(k % 2)
        sp_ = _rn(n)
        g = _fk(rng, n, 'grad')
        if prox:
            f = _fk(rng, n, 'prox')
        else:      # f needs a conjugate with a gradient: (translated) c * L2sq
            lam = rng.choice([0.5, 1.0, 2.0])
            f = F('l2sq', '(FL2sq %s)' % C.q(lam), (lambda sp, lam=lam: lam * odl.solvers.L2NormSquared(sp)), '%g*L2sq' % lam)
            if rng.random() < 0.5:
                c = _vec(rng, n, -2, 2)
                inner = f
                f = F('trans', '(FTrans %s %s)' % (inner.coq, C.qs(c)),
                      (lambda sp, inner=inner, c=c: inner.build(sp).translated(c)), inner.desc + '.translated')
        gamma = _dy(rng)
        x0 = _vec(rng, n)
        N = min(_niter(rng, tier, k // 2), 10)
        fo, go = f.build(sp_), g.build(sp_)

        def run(x, it, cb=None):
            if prox:
                prox_dca(x, fo, go, it, gamma, callback=cb)
            else:
                dca(x, fo, go, it, callback=cb)
        t1, c1 = _rec()
        x = sp_.element(x0)
        run(x, N, c1)
        sp = []
        for n1 in range(N + 1):
            x = sp_.element(x0)
            run(x, n1)
            run(x, N - n1)
            sp.append(np.asarray(x).tolist())
        if not np.all(np.isfinite(np.array(t1 + sp, dtype=float))) or (t1 and np.max(np.abs(np.array(t1))) > 1e9):
            continue
        cs.add('{| kq_prox := %s; kq_f := %s; kq_g := %s; kq_gamma := %s; kq_x := %s; kq_n := %d; kq_tr := %s; '
               'kq_split := %s |}' % (C.b(prox), f.coq, g.coq, C.q(gamma), C.qs(x0), N, C.qss(t1), C.qss(sp)),
               {'solver': 'prox_dca' if prox else 'dca', 'f': f.desc, 'g': g.desc, 'gamma': gamma, 'x0': x0, 'niter': N},
               ('dca', prox, n, f.coq, g.coq, gamma, N, tuple(x0)) if N > 0 else None)


def gen_apg(rng, tier, cs):
    from odl.solvers.nonsmooth.proximal_gradient_solvers import accelerated_proximal_gradient
    for k in range(12 if tier == 'quick' else 70):
        n = rng.randint(1, 4)
        f, g = _fk(rng, n, 'prox'), _fk(rng, n, 'grad')
        gamma = _dy(rng)
        x0 = _vec(rng, n)
        N = min(_niter(rng, tier, k), 12)
        sp_ = _rn(n)
        t1, c1 = _rec()
        x = sp_.element(x0)
        accelerated_proximal_gradient(x, f.build(sp_), g.build(sp_), gamma, N, callback=c1)
        # the scalar recursion of the source, replayed: alpha_k = (t_old - 1) / t
        alphas, t = [], 1
        for _ in range(N):
            t, t_old = (1 + np.sqrt(1 + 4 * t ** 2)) / 2, t
            alphas.append(float((t_old - 1) / t))
        cs.add('{| kv_f := %s; kv_g := %s; kv_gamma := %s; kv_alpha := %s; kv_x := %s; kv_n := %d; kv_tr := %s |}'
               % (f.coq, g.coq, C.q(gamma), C.qs(alphas), C.qs(x0), N, C.qss(t1)),
               {'solver': 'accelerated_proximal_gradient', 'f': f.desc, 'g': g.desc, 'gamma': gamma, 'x0': x0,
                'niter': N},
               ('apg', n, f.coq, g.coq, gamma, N, tuple(x0)) if N > 0 else None)


def gen_pdacc(rng, tier, cs):
    from odl.solvers.nonsmooth.primal_dual_hybrid_gradient import pdhg
    for k in range(12 if tier == 'quick' else 70):
        n, m = _sizes(rng, tier)
        M = _mat(rng, m, n)
        f, g = _fk(rng, n, 'prox'), _fk(rng, m, 'cc')
        tau, sigma = _dy(rng), _dy(rng)
        which = rng.choice(['gamma_primal', 'gamma_dual'])
        gam = rng.choice([0.5, 1.0, 2.0, 0.0])
        x0 = _vec(rng, n)
        N = min(_niter(rng, tier, k), 10)
        L = _mop(M, n)
        t1, c1 = _rec()
        x = L.domain.element(x0)
        pdhg(x, f.build(L.domain), g.build(L.range), L, N, tau, sigma, callback=c1, **{which: gam})
        taus, sigmas, thetas = [], [], []
        t_, s_ = float(tau), float(sigma)
        for _ in range(N):      # the scalar recursion of the source, replayed
            taus.append(t_)
            sigmas.append(s_)
            if which == 'gamma_primal':
                th = float(1 / np.sqrt(1 + 2 * gam * t_))
                t_ *= th
                s_ /= th
            else:
                th = float(1 / np.sqrt(1 + 2 * gam * s_))
                t_ /= th
                s_ *= th
            thetas.append(th)
        # resumption: the caller replays the scalar recursion to get the step sizes the first call reached
        sp = []
        fo, go = f.build(L.domain), g.build(L.range)
        for n1 in range(N + 1):
            x = L.domain.element(x0)
            xr, yy = x.copy(), L.range.zero()
            pdhg(x, fo, go, L, n1, tau, sigma, x_relax=xr, y=yy, **{which: gam})
            t1_, s1_ = (taus[n1], sigmas[n1]) if n1 < N else (t_, s_)
            pdhg(x, fo, go, L, N - n1, t1_, s1_, x_relax=xr, y=yy, **{which: gam})
            sp.append(np.asarray(x).tolist())
        cs.add('{| kw_nc := %d; kw_M := %s; kw_f := %s; kw_g := %s; kw_tau := %s; kw_sigma := %s; kw_theta := %s; '
               'kw_x := %s; kw_n := %d; kw_tr := %s; kw_split := %s |}'
               % (n, C.qss(M), f.coq, g.coq, C.qs(taus), C.qs(sigmas), C.qs(thetas), C.qs(x0), N, C.qss(t1), C.qss(sp)),
               {'solver': 'pdhg (accelerated)', 'M': M, 'f': f.desc, 'g': g.desc, 'tau': tau, 'sigma': sigma,
                which: gam, 'x0': x0, 'niter': N},
               ('pdacc', n, m, f.coq, g.coq, tau, sigma, which, gam, N, tuple(x0)) if N > 0 else None)


def _perms(seed, nops, N):
    """the permutations np.random.permutation(range(nops)) yields after np.random.seed(seed)"""
    np.random.seed(seed)
    return [[int(i) for i in np.random.permutation(range(nops))] for _ in range(N)]


def gen_kzr(rng, tier, cs):
    from odl.solvers.iterative.iterative import kaczmarz
    for k in range(12 if tier == 'quick' else 70):
        n, _ = _sizes(rng, tier)
        nops = rng.choice([2, 3, 3, 4])
        ms = [rng.randint(1, 3) for _ in range(nops)]
        Ms = [_mat(rng, m, n) for m in ms]
        rhs = [_vec(rng, m) for m in ms]
        om = [_dy(rng, (0.0625, 0.125, 0.25, 0.5)) for _ in ms]
        pc, pf, pd = _proj(rng)
        x0 = _vec(rng, n)
        N = max(1, min(_niter(rng, tier, k), 10))
        seed = rng.randint(0, 10 ** 6)
        orders = _perms(seed, nops, N)
        ops = [_mop(M, n) for M in Ms]
        rh = [o.range.element(r) for o, r in zip(ops, rhs)]
        dom = _rn(n)
        t1, c1 = _rec()
        x = dom.element(x0)
        np.random.seed(seed)
        kaczmarz(ops, x, rh, N, omega=om, projection=pf, random=True, callback=c1)
        sp = []
        for n1 in range(N + 1):      # the second call continues the stream of the global generator
            x = dom.element(x0)
            np.random.seed(seed)
            kaczmarz(ops, x, rh, n1, omega=om, projection=pf, random=True)
            kaczmarz(ops, x, rh, N - n1, omega=om, projection=pf, random=True)
            sp.append(np.asarray(x).tolist())
        cs.add('{| kzr_nc := %d; kzr_Ms := %s; kzr_rhs := %s; kzr_omega := %s; kzr_proj := %s; kzr_orders := %s; '
               'kzr_x := %s; kzr_n := %d; kzr_outer := %s; kzr_split := %s |}'
               % (n, C.lst(Ms, C.qss), C.qss(rhs), C.qs(om), pc, C.lst(orders, C.nats) + '%nat', C.qs(x0), N,
                  C.qss(t1), C.qss(sp)),
               {'solver': 'kaczmarz(random=True)', 'Ms': Ms, 'rhs': rhs, 'omega': om, 'projection': pd, 'seed': seed,
                'orders': orders, 'x0': x0, 'niter': N},
               ('kzr', n, tuple(ms), tuple(om), pd, seed, N, tuple(x0)))


def gen_adr(rng, tier, cs):
    from odl.solvers.nonsmooth.alternating_dual_updates import adupdates, adupdates_simple
    for k in range(12 if tier == 'quick' else 70):
        n, _ = _sizes(rng, tier)
        nops = rng.choice([2, 3, 3])
        ms = [rng.randint(1, 3) for _ in range(nops)]
        if rng.random() < 0.6:
            ms[1] = ms[0]
        Ms = [_mat(rng, m, n) for m in ms]
        gs = [_fk(rng, m, 'cc') for m in ms]
        inner = [_dy(rng) for _ in ms]
        step = _dy(rng, (0.5, 1.0, 2.0))
        x0 = _vec(rng, n)
        N = max(1, min(_niter(rng, tier, k), 8))
        seed = rng.randint(0, 10 ** 6)
        orders = _perms(seed, nops, N)
        keys = [ms.index(m) for m in ms]
        Ls = [_mop(M, n) for M in Ms]
        go = [g.build(Li.range) for g, Li in zip(gs, Ls)]
        dom = _rn(n)
        t1, c1 = _rec()
        x = dom.element(x0)
        np.random.seed(seed)
        adupdates(x, go, Ls, step, inner, N, random=True, callback=c1)
        ref = []
        for j in range(1, N + 1):
            x = dom.element(x0)
            np.random.seed(seed)
            adupdates_simple(x, go, Ls, step, inner, j, random=True)
            ref.append(np.asarray(x).tolist())
        cs.add('{| kdr_nc := %d; kdr_Ms := %s; kdr_gs := %s; kdr_inner := %s; kdr_keys := %s; kdr_step := %s; '
               'kdr_orders := %s; kdr_x := %s; kdr_n := %d; kdr_outer := %s; kdr_ref := %s |}'
               % (n, C.lst(Ms, C.qss), C.lst([g.coq for g in gs]), C.qs(inner), C.nats(keys) + '%nat', C.q(step),
                  C.lst(orders, C.nats) + '%nat', C.qs(x0), N, C.qss(t1), C.qss(ref)),
               {'solver': 'adupdates(random=True)', 'Ms': Ms, 'g': [g.desc for g in gs], 'inner': inner,
                'stepsize': step, 'seed': seed, 'orders': orders, 'x0': x0, 'niter': N},
               ('adr', n, tuple(ms), tuple(g.coq for g in gs), step, seed, N, tuple(x0)))


GENS = [('fk', 'check_fk', 'case_fk', gen_fk), ('admm', 'check_admm', 'case_admm', gen_admm),
        ('adupdates', 'check_adup', 'case_adup', gen_adup), ('doubleprox_dc', 'check_dpdc', 'case_dpdc', gen_dpdc),
        ('pdhg', 'check_pdhg', 'case_pdhg', gen_pdhg), ('landweber', 'check_lw', 'case_lw', gen_lw),
        ('kaczmarz', 'check_kz', 'case_kz', gen_kz), ('proximal_gradient', 'check_pg', 'case_pg', gen_pg),
        ('mlem', 'check_em', 'case_em', gen_em), ('steepest_descent', 'check_sd', 'case_sd', gen_sd),
        ('douglas_rachford_pd', 'check_dr', 'case_dr', gen_dr), ('dca', 'check_dca', 'case_dca', gen_dca),
        ('accelerated_proximal_gradient', 'check_apg', 'case_apg', gen_apg),
        ('pdhg_accelerated', 'check_pdacc', 'case_pdacc', gen_pdacc),
        ('kaczmarz_random', 'check_kzr', 'case_kzr', gen_kzr), ('adupdates_random', 'check_adr', 'case_adr', gen_adr)]


def correspondence(rng, tier):
    out = []
    for name, chk, ty, gen in GENS:
        cs = C.CaseSet(name, IMPORTS, chk, ty)
        gen(rng, tier, cs)
        out.append(cs)
    return out


# ------------------------------------------------------------------ probes
# The property evaluated directly on the implementation (no model): a problem
# is a plain-data description; probe_eval builds the odl objects, runs the
# solvers and compares.  The replay snippet calls probe_eval on the same data.
def _pf(spec, space):
    """functional from a nested-list spec"""
    import odl
    S = odl.solvers
    k = spec[0]
    if k == 'zero':
        return S.ZeroFunctional(space)
    if k == 'l1':
        return S.L1Norm(space)
    if k == 'l2':
        return S.L2Norm(space)
    if k == 'l2sq':
        return S.L2NormSquared(space)
    if k == 'box':
        return S.IndicatorBox(space, spec[1], spec[2])
    if k == 'nonneg':
        return S.IndicatorNonnegativity(space)
    if k == 'kl':
        return S.KullbackLeibler(space, prior=_el(space, spec[1]) if spec[1] is not None else None)
    if k == 'klcc':
        return S.KullbackLeibler(space, prior=_el(space, spec[1]) if spec[1] is not None else None).convex_conj
    if k == 'huber':
        return S.Huber(space, spec[1])
    if k == 'ball':
        return S.IndicatorLpUnitBall(space, spec[1])
    if k == 'groupl1':
        return S.GroupL1Norm(space)
    if k == 'gl1ball':
        return S.IndicatorGroupL1UnitBall(space)
    if k == 'quadform':
        return S.QuadraticForm(vector=_el(space, spec[1]), constant=spec[2])
    if k == 'scaled':
        return spec[1] * _pf(spec[2], space)
    if k == 'argscaled':
        return _pf(spec[2], space) * spec[1]
    if k == 'trans':
        return _pf(spec[2], space).translated(_el(space, spec[1]))
    if k == 'nlsq':          # ||A(x) - b||^2 with a NONLINEAR operator A: the gradient depends on the point
        A = _pop(spec[1])
        return S.L2NormSquared(A.range).translated(spec[2]) * A
    if k == 'l2sqdata':      # ||A x - b||^2 , smooth term with a gradient
        A = odl.MatrixOperator(np.array(spec[1], dtype=float), domain=space, range=odl.rn(len(spec[1])))
        return S.L2NormSquared(A.range).translated(spec[2]) * A
    raise ValueError(spec)


def _pop(d):
    """operator of a problem description: ('rn', M) or ('grad', n, method) or ('id', n)"""
    import odl
    k = d[0]
    if k == 'rn':
        M = np.array(d[1], dtype=float)
        return odl.MatrixOperator(M, domain=odl.rn(M.shape[1]), range=odl.rn(M.shape[0]))
    if k == 'grad':
        X = odl.uniform_discr(0, d[1], d[1])
        return odl.Gradient(X, method=d[2], pad_mode='symmetric' if d[2] != 'central' else 'constant')
    if k == 'id':
        return odl.IdentityOperator(odl.rn(d[1]))
    if k == 'scale':
        return odl.ScalingOperator(odl.rn(d[1]), d[2])
    if k == 'rnw':        # constant weightings on domain and range
        M = np.array(d[1], dtype=float)
        return odl.MatrixOperator(M, domain=odl.rn(M.shape[1], weighting=d[2]), range=odl.rn(M.shape[0], weighting=d[3]))
    if k == 'rnaw':       # array weighting on the domain
        M = np.array(d[1], dtype=float)
        return odl.MatrixOperator(M, domain=odl.rn(M.shape[1], weighting=d[2]), range=odl.rn(M.shape[0]))
    if k == 'grad2d':
        X = odl.uniform_discr([0, 0], [1, 1], d[1])
        return odl.Gradient(X, method=d[2])
    if k == 'broadcast':  # x -> (M x, x)
        M = np.array(d[1], dtype=float)
        X = odl.rn(M.shape[1])
        return odl.BroadcastOperator(odl.MatrixOperator(M, domain=X, range=odl.rn(M.shape[0])), odl.IdentityOperator(X))
    if k == 'multiply':
        return odl.MultiplyOperator(odl.rn(len(d[1])).element(d[1]))
    # nonlinear operators whose derivative(x) captures the value of x
    if k == 'matsq':      # x -> M (x . x)
        M = np.array(d[1], dtype=float)
        X = odl.rn(M.shape[1])
        return odl.MatrixOperator(M, domain=X, range=odl.rn(M.shape[0])) * odl.PowerOperator(X, 2)
    if k == 'sqmat':      # x -> (M x) . (M x)
        M = np.array(d[1], dtype=float)
        Y = odl.rn(M.shape[0])
        return odl.PowerOperator(Y, 2) * odl.MatrixOperator(M, domain=odl.rn(M.shape[1]), range=Y)
    raise ValueError(d)


def _el(space, v):
    import odl
    if isinstance(space, odl.ProductSpace):
        k = len(v) // len(space)
        return space.element([_el(space[i], v[i * k:(i + 1) * k]) for i in range(len(space))])
    return space.element(np.array(v, dtype=float).reshape(space.shape))


def _flat(x):
    import odl
    if isinstance(x.space, odl.ProductSpace):
        return np.concatenate([_flat(xi) for xi in x])
    return np.asarray(x, dtype=float).ravel().copy()


def _scale(*arrs):
    """1 + the largest finite magnitude occurring in a run (all state components, all iterates): rounding
    errors of the large components leak into the small ones through the operators"""
    m = 0.0
    for a in arrs:
        a = np.asarray(a, dtype=float)
        if a.size and np.all(np.isfinite(a)):
            m = max(m, float(np.max(np.abs(a))))
    return 1.0 + m


def _close(a, b, scale=None):
    a, b = np.asarray(a, dtype=float), np.asarray(b, dtype=float)
    if a.shape != b.shape:
        return False
    if a.size == 0:
        return True
    if scale is None:
        scale = 1.0 + (np.nanmax(np.abs(b)) if np.all(np.isfinite(b)) else 0.0)
    return bool(np.allclose(a, b, rtol=0, atol=1e-10 * scale, equal_nan=True))


def probe_eval(d):
    """Returns (ok, observed, expected).  d['kind'] selects the clause of the property."""
    C.setup_impl_path()
    import odl
    from odl.solvers.nonsmooth.admm import admm_linearized, admm_linearized_simple
    from odl.solvers.nonsmooth.alternating_dual_updates import adupdates, adupdates_simple
    from odl.solvers.nonsmooth.difference_convex import doubleprox_dc, doubleprox_dc_simple
    from odl.solvers.nonsmooth.primal_dual_hybrid_gradient import pdhg
    from odl.solvers.nonsmooth.proximal_gradient_solvers import proximal_gradient
    from odl.solvers.nonsmooth.douglas_rachford import douglas_rachford_pd
    from odl.solvers.iterative.iterative import landweber, kaczmarz
    from odl.solvers.iterative.statistical import mlem, osmlem
    from odl.solvers.smooth.gradient import steepest_descent
    kind, N = d['kind'], d['niter']

    def rec():
        tr = []
        return tr, (lambda x: tr.append(_flat(x)))

    if kind == 'contract':
        return _contract(d)
    if kind == 'alias-pool':
        return _alias_pool_eval(d)
    if kind == 'callback':
        return _callback_eval(d)
    if kind == 'admm-vs-simple':
        L = _pop(d['op'])
        f, g = _pf(d['f'], L.domain), _pf(d['g'], L.range)
        t1, c1 = rec()
        admm_linearized(_el(L.domain, d['x0']), f, g, L, d['tau'], d['sigma'], N, callback=c1)
        t2, c2 = rec()
        admm_linearized_simple(_el(L.domain, d['x0']), f, g, L, d['tau'], d['sigma'], N, callback=c2)
        return (len(t1) == N and len(t2) == N and _close(t1, t2)), np.array(t1).tolist(), np.array(t2).tolist()
    if kind == 'adupdates-vs-simple':
        Ls = [_pop(o) for o in d['ops']]
        gs = [_pf(s, Li.range) for s, Li in zip(d['gs'], Ls)]
        dom = Ls[0].domain
        inner = [_inner_step(v, Li.range) for v, Li in zip(d['inner'], Ls)]
        t1, c1 = rec()
        adupdates(_el(dom, d['x0']), gs, Ls, d['stepsize'], inner, N, callback=c1)
        t3, c3 = rec()
        adupdates(_el(dom, d['x0']), gs, Ls, d['stepsize'], inner, N, callback=c3, callback_loop='inner')
        t2 = []
        for j in range(1, N + 1):
            x = _el(dom, d['x0'])
            adupdates_simple(x, gs, Ls, d['stepsize'], inner, j)
            t2.append(_flat(x))
        ok = len(t1) == N and _close(t1, t2) and len(t3) == N * len(Ls) and _close(t3[len(Ls) - 1::len(Ls)], t2)
        # independent NumPy transcription of the textbook iteration (matrix operators, simple functionals)
        t4 = _np_adupdates(d)
        if t4 is not None:
            ok = ok and _close(t1, t4) and _close(t2, t4)
        return ok, np.array(t1).tolist(), np.array(t4 if t4 is not None else t2).tolist()
    if kind == 'doubleprox_dc-vs-simple':
        K = _pop(d['op'])
        f, g, phi = _pf(d['f'], K.domain), _pf(d['g'], K.range), _pf(d['phi'], K.domain)
        t1, c1 = rec()
        y = _el(K.range, d['y0'])
        doubleprox_dc(_el(K.domain, d['x0']), y, f, phi, g, K, N, d['gamma'], d['mu'], callback=c1)
        t2, y2 = [], None
        for j in range(1, N + 1):
            x, y2 = _el(K.domain, d['x0']), _el(K.range, d['y0'])
            doubleprox_dc_simple(x, y2, f, phi, g, K, j, d['gamma'], d['mu'])
            t2.append(_flat(x))
        sc = _scale(t2, _flat(y2)) if N else 1.0
        ok = len(t1) == N and _close(t1, t2, sc) and (N == 0 or _close(_flat(y), _flat(y2), sc))
        return ok, np.array(t1).tolist(), np.array(t2).tolist()

    if kind == 'resume-proximal_gradient-callable-lam':
        # lam is a callable; d['shift'] says whether the caller shifts it by the iterations already done
        sp = odl.rn(len(d['x0']))
        f, g = _pf(d['f'], sp), _pf(d['g'], sp)
        vals = d['lam']

        def lam(k, off=0):
            return vals[min(k + off, len(vals) - 1)]
        x = _el(sp, d['x0'])
        proximal_gradient(x, f, g, d['gamma'], N, lam=lam)
        want = _flat(x)
        ok, got = True, want
        for n1 in range(N + 1):
            x = _el(sp, d['x0'])
            proximal_gradient(x, f, g, d['gamma'], n1, lam=lam)
            proximal_gradient(x, f, g, d['gamma'], N - n1, lam=(lambda k, n1=n1: lam(k, n1)) if d['shift'] else lam)
            got = _flat(x)
            ok = ok and _close(got, want)
            if not ok:
                break
        return ok, got.tolist(), want.tolist()

    if kind in ('resume-landweber-default-omega', 'resume-pdhg-default-stepsizes'):
        # step sizes left to the solver (estimated operator norm); the SAME operator object in every call
        A = _pop(d['op'])
        if kind == 'resume-landweber-default-omega':
            rhs = _el(A.range, d['rhs'])

            def run(st, it):
                landweber(A, st[0], rhs, it)
            init = lambda: [_el(A.domain, d['x0'])]
        else:
            f, g = _pf(d['f'], A.domain), _pf(d['g'], A.range)

            def run(st, it):
                pdhg(st[0], f, g, A, it, x_relax=st[1], y=st[2])

            def init():
                x = _el(A.domain, d['x0'])
                return [x, x.copy(), A.range.zero()]
        st = init()
        run(st, N)
        want = [_flat(v) for v in st]
        ok, got = True, want
        for n1 in range(N + 1):
            st = init()
            run(st, n1)
            run(st, N - n1)
            got = [_flat(v) for v in st]
            ok = ok and all(_close(a, b) for a, b in zip(got, want))
            if not ok:
                break
        return ok, [v.tolist() for v in got], [v.tolist() for v in want]
    if kind == 'callback-count-variants':
        # variants outside the resumption claim: only "one callback per iteration, last one = returned x"
        A = _pop(d['op'])
        tr, cb = rec()
        x = _el(A.domain, d['x0'])
        v = d['variant']
        if v in ('pdhg-gamma_primal', 'pdhg-gamma_dual'):
            f, g = _pf(d['f'], A.domain), _pf(d['g'], A.range)
            pdhg(x, f, g, A, N, d['tau'], d['sigma'], callback=cb, **{v[5:]: d['gamma']})
            want = N
        elif v == 'kaczmarz-random':
            kaczmarz([A, A], x, [_el(A.range, d['rhs'])] * 2, N, omega=d['omega'], random=True, callback=cb,
                     callback_loop=d['loop'])
            want = N * (2 if d['loop'] == 'inner' else 1)
        elif v == 'adupdates-random':
            gs = [_pf(d['g'], A.range)] * 2
            adupdates(x, gs, [A, A], d['tau'], [d['sigma']] * 2, N, random=True, callback=cb, callback_loop=d['loop'])
            want = N * (2 if d['loop'] == 'inner' else 1)
        elif v == 'accelerated_proximal_gradient':
            from odl.solvers.nonsmooth.proximal_gradient_solvers import accelerated_proximal_gradient
            sp = A.domain
            accelerated_proximal_gradient(x, _pf(d['f'], sp), _pf(['l2sqdata', d['op'][1], d['rhs']], sp), d['tau'], N,
                                          callback=cb)
            want = N
        ok = len(tr) == want and (not tr or _close(tr[-1], _flat(x)))
        return ok, len(tr), want
    if kind == 'callback-douglas_rachford_pd':
        Ls = [_pop(o) for o in d['ops']]
        dom = Ls[0].domain if Ls else odl.rn(len(d['x0']))
        f = _pf(d['f'], dom)
        gs = [_pf(s, Li.range) for s, Li in zip(d['gs'], Ls)]
        kw = {}
        if d.get('ls') is not None:
            kw['l'] = [_pf(s, Li.range) for s, Li in zip(d['ls'], Ls)]
        tr, cb = rec()
        x = _el(dom, d['x0'])
        douglas_rachford_pd(x, f, gs, Ls, N, tau=d['tau'], sigma=d['sigma'], callback=cb, lam=d['lam'], **kw)
        ok = len(tr) == N and (N == 0 or _close(tr[-1], _flat(x)))
        # the k-th callback of a longer run is the final iterate of the run with niter = k+1 ... only for the
        # LAST one (earlier callbacks see p1, which a shorter run returns as its x): check exactly that
        for j in range(1, N + 1):
            xj = _el(dom, d['x0'])
            douglas_rachford_pd(xj, f, gs, Ls, j, tau=d['tau'], sigma=d['sigma'], lam=d['lam'], **kw)
            ok = ok and _close(tr[j - 1], _flat(xj))
        return ok, [t.tolist() for t in tr], _flat(x).tolist()

    # ---- resumption: n1 iterations then N - n1, for every n1, against one run of N; callbacks counted
    def run_factory():
        if kind == 'resume-landweber':
            A = _pop(d['op'])
            rhs = _el(A.range, d['rhs'])
            pr = _projection(d.get('proj'))
            return (lambda st, it, cb=None: landweber(A, st[0], rhs, it, omega=d['omega'], projection=pr, callback=cb)), \
                (lambda: [_el(A.domain, d['x0'])]), 1
        if kind == 'resume-kaczmarz':
            ops = [_pop(o) for o in d['ops']]
            rhs = [_el(o.range, r) for o, r in zip(ops, d['rhs'])]
            pr = _projection(d.get('proj'))
            return (lambda st, it, cb=None: kaczmarz(ops, st[0], rhs, it, omega=d['omega'], projection=pr, callback=cb)), \
                (lambda: [_el(ops[0].domain, d['x0'])]), 1
        if kind == 'resume-proximal_gradient':
            sp = odl.rn(len(d['x0']))
            f, g = _pf(d['f'], sp), _pf(d['g'], sp)
            return (lambda st, it, cb=None: proximal_gradient(st[0], f, g, d['gamma'], it, callback=cb, lam=d['lam'])), \
                (lambda: [_el(sp, d['x0'])]), 1
        if kind == 'resume-mlem':
            ops = [_pop(o) for o in d['ops']]
            data = [_el(o.range, r) for o, r in zip(ops, d['data'])]
            if len(ops) == 1:
                return (lambda st, it, cb=None: mlem(ops[0], st[0], data[0], it, callback=cb)), \
                    (lambda: [_el(ops[0].domain, d['x0'])]), 1
            return (lambda st, it, cb=None: osmlem(ops, st[0], data, it, callback=cb)), \
                (lambda: [_el(ops[0].domain, d['x0'])]), len(ops)
        if kind == 'resume-steepest_descent':
            sp = odl.rn(len(d['x0']))
            f = _pf(d['f'], sp)
            pr = _projection(d.get('proj'))
            return (lambda st, it, cb=None: steepest_descent(f, st[0], line_search=d['step'], maxiter=it, tol=d['tol'],
                                                            projection=pr, callback=cb)), \
                (lambda: [_el(sp, d['x0'])]), None
        if kind == 'resume-pdhg':
            L = _pop(d['op'])
            f, g = _pf(d['f'], L.domain), _pf(d['g'], L.range)

            def init():
                x = _el(L.domain, d['x0'])
                return [x, x.copy(), L.range.zero()]
            return (lambda st, it, cb=None: pdhg(st[0], f, g, L, it, d['tau'], d['sigma'], theta=d['theta'],
                                                x_relax=st[1], y=st[2], callback=cb)), init, 1
        if kind == 'resume-doubleprox_dc':
            K = _pop(d['op'])
            f, g, phi = _pf(d['f'], K.domain), _pf(d['g'], K.range), _pf(d['phi'], K.domain)
            return (lambda st, it, cb=None: doubleprox_dc(st[0], st[1], f, phi, g, K, it, d['gamma'], d['mu'],
                                                         callback=cb)), \
                (lambda: [_el(K.domain, d['x0']), _el(K.range, d['y0'])]), 1
        raise ValueError(kind)

    run, init, cb_per_iter = run_factory()
    st = init()
    tr, cb = rec()
    run(st, N, cb)
    want = [_flat(v) for v in st]
    sc = _scale(tr, *want)
    ok = True
    if cb_per_iter is not None:
        ok = ok and len(tr) == N * cb_per_iter
    else:
        ok = ok and len(tr) <= N
    if tr:
        ok = ok and _close(tr[-1], want[0])          # last callback saw the final iterate
    got = None
    for n1 in range(N + 1):
        st = init()
        tr1, cb1 = rec()
        run(st, n1, cb1)
        run(st, N - n1, cb1)
        got = [_flat(v) for v in st]
        ok = ok and all(_close(a, b, sc) for a, b in zip(got, want)) and _close(tr1, tr, sc)
        if not ok:
            break
    return ok, [g.tolist() for g in got], [w.tolist() for w in want]


# ---------------------------------------------------------------- NumPy transcriptions
def _np_op(desc):
    """(A, dadj) with dadj(x, y) = A'(x)^* y, or None"""
    k = desc[0]
    if k == 'id':
        return (lambda x: x.copy()), (lambda x, y: y.copy())
    if k in ('rn', 'matsq', 'sqmat'):
        M = np.array(desc[1], dtype=float)
        if k == 'rn':
            return (lambda x: M @ x), (lambda x, y: M.T @ y)
        if k == 'matsq':
            return (lambda x: M @ (x * x)), (lambda x, y: 2.0 * x * (M.T @ y))
        return (lambda x: (M @ x) ** 2), (lambda x, y: M.T @ (2.0 * (M @ x) * y))
    return None


def _np_prox(spec, sigma, a):
    """prox of sigma * spec at a, or None"""
    k = spec[0]
    if k == 'zero':
        return a.copy()
    if k == 'l1':
        return np.sign(a) * np.maximum(np.abs(a) - sigma, 0.0)
    if k == 'l2sq':
        return a / (1.0 + 2.0 * sigma)
    if k == 'box':
        return np.clip(a, spec[1], spec[2])
    if k == 'nonneg':
        return np.maximum(a, 0.0)
    if k == 'scaled' and spec[2][0] in ('l1', 'l2sq'):
        return _np_prox(spec[2], sigma * spec[1], a)
    if k == 'trans':
        c = np.asarray(spec[1], dtype=float)
        r = _np_prox(spec[2], sigma, a - c)
        return None if r is None else c + r
    return None


def _np_grad(spec, a):
    k = spec[0]
    if k == 'zero':
        return np.zeros_like(a)
    if k == 'l2sq':
        return 2.0 * a
    if k == 'scaled':
        r = _np_grad(spec[2], a)
        return None if r is None else spec[1] * r
    if k == 'trans':
        return _np_grad(spec[2], a - np.asarray(spec[1], dtype=float))
    if k == 'l2sqdata':
        M = np.array(spec[1], dtype=float)
        return 2.0 * (M.T @ (M @ a - np.asarray(spec[2], dtype=float)))
    if k == 'nlsq':
        op = _np_op(spec[1])
        if op is None:
            return None
        A, dadj = op
        return dadj(a, 2.0 * (A(a) - np.asarray(spec[2], dtype=float)))
    return None


def _np_ccgrad(spec, y):
    """gradient of the conjugate (strongly convex quadratic members)"""
    if spec[0] == 'l2sq':
        return y / 2.0
    if spec[0] == 'scaled' and spec[2][0] == 'l2sq':
        return y / (2.0 * spec[1])
    if spec[0] == 'trans':
        r = _np_ccgrad(spec[2], y)
        return None if r is None else r + np.asarray(spec[1], dtype=float)
    return None


def _np_project(p, x):
    if p is None:
        return x
    if p[0] == 'nonneg':
        return np.maximum(x, 0.0)
    return np.clip(x, p[1], p[2])


class _NoRef(Exception):
    pass


def _need(v):
    if v is None:
        raise _NoRef()
    return v


def _np_contract(d, inner=False):
    """callback-observed iterates of the DOCUMENTED iteration of d['solver'] in plain NumPy, or None
    (inner: callback_loop='inner' of kaczmarz / adupdates: one observation per operator)"""
    try:
        if d['solver'] == 'adupdates':
            return _np_adupdates(d, inner=inner)
        sv, N = d['solver'], d['niter']
        x = np.array(d['x0'], dtype=float)
        out = []
        if sv == 'landweber':
            A, dadj = _need(_np_op(d['op']))
            rhs = np.array(d['rhs'], dtype=float)
            for _ in range(N):
                x = _np_project(d.get('proj'), x - d['omega'] * dadj(x, A(x) - rhs))
                out.append(x.copy())
        elif sv == 'kaczmarz':
            ops = [_need(_np_op(o)) for o in d['ops']]
            for _ in range(N):
                for (A, dadj), r, w in zip(ops, d['rhs'], d['omega']):
                    x = _np_project(d.get('proj'), x - w * dadj(x, A(x) - np.array(r, dtype=float)))
                    if inner:
                        out.append(x.copy())
                if not inner:
                    out.append(x.copy())
        elif sv == 'steepest_descent':
            for _ in range(N):
                g = _need(_np_grad(d['f'], x))
                if abs(-float(g @ g)) < d['tol']:
                    break
                x = _np_project(d.get('proj'), x - d['step'] * g)
                out.append(x.copy())
        elif sv == 'proximal_gradient':
            for _ in range(N):
                p = _need(_np_prox(d['f'], d['gamma'], x - d['gamma'] * _need(_np_grad(d['g'], x))))
                x = (1.0 - d['lam']) * x + d['lam'] * p
                out.append(x.copy())
        elif sv == 'accelerated_proximal_gradient':
            y, t = x.copy(), 1.0
            for _ in range(N):
                t, t_old = (1.0 + np.sqrt(1.0 + 4.0 * t ** 2)) / 2.0, t
                alpha = (t_old - 1.0) / t
                tmp = y - d['gamma'] * _need(_np_grad(d['g'], y))
                y = x
                x = _need(_np_prox(d['f'], d['gamma'], tmp))
                y = (1.0 + alpha) * x - alpha * y
                out.append(x.copy())
        elif sv == 'dca':
            for _ in range(N):
                x = _need(_np_ccgrad(d['f'], _need(_np_grad(d['g'], x))))
                out.append(x.copy())
        elif sv == 'prox_dca':
            for _ in range(N):
                x = _need(_np_prox(d['f'], d['gamma'], x + d['gamma'] * _need(_np_grad(d['g'], x))))
                out.append(x.copy())
        elif sv == 'doubleprox_dc':
            K, kadj = _need(_np_op(d['op']))
            y = np.array(d['y0'], dtype=float)
            for _ in range(N):
                x = _need(_np_prox(d['f'], d['gamma'], x + d['gamma'] * (kadj(x, y) - _need(_np_grad(d['phi'], x)))))
                y = _need(_np_ccprox(d['g'], d['mu'], y + d['mu'] * K(x)))
                out.append(x.copy())
        elif sv == 'pdhg':
            L, ladj = _need(_np_op(d['op']))
            xr, y = x.copy(), np.zeros(len(d['op'][1]) if d['op'][0] != 'id' else len(x))
            for _ in range(N):
                x_old = x
                y = _need(_np_ccprox(d['g'], d['sigma'], y + d['sigma'] * L(xr)))
                x = _need(_np_prox(d['f'], d['tau'], x - d['tau'] * ladj(x, y)))
                xr = (1.0 + d['theta']) * x - d['theta'] * x_old
                out.append(x.copy())
        elif sv in ('mlem', 'osmlem'):
            Ms = [np.array(o[1], dtype=float) for o in d['ops']]
            eps = 1e-8
            sens = d.get('sens')
            if sens is None:
                sv_ = [np.maximum(M.T @ np.ones(M.shape[0]), eps) for M in Ms]
            elif isinstance(sens, (int, float)):
                sv_ = [float(sens)] * len(Ms)
            else:
                sv_ = [np.array(s_, dtype=float) for s_ in sens]
            for _ in range(N):
                for M, dat, s_ in zip(Ms, d['data'], sv_):
                    x = x * ((M.T @ (np.array(dat, dtype=float) / np.maximum(M @ x, eps))) / s_)
                    out.append(x.copy())
        else:
            return None
        return out
    except _NoRef:
        return None


def _snap(objs):
    """deep copy of the VALUES of argument objects: elements, arrays, floats, (nested) lists of them"""
    import odl
    if isinstance(objs, dict):
        return {k: _snap(v) for k, v in objs.items()}
    if isinstance(objs, (list, tuple)):
        return [_snap(v) for v in objs]
    if isinstance(objs, odl.Operator) and hasattr(objs, 'matrix'):
        return np.array(objs.matrix, dtype=float, copy=True)
    if isinstance(objs, odl.Operator):
        return None
    if isinstance(objs, odl.set.space.LinearSpaceElement):
        return _flat(objs)
    if isinstance(objs, np.ndarray):
        return objs.copy()
    return objs


def _same(a, b):
    if isinstance(a, dict):
        return all(_same(a[k], b[k]) for k in a)
    if isinstance(a, list):
        return isinstance(b, list) and len(a) == len(b) and all(_same(u, v) for u, v in zip(a, b))
    if isinstance(a, np.ndarray):
        return isinstance(b, np.ndarray) and a.shape == b.shape and bool(np.array_equal(a, b, equal_nan=True))
    return a == b or (a is None and b is None)


def _build_call(d):
    """(args, call, init, resumable): the argument objects of the problem d (created once) and
    call(state, niter, callback=None, **extra_keywords)"""
    import odl
    from odl.solvers.nonsmooth.admm import admm_linearized
    from odl.solvers.nonsmooth.alternating_dual_updates import adupdates
    from odl.solvers.nonsmooth.difference_convex import doubleprox_dc, dca, prox_dca
    from odl.solvers.nonsmooth.primal_dual_hybrid_gradient import pdhg
    from odl.solvers.nonsmooth.proximal_gradient_solvers import proximal_gradient, accelerated_proximal_gradient
    from odl.solvers.nonsmooth.douglas_rachford import douglas_rachford_pd
    from odl.solvers.iterative.iterative import landweber, kaczmarz
    from odl.solvers.iterative.statistical import mlem, osmlem
    from odl.solvers.smooth.gradient import steepest_descent
    sv, N = d['solver'], d['niter']
    args = {}           # the argument objects, created ONCE and passed to every call
    resumable = True
    nstate = 1
    if sv == 'landweber':
        A = _pop(d['op'])
        args = {'op': A, 'rhs': _el(A.range, d['rhs']), 'omega': d['omega']}
        pr = _projection(d.get('proj'))
        dom = A.domain
        call = lambda st, it, cb=None, **e: landweber(args['op'], st[0], args['rhs'], it, omega=args['omega'],
                                                projection=pr, callback=cb, **e)
    elif sv == 'kaczmarz':
        ops = [_pop(o) for o in d['ops']]
        args = {'ops': ops, 'rhs': [_el(o.range, r) for o, r in zip(ops, d['rhs'])], 'omega': list(d['omega'])}
        pr = _projection(d.get('proj'))
        dom = ops[0].domain
        call = lambda st, it, cb=None, **e: kaczmarz(args['ops'], st[0], args['rhs'], it, omega=args['omega'],
                                               projection=pr, callback=cb, **e)
    elif sv == 'steepest_descent':
        dom = odl.rn(len(d['x0']))
        args = {'f': _pf(d['f'], dom)}
        pr = _projection(d.get('proj'))
        call = lambda st, it, cb=None, **e: steepest_descent(args['f'], st[0], line_search=d['step'], maxiter=it,
                                                       tol=d['tol'], projection=pr, callback=cb, **e)
    elif sv in ('proximal_gradient', 'accelerated_proximal_gradient'):
        dom = odl.rn(len(d['x0']))
        args = {'f': _pf(d['f'], dom), 'g': _pf(d['g'], dom)}
        if sv == 'proximal_gradient':
            call = lambda st, it, cb=None, **e: proximal_gradient(st[0], args['f'], args['g'], d['gamma'], it, callback=cb,
                                                            lam=d['lam'], **e)
        else:
            resumable = False
            call = lambda st, it, cb=None, **e: accelerated_proximal_gradient(st[0], args['f'], args['g'], d['gamma'], it,
                                                                        callback=cb, **e)
    elif sv in ('dca', 'prox_dca'):
        dom = odl.rn(len(d['x0']))
        args = {'f': _pf(d['f'], dom), 'g': _pf(d['g'], dom)}
        if sv == 'dca':
            call = lambda st, it, cb=None, **e: dca(st[0], args['f'], args['g'], it, callback=cb, **e)
        else:
            call = lambda st, it, cb=None, **e: prox_dca(st[0], args['f'], args['g'], it, d['gamma'], callback=cb, **e)
    elif sv == 'doubleprox_dc':
        K = _pop(d['op'])
        dom = K.domain
        args = {'K': K, 'f': _pf(d['f'], dom), 'g': _pf(d['g'], K.range), 'phi': _pf(d['phi'], dom)}
        nstate = 2
        call = lambda st, it, cb=None, **e: doubleprox_dc(st[0], st[1], args['f'], args['phi'], args['g'], args['K'], it,
                                                    d['gamma'], d['mu'], callback=cb, **e)
    elif sv == 'pdhg':
        L = _pop(d['op'])
        dom = L.domain
        args = {'L': L, 'f': _pf(d['f'], dom), 'g': _pf(d['g'], L.range)}
        nstate = 3
        call = lambda st, it, cb=None, **e: pdhg(st[0], args['f'], args['g'], args['L'], it, d['tau'], d['sigma'],
                                           theta=d['theta'], x_relax=st[1], y=st[2], callback=cb, **e)
    elif sv in ('mlem', 'osmlem'):
        ops = [_pop(o) for o in d['ops']]
        dom = ops[0].domain
        args = {'ops': ops, 'data': [_el(o.range, r) for o, r in zip(ops, d['data'])]}
        kw = {}
        sens = d.get('sens')
        if sens is not None:
            args['sens'] = sens if isinstance(sens, (int, float)) else [dom.element(s_) for s_ in sens]
            kw = {'sensitivities': None}
        if sv == 'mlem':
            def call(st, it, cb=None, **e):
                sv_ = args.get('sens')
                if isinstance(sv_, list) and d.get('sens_as') == 'element':
                    sv_ = sv_[0]
                elif isinstance(sv_, list) and d.get('sens_as') == 'ndarray':
                    sv_ = np.asarray(sv_[0])
                k2 = {'sensitivities': sv_} if kw else {}
                mlem(args['ops'][0], st[0], args['data'][0], it, callback=cb, **dict(k2, **e))
        else:
            def call(st, it, cb=None, **e):
                k2 = {'sensitivities': args['sens']} if kw else {}
                osmlem(args['ops'], st[0], args['data'], it, callback=cb, **dict(k2, **e))
    elif sv == 'admm_linearized':
        L = _pop(d['op'])
        dom = L.domain
        args = {'L': L, 'f': _pf(d['f'], dom), 'g': _pf(d['g'], L.range)}
        resumable = False
        call = lambda st, it, cb=None, **e: admm_linearized(st[0], args['f'], args['g'], args['L'], d['tau'], d['sigma'], it,
                                                      callback=cb, **e)
    elif sv == 'adupdates':
        Ls = [_pop(o) for o in d['ops']]
        dom = Ls[0].domain
        args = {'L': Ls, 'g': [_pf(s_, Li.range) for s_, Li in zip(d['gs'], Ls)],
                'inner': [_inner_step(v, Li.range) for v, Li in zip(d['inner'], Ls)]}
        resumable = False
        call = lambda st, it, cb=None, **e: adupdates(st[0], args['g'], args['L'], d['stepsize'], args['inner'], it,
                                                callback=cb, **e)
    elif sv == 'douglas_rachford_pd':
        Ls = [_pop(o) for o in d['ops']]
        dom = Ls[0].domain
        args = {'L': Ls, 'f': _pf(d['f'], dom), 'g': [_pf(s_, Li.range) for s_, Li in zip(d['gs'], Ls)],
                'sigma': list(d['sigma'])}
        resumable = False
        call = lambda st, it, cb=None, **e: douglas_rachford_pd(st[0], args['f'], args['g'], args['L'], it, tau=d['tau'],
                                                          sigma=args['sigma'], callback=cb, **e)
    else:
        raise ValueError(sv)

    def init():
        x = _el(dom, d['x0'])
        if nstate == 1:
            return [x]
        if nstate == 2:
            return [x, _el(args['K'].range, d['y0'])]
        return [x, x.copy(), args['L'].range.zero()]
    return args, call, init, resumable


def _contract(d):
    """The contract of one solver on one problem:
       (1) its callback-observed iterates are those of an independent NumPy transcription of the documented
           iteration (operators / functionals may be NONLINEAR: derivatives and gradients capture the point);
       (2) a call modifies nothing but x (and the state it documents: x_relax, y of pdhg; y of doubleprox_dc):
           every other argument object -- rhs, data, lists such as sensitivities or omega, matrices -- compares
           equal to a deep copy taken before the call;
       (3) for the resumable solvers: n1 iterations, then N - n1 with THE SAME argument objects, for every n1
           (the first call may have niter = 0), ends where one call with N ends."""
    sv, N = d['solver'], d['niter']
    args, call, init, resumable = _build_call(d)

    before = _snap(args)
    st = init()
    tr = []
    call(st, N, lambda v: tr.append(_flat(v)))
    why = []
    if not _same(before, _snap(args)):
        why.append('an argument other than x was modified by the call')
    want = [_flat(v) for v in st]
    ref = _np_contract(d)
    sc = _scale(tr, *want)
    if ref is not None and np.all(np.isfinite(np.array(ref, dtype=float))) if ref else ref is not None:
        if not (len(tr) == len(ref) and _close(tr, ref, sc)):
            why.append('iterates differ from the NumPy transcription of the documented iteration')
            return False, {'why': why, 'iterates': np.array(tr).tolist()}, {'numpy': np.array(ref).tolist()}
    got = want
    if resumable:
        for n1 in range(N + 1):
            st = init()
            call(st, n1)
            if not _same(before, _snap(args)):
                why.append('an argument other than x was modified by a call with niter=%d' % n1)
            call(st, N - n1)
            got = [_flat(v) for v in st]
            if not all(_close(a, b, sc) for a, b in zip(got, want)):
                why.append('%d then %d iterations with the same argument objects differ from %d at once' % (n1, N - n1, N))
            if why:
                break
    return (not why), {'why': why, 'final': [g.tolist() for g in got]}, {'final': [w.tolist() for w in want]}


def _contract_probes(rng, count):
    """random problems of the contract family; nonlinear operators / functionals in about half of them"""
    out = []
    solvers = ['landweber', 'kaczmarz', 'steepest_descent', 'proximal_gradient', 'accelerated_proximal_gradient', 'dca',
               'prox_dca', 'doubleprox_dc', 'pdhg', 'mlem', 'osmlem', 'osmlem', 'admm_linearized', 'adupdates',
               'douglas_rachford_pd']
    npfam = [['zero'], ['l1'], ['l2sq'], ['box', -1.0, 2.0], ['nonneg'], ['scaled', 0.5, ['l1']], ['scaled', 2.0, ['l2sq']]]

    def small(n):
        return [rng.choice([-1.0, -0.5, 0.5, 1.0, 0.25]) for _ in range(n)]

    def nlop(m, n):
        k = rng.choice(['rn', 'matsq', 'sqmat', 'matsq'])
        return [k, _mat(rng, m, n, -1, 1) if k != 'rn' else _mat(rng, m, n)]

    def smooth(n):
        k = rng.choice(['nlsq', 'nlsq', 'l2sqdata', 'l2sq'])
        if k == 'nlsq':
            m = rng.randint(1, 3)
            return ['nlsq', [rng.choice(['matsq', 'sqmat']), _mat(rng, m, n, -1, 1)], small(m)]
        if k == 'l2sqdata':
            m = rng.randint(1, 3)
            return ['l2sqdata', _mat(rng, m, n), small(m)]
        return ['scaled', rng.choice([0.5, 2.0]), ['l2sq']]

    # fixed members: mlem with ONE element as sensitivities (the documented form); landweber with x -> M (x.x)
    out.append(({'kind': 'contract', 'solver': 'mlem', 'x0': [1.0, 1.0], 'niter': 2, 'ops': [['rn', [[1.0, 2.0], [0.0, 1.0]]]],
                 'data': [[3.0, 1.0]], 'sens': [[0.5, 4.0]], 'sens_as': 'element'}, 'contract-mlem-sensitivities=element'))
    out.append(({'kind': 'contract', 'solver': 'mlem', 'x0': [1.0, 2.0], 'niter': 2, 'ops': [['rn', [[1.0, 2.0], [0.0, 1.0]]]],
                 'data': [[3.0, 1.0]], 'sens': [[0.5, 4.0]], 'sens_as': 'ndarray'}, 'contract-mlem-sensitivities=ndarray'))
    out.append(({'kind': 'contract', 'solver': 'landweber', 'x0': [1.0, -0.5], 'niter': 3, 'op': ['matsq', [[1.0, 1.0], [0.0, -1.0]]],
                 'rhs': [0.5, 0.25], 'omega': 0.0625, 'proj': None}, 'contract-landweber-matsq'))
    for i in range(count):
        sv = solvers[i % len(solvers)]
        n = rng.randint(1, 3)
        N = rng.choice([2, 3, 4, 5])
        d = {'kind': 'contract', 'solver': sv, 'x0': small(n), 'niter': N}
        tag = ''
        if sv == 'landweber':
            m = rng.randint(1, 3)
            d.update(op=nlop(m, n), rhs=small(m), omega=rng.choice([0.03125, 0.0625]),
                     proj=rng.choice([None, ['nonneg'], ['box', -1.0, 2.0]]))
            tag = d['op'][0]
        elif sv == 'kaczmarz':
            ms = [rng.randint(1, 2) for _ in range(rng.choice([1, 2, 3]))]
            d.update(ops=[nlop(m, n) for m in ms], rhs=[small(m) for m in ms],
                     omega=[rng.choice([0.03125, 0.0625]) for _ in ms], proj=rng.choice([None, ['nonneg']]))
            tag = '+'.join(o[0] for o in d['ops'])
        elif sv == 'steepest_descent':
            d.update(f=smooth(n), step=rng.choice([0.015625, 0.03125]), tol=rng.choice([1e-16, 0.001]),
                     proj=rng.choice([None, ['box', -1.0, 2.0]]))
            tag = d['f'][0]
        elif sv in ('proximal_gradient', 'accelerated_proximal_gradient', 'prox_dca'):
            d.update(f=rng.choice(npfam), g=smooth(n), gamma=rng.choice([0.015625, 0.03125]), lam=rng.choice([1.0, 0.5, 1.5]))
            tag = d['g'][0]
        elif sv == 'dca':
            d.update(f=['scaled', rng.choice([1.0, 2.0, 4.0]), ['l2sq']], g=smooth(n))
            tag = d['g'][0]
        elif sv == 'doubleprox_dc':
            m = rng.randint(1, 3)
            d.update(op=['rn', _mat(rng, m, n)], f=rng.choice(npfam), g=rng.choice(npfam), phi=smooth(n),
                     gamma=rng.choice([0.015625, 0.03125]), mu=0.25, y0=small(m))
            tag = d['phi'][0]
        elif sv == 'pdhg':
            m = rng.randint(1, 3)
            d.update(op=nlop(m, n), f=rng.choice(npfam), g=rng.choice(npfam), tau=0.0625, sigma=0.0625,
                     theta=rng.choice([1, 0.5, 0]))
            tag = d['op'][0]
        elif sv in ('mlem', 'osmlem'):
            ms = [rng.randint(1, 3) for _ in range(1 if sv == 'mlem' else rng.choice([2, 3]))]
            d.update(ops=[['rn', _mat(rng, m, n, 0, 3)] for m in ms], data=[[float(rng.randint(0, 5)) for _ in range(m)] for m in ms],
                     x0=[rng.choice([0.5, 1.0, 2.0]) for _ in range(n)])
            mode = rng.choice(['default', 'scalar', 'list', 'list'])
            if mode == 'scalar':
                d['sens'] = rng.choice([0.5, 2.0, 4.0])
            elif mode == 'list':
                d['sens'] = [[rng.choice([0.5, 1.0, 2.0, 4.0]) for _ in range(n)] for _ in ms]
                if sv == 'mlem' and rng.random() < 0.67:     # the documented form for mlem: ONE domain element(-like)
                    d['sens_as'] = mode = rng.choice(['element', 'ndarray'])
            tag = 'sensitivities=' + mode
        elif sv == 'admm_linearized':
            m = rng.randint(1, 3)
            d.update(op=['rn', _mat(rng, m, n)], f=rng.choice(npfam), g=rng.choice(npfam), tau=0.25, sigma=2.0)
        elif sv == 'adupdates':
            ms = [rng.randint(1, 2) for _ in range(rng.choice([1, 2]))]
            d.update(ops=[['rn', _mat(rng, m, n)] for m in ms], gs=[rng.choice(ARRAY_SIGMA_OK[:7]) for _ in ms],
                     inner=[rng.choice([_dy(rng), ['list', [_dy(rng) for _ in range(m)]]]) for m in ms],
                     stepsize=rng.choice([0.5, 1.0, 2.5]))
        elif sv == 'douglas_rachford_pd':
            ms = [rng.randint(1, 2) for _ in range(rng.choice([1, 2]))]
            d.update(ops=[['rn', _mat(rng, m, n)] for m in ms], f=rng.choice(npfam), gs=[rng.choice(npfam) for _ in ms],
                     tau=0.25, sigma=[_dy(rng) for _ in ms])
        out.append((d, 'contract-%s%s' % (sv, ('-' + tag) if tag else '')))
    return out


# ------------------------------------------------ functional pool x aliased proximal call sites
_ALIAS_COV = {}


def _pool(space_kind):
    """(space, [(name, constructor)]) : members covering every proximal factory reachable from odl.solvers"""
    import odl
    S = odl.solvers
    inf = float('inf')
    if space_kind == 'rn':
        X = odl.rn(3)
        pr, c = X.element([1., 2., 0.5]), X.element([0.5, -1., 0.25])
    elif space_kind == 'power':
        X = odl.ProductSpace(odl.rn(2), 2)
        pr, c = X.element([[1., 2.], [0.5, 1.5]]), X.element([[0.5, -1.], [0.25, 1.]])
    else:
        X = odl.ProductSpace(odl.ProductSpace(odl.rn(2), 2), 2)
        pr = c = None
    m = []
    if space_kind in ('rn', 'power'):
        m += [('L1Norm', lambda: S.L1Norm(X)), ('L2Norm', lambda: S.L2Norm(X)), ('L2NormSquared', lambda: S.L2NormSquared(X)),
              ('LpNorm(inf)', lambda: S.LpNorm(X, inf)), ('ZeroFunctional', lambda: S.ZeroFunctional(X)),
              ('ConstantFunctional', lambda: S.ConstantFunctional(X, 2.0)), ('IndicatorBox', lambda: S.IndicatorBox(X, -1, 2)),
              ('IndicatorNonnegativity', lambda: S.IndicatorNonnegativity(X)), ('IndicatorZero', lambda: S.IndicatorZero(X)),
              ('IndicatorLpUnitBall(1)', lambda: S.IndicatorLpUnitBall(X, 1)), ('IndicatorLpUnitBall(2)', lambda: S.IndicatorLpUnitBall(X, 2)),
              ('IndicatorLpUnitBall(inf)', lambda: S.IndicatorLpUnitBall(X, inf)),
              ('KullbackLeibler', lambda: S.KullbackLeibler(X, prior=pr)),
              ('KullbackLeibler.convex_conj', lambda: S.KullbackLeibler(X, prior=pr).convex_conj),
              ('KullbackLeiblerCrossEntropy', lambda: S.KullbackLeiblerCrossEntropy(X, prior=pr)),
              ('KullbackLeiblerCrossEntropy.convex_conj', lambda: S.KullbackLeiblerCrossEntropy(X, prior=pr).convex_conj),
              ('Huber', lambda: S.Huber(X, 0.5)), ('Huber.convex_conj', lambda: S.Huber(X, 0.5).convex_conj),
              ('IndicatorSimplex', lambda: S.IndicatorSimplex(X)), ('IndicatorSumConstraint', lambda: S.IndicatorSumConstraint(X)),
              ('FunctionalQuadraticPerturb(L1)', lambda: S.FunctionalQuadraticPerturb(S.L1Norm(X), quadratic_coeff=0.5, linear_term=c)),
              ('FunctionalQuadraticPerturb(KL)', lambda: S.FunctionalQuadraticPerturb(S.KullbackLeibler(X, prior=pr), quadratic_coeff=0.25)),
              ('L1Norm.translated', lambda: S.L1Norm(X).translated(c)), ('L2Norm.translated', lambda: S.L2Norm(X).translated(c)),
              ('Huber.translated', lambda: S.Huber(X, 0.5).translated(c)),
              ('2*L1Norm', lambda: 2.0 * S.L1Norm(X)), ('L1Norm*2', lambda: S.L1Norm(X) * 2.0),
              ('0.5*L2Norm', lambda: 0.5 * S.L2Norm(X)), ('QuadraticForm(linear)', lambda: S.QuadraticForm(vector=c, constant=1.0))]
    if space_kind == 'power':
        m += [('GroupL1Norm(exponent=2)', lambda: S.GroupL1Norm(X)), ('GroupL1Norm(exponent=1)', lambda: S.GroupL1Norm(X, exponent=1)),
              ('GroupL1Norm(2).translated', lambda: S.GroupL1Norm(X).translated(c)), ('3*GroupL1Norm(2)', lambda: 3.0 * S.GroupL1Norm(X)),
              ('IndicatorGroupL1UnitBall(2)', lambda: S.IndicatorGroupL1UnitBall(X)),
              ('SeparableSum(L1Norm, 2)', lambda: S.SeparableSum(S.L1Norm(X[0]), 2)),
              ('SeparableSum(L1Norm, L2NormSquared)', lambda: S.SeparableSum(S.L1Norm(X[0]), S.L2NormSquared(X[1]))),
              ('SeparableSum(KullbackLeibler, IndicatorBox)', lambda: S.SeparableSum(S.KullbackLeibler(X[0]), S.IndicatorBox(X[1], 0, 1))),
              ('SeparableSum(L2Norm, Huber)', lambda: S.SeparableSum(S.L2Norm(X[0]), S.Huber(X[1], 0.5)))]
    if space_kind == 'matrix':
        m += [('NuclearNorm', lambda: S.NuclearNorm(X)), ('2*NuclearNorm', lambda: 2.0 * S.NuclearNorm(X)),
              ('NuclearNorm.convex_conj', lambda: S.NuclearNorm(X).convex_conj),
              ('L1Norm', lambda: S.L1Norm(X)), ('L2NormSquared', lambda: S.L2NormSquared(X))]
    return X, m


def _alias_safe(f):
    """the same functional with proximals that NEVER see out aliased to the input (they work on a copy)"""
    import odl

    class SafeProx(odl.Operator):
        def __init__(self, inner):
            super(SafeProx, self).__init__(inner.domain, inner.range, linear=False)
            self.inner = inner

        def _call(self, x, out=None):
            res = self.inner(x.copy())
            if out is None:
                return res
            out.assign(res)

    class Safe(odl.solvers.Functional):
        def __init__(self, g):
            super(Safe, self).__init__(g.domain, linear=False)
            self.g = g

        def _call(self, x):
            return self.g(x)

        @property
        def gradient(self):
            return self.g.gradient

        @property
        def proximal(self):
            return lambda sigma: SafeProx(self.g.proximal(sigma))

        @property
        def convex_conj(self):
            return Safe(self.g.convex_conj)

    return Safe(f)


def _pool_start(X, seed):
    import odl
    r = np.random.RandomState(seed)

    def mk(sp):
        if isinstance(sp, odl.ProductSpace):
            return sp.element([mk(si) for si in sp])
        return sp.element(r.randint(-3, 4, sp.shape) + r.choice([0.0, 0.5], sp.shape))
    return mk(X)


# (solver, operator symbol of the aliased call) -> which argument is drawn from the pool
ALIAS_SLOTS = {('admm_linearized', 'f.proximal(tau)'): 'f', ('doubleprox_dc', 'f.proximal(gamma)'): 'f',
               ('doubleprox_dc', 'g.convex_conj.proximal(mu)'): 'g', ('prox_dca', 'f.proximal(gamma)'): 'f',
               ('douglas_rachford_pd', 'g[i].convex_conj.proximal(sigma[i])'): 'g',
               ('douglas_rachford_pd_l', 'l[i].convex_conj.proximal(sigma[i])'): 'l'}


def _alias_pool_eval(d):
    """One aliased proximal call site x one pool member: the solver run with the member in that slot gives the same
    iterates as the run where every proximal works on a copy of its input (never aliased) -- and, where a plain
    reference implementation ships, as the reference.  Returns (ok, observed, expected); a member without the
    needed proximal is skipped (ok, 'skipped')."""
    import odl
    from odl.solvers.nonsmooth.admm import admm_linearized, admm_linearized_simple
    from odl.solvers.nonsmooth.difference_convex import doubleprox_dc, doubleprox_dc_simple, prox_dca
    from odl.solvers.nonsmooth.douglas_rachford import douglas_rachford_pd
    S = odl.solvers
    X, members = _pool(d['space'])
    F = dict(members)[d['member']]()
    N, sv, slot = d['niter'], d['solver'], d['slot']
    x0 = _pool_start(X, d['seed'])
    I = odl.IdentityOperator(X)
    sq = S.L2NormSquared(X)

    def run(fn, member, simple=False):
        tr = []
        cb = lambda v: tr.append(_flat(v))
        x = x0.copy()
        if sv == 'admm_linearized':
            (admm_linearized_simple if simple else admm_linearized)(x, member, sq, I, 0.25, 1.0, N, callback=cb)
        elif sv == 'doubleprox_dc':
            y = X.zero()
            f_, g_ = (member, sq) if slot == 'f' else (sq, member)
            if simple:
                for j in range(1, N + 1):
                    x, y = x0.copy(), X.zero()
                    doubleprox_dc_simple(x, y, f_, 0.5 * sq, g_, I, j, 0.25, 0.25)
                    tr.append(np.concatenate([_flat(x), _flat(y)]))
            else:
                doubleprox_dc(x, y, f_, 0.5 * sq, g_, I, N, 0.25, 0.25,
                              callback=lambda v: tr.append(np.concatenate([_flat(v), _flat(y)])))
        elif sv == 'prox_dca':
            prox_dca(x, member, 0.5 * sq, N, 0.25, callback=cb)
        else:
            kw = {'l': [member]} if slot == 'l' else {}
            g_ = [S.L1Norm(X)] if slot == 'l' else [member]
            douglas_rachford_pd(x, sq, g_, [I], N, tau=0.5, sigma=[0.5], callback=cb, **kw)
        tr.append(np.concatenate([_flat(x), _flat(y)]) if sv == 'doubleprox_dc' else _flat(x))
        return tr

    try:
        want = run(None, _alias_safe(F))
    except Exception as e:          # the member has no (conjugate) proximal, or it fails un-aliased (not C11's subject)
        return True, 'skipped: %s' % type(e).__name__, None
    key = (sv, [k[1] for k in ALIAS_SLOTS if k[0] == (sv if slot != 'l' else sv + '_l') and ALIAS_SLOTS[k] == slot][0])
    _ALIAS_COV.setdefault('%s : %s' % key, set()).add('%s/%s' % (d['space'], d['member']))
    got = run(None, F)
    sc = _scale(*want)
    ok = len(got) == len(want) and all(_close(a, b, sc) for a, b in zip(got, want))
    if ok and sv in ('admm_linearized', 'doubleprox_dc'):
        ref = run(None, F, simple=True)
        cmp_ = got
        ok = len(ref) == len(cmp_) and all(_close(a, b, sc) for a, b in zip(cmp_, ref))
        if not ok:
            return False, {'optimised': [g.tolist() for g in cmp_]}, {'reference': [r.tolist() for r in ref]}
    return ok, {'aliased': [g.tolist() for g in got]}, {'proximals on copies': [w.tolist() for w in want]}


def _alias_pool_probes(niter=2):
    """every aliased proximal call site found in the regenerated programs x every pool member x every space kind"""
    sites = []
    try:
        found = TS.alias_sites()
    except Exception:            # the translator failed closed: use the pinned list of call sites
        found = [(a, b, None) for a, b in ALIAS_SLOTS]
    for sv, sym, _buf in found:
        if (sv, sym) in ALIAS_SLOTS and (sv, sym) not in sites:
            sites.append((sv, sym))
    out = []
    for sv, sym in sites:
        slot = ALIAS_SLOTS[(sv, sym)]
        for kind in ('rn', 'power', 'matrix'):
            for name, _ in _pool(kind)[1]:
                d = {'kind': 'alias-pool', 'solver': sv.replace('_l', '') if sv.endswith('_pd_l') else sv, 'slot': slot,
                     'space': kind, 'member': name, 'niter': niter, 'seed': 1 + len(out) % 5}
                out.append((d, 'alias-pool-%s-%s=%s-on-%s' % (d['solver'], slot, name, kind)))
    return out, sites


def extra_coverage():
    try:
        sites = TS.alias_sites()
    except Exception as e:
        sites = [(a, b, 'translator failed: %s' % str(e)[:80]) for a, b in ALIAS_SLOTS]
    try:
        sigs = dict((k, list(v)) for k, v in _signatures_now().items())
    except Exception as e:
        sigs = {'error': str(e)[:200]}
    return {'aliased_proximal_call_sites': ['%s : %s (out = %s)' % s_ for s_ in sites],
            'unmapped_aliased_call_sites': ['%s : %s' % (a, b) for a, b, _ in sites
                                            if (a, b) not in ALIAS_SLOTS and not a.startswith('douglas_rachford_pd_')
                                            and a != 'douglas_rachford_pd_noops'],
            'pool_members_exercised_per_site': {k: sorted(v) for k, v in sorted(_ALIAS_COV.items())},
            'solver_signatures': sigs,
            'solver_signatures_changed': sorted(k for k in SIGNATURES if sigs.get(k) != list(SIGNATURES[k]))}


# ------------------------------------------------------- callback protocol and signatures
SIGNATURES = {
    'admm_linearized': ('x', 'f', 'g', 'L', 'tau', 'sigma', 'niter', '**kwargs'),
    'admm_linearized_simple': ('x', 'f', 'g', 'L', 'tau', 'sigma', 'niter', '**kwargs'),
    'adupdates': ('x', 'g', 'L', 'stepsize', 'inner_stepsizes', 'niter', 'random=False', 'callback=None',
                  "callback_loop='outer'"),
    'adupdates_simple': ('x', 'g', 'L', 'stepsize', 'inner_stepsizes', 'niter', 'random=False'),
    'doubleprox_dc': ('x', 'y', 'f', 'phi', 'g', 'K', 'niter', 'gamma', 'mu', 'callback=None'),
    'doubleprox_dc_simple': ('x', 'y', 'f', 'phi', 'g', 'K', 'niter', 'gamma', 'mu'),
    'dca': ('x', 'f', 'g', 'niter', 'callback=None'),
    'prox_dca': ('x', 'f', 'g', 'niter', 'gamma', 'callback=None'),
    'pdhg': ('x', 'f', 'g', 'L', 'niter', 'tau=None', 'sigma=None', '**kwargs'),
    'proximal_gradient': ('x', 'f', 'g', 'gamma', 'niter', 'callback=None', '**kwargs'),
    'accelerated_proximal_gradient': ('x', 'f', 'g', 'gamma', 'niter', 'callback=None', '**kwargs'),
    'douglas_rachford_pd': ('x', 'f', 'g', 'L', 'niter', 'tau=None', 'sigma=None', 'callback=None', '**kwargs'),
    'landweber': ('op', 'x', 'rhs', 'niter', 'omega=None', 'projection=None', 'callback=None'),
    'kaczmarz': ('ops', 'x', 'rhs', 'niter', 'omega=1', 'projection=None', 'random=False', 'callback=None',
                 "callback_loop='outer'"),
    'mlem': ('op', 'x', 'data', 'niter', 'callback=None', '**kwargs'),
    'osmlem': ('op', 'x', 'data', 'niter', 'callback=None', '**kwargs'),
    'steepest_descent': ('f', 'x', 'line_search=1.0', 'maxiter=1000', 'tol=1e-16', 'projection=None', 'callback=None'),
}
HAS_CALLBACK_LOOP = ('kaczmarz', 'adupdates')
STRICT_KEYWORDS = ('dca', 'prox_dca', 'doubleprox_dc', 'landweber', 'steepest_descent', 'kaczmarz', 'adupdates',
                   'douglas_rachford_pd')      # no **kwargs (or leftovers rejected): an unknown keyword raises TypeError


def _solver_functions():
    from odl.solvers.nonsmooth.admm import admm_linearized, admm_linearized_simple
    from odl.solvers.nonsmooth.alternating_dual_updates import adupdates, adupdates_simple
    from odl.solvers.nonsmooth.difference_convex import doubleprox_dc, doubleprox_dc_simple, dca, prox_dca
    from odl.solvers.nonsmooth.primal_dual_hybrid_gradient import pdhg
    from odl.solvers.nonsmooth.proximal_gradient_solvers import proximal_gradient, accelerated_proximal_gradient
    from odl.solvers.nonsmooth.douglas_rachford import douglas_rachford_pd
    from odl.solvers.iterative.iterative import landweber, kaczmarz
    from odl.solvers.iterative.statistical import mlem, osmlem
    from odl.solvers.smooth.gradient import steepest_descent
    return dict((f.__name__, f) for f in (
        admm_linearized, admm_linearized_simple, adupdates, adupdates_simple, doubleprox_dc, doubleprox_dc_simple, dca,
        prox_dca, pdhg, proximal_gradient, accelerated_proximal_gradient, douglas_rachford_pd, landweber, kaczmarz, mlem,
        osmlem, steepest_descent))


def _signatures_now():
    import inspect
    return dict((n, tuple(str(p_) for p_ in inspect.signature(f).parameters.values()))
                for n, f in _solver_functions().items())


def _callback_eval(d):
    """The callback protocol of one solver on one problem (mode d['mode']):
       sequence   the sequence of callback invocations (count and iterate values) is the NumPy transcription's list
                  of iterates (callback_loop 'outer' / 'inner' where the option exists; count and last value where no
                  transcription exists)
       none       callback=None leaves the same final iterate
       composite  a composite callback (CallbackStore & CallbackStore) sees the same sequence in both parts
       bad-value  an unknown callback_loop value raises ValueError
       no-option  a solver without the option rejects callback_loop= with TypeError
       signature  the keyword set of the solver is the pinned one"""
    import odl
    C.setup_impl_path()
    mode, sv = d['mode'], d['solver']
    if mode == 'signature':
        now = _signatures_now().get(sv)
        return now == SIGNATURES[sv], {'signature': now}, {'pinned': SIGNATURES[sv]}
    N = d['niter']
    args, call, init, _ = _build_call(d)
    loop = d.get('loop')
    extra = {'callback_loop': loop} if loop else {}
    if mode in ('bad-value', 'no-option'):
        want = ValueError if mode == 'bad-value' else TypeError
        try:
            call(init(), N, lambda v: None, callback_loop=('sideways' if mode == 'bad-value' else 'inner'))
        except want:
            return True, want.__name__, want.__name__
        except Exception as e:
            return False, type(e).__name__, want.__name__
        return False, 'no exception', want.__name__
    st = init()
    tr = []
    call(st, N, lambda v: tr.append(_flat(v)), **extra)
    final = _flat(st[0])
    sc = _scale(tr, final)
    if mode == 'sequence':
        ref = _np_contract(d, inner=(loop == 'inner'))
        if ref is not None:
            ok = len(tr) == len(ref) and _close(tr, ref, sc)
            return ok, {'callbacks': np.array(tr).tolist()}, {'numpy': np.array(ref).tolist()}
        nops = len(d['ops']) if 'ops' in d else 1
        count = N * (nops if (loop == 'inner' or sv == 'osmlem') else 1)
        ok = len(tr) == count and (not tr or _close(tr[-1], final, sc))
        return ok, {'count': len(tr), 'last': tr[-1].tolist() if tr else None}, {'count': count, 'final': final.tolist()}
    if mode == 'none':
        st2 = init()
        call(st2, N, None, **extra)
        ok = _close(_flat(st2[0]), final, sc)
        return ok, _flat(st2[0]).tolist(), final.tolist()
    if mode == 'composite':
        s1, s2 = odl.solvers.CallbackStore(), odl.solvers.CallbackStore()
        st3 = init()
        call(st3, N, s1 & s2, **extra)
        t1 = [_flat(v) for v in s1.results]
        t2 = [_flat(v) for v in s2.results]
        ok = len(t1) == len(tr) and len(t2) == len(tr) and _close(t1, tr, sc) and _close(t2, tr, sc)
        return ok, {'part1': len(t1), 'part2': len(t2)}, {'plain': len(tr)}
    raise ValueError(mode)


def _callback_probes(rng, count):
    out = []
    for sv in sorted(SIGNATURES):
        out.append(({'kind': 'callback', 'mode': 'signature', 'solver': sv, 'niter': 0}, 'signature-%s' % sv))
    for d0, key in _contract_probes(rng, count):
        sv = d0['solver']
        if d0.get('sens_as') or 'sens' in d0 and sv == 'mlem':
            continue
        base = dict(d0, kind='callback')
        loops = ['outer', 'inner'] if sv in HAS_CALLBACK_LOOP else [None]
        for loop in loops:
            tag = '%s%s' % (sv, ('-callback_loop=' + loop) if loop else '')
            for mode in ('sequence', 'none', 'composite'):
                out.append((dict(base, mode=mode, loop=loop), 'callback-%s-%s' % (mode, tag)))
        if sv in HAS_CALLBACK_LOOP:
            out.append((dict(base, mode='bad-value'), 'callback-bad-value-%s' % sv))
        elif sv in STRICT_KEYWORDS:
            out.append((dict(base, mode='no-option'), 'callback-no-option-%s' % sv))
    return out


def _inner_step(v, ran):
    """inner step size of adupdates: a float, or ['list'|'array'|'element', values] (np.isscalar false)"""
    if isinstance(v, (list, tuple)):
        kind, vals = v
        if kind == 'list':
            return [float(a) for a in vals]
        if kind == 'array':
            return np.array(vals, dtype=float)
        if kind == 'element':
            return ran.element(vals)
        raise ValueError(v)
    return float(v)


def _np_ccprox(spec, step, a):
    """prox of step * (conjugate of spec) at a (entrywise step), or None when not in the small NumPy family"""
    k = spec[0]
    if k == 'zero':
        return np.zeros_like(a)
    if k == 'l1':
        return np.clip(a, -1.0, 1.0)
    if k == 'l2sq':
        return a / (1.0 + step / 2.0)
    if k == 'box':
        return a - step * np.clip(a / step, spec[1], spec[2])
    if k == 'nonneg':
        return np.minimum(a, 0.0)
    if k == 'scaled' and spec[2][0] == 'l1':
        return np.clip(a, -spec[1], spec[1])
    if k == 'scaled' and spec[2][0] == 'l2sq':
        return a / (1.0 + step / (2.0 * spec[1]))
    if k == 'trans':
        return _np_ccprox(spec[2], step, a - step * np.asarray(spec[1], dtype=float))
    return None


def _np_adupdates(d, inner=False):
    """iterates of the alternating dual updates (fixed order) in plain NumPy, or None"""
    if any(o[0] != 'rn' for o in d['ops']):
        return None
    Ms = [np.array(o[1], dtype=float) for o in d['ops']]
    s = float(d['stepsize'])
    steps = [s * (np.asarray(v[1], dtype=float) if isinstance(v, (list, tuple)) else float(v)) for v in d['inner']]
    x = np.array(d['x0'], dtype=float)
    duals = [np.zeros(M.shape[0]) for M in Ms]
    out = []
    for _ in range(d['niter']):
        for M, dl in zip(Ms, duals):
            x = x - (1.0 / s) * (M.T @ dl)
        for j, M in enumerate(Ms):
            t = _np_ccprox(d['gs'][j], steps[j], duals[j] + steps[j] * (M @ x))
            if t is None:
                return None
            x = x - (1.0 / s) * (M.T @ (t - duals[j]))
            duals[j] = t
            if inner:
                out.append(x.copy())
        if not inner:
            out.append(x.copy())
    return out


def _projection(p):
    if p is None:
        return None
    if p[0] == 'nonneg':
        return lambda x: x.ufuncs.maximum(0, out=x)
    lo, hi = p[1], p[2]

    def pr(x):
        x[:] = np.clip(np.asarray(x), lo, hi)
    return pr


def _replay(d):
    return ("import sys\nsys.path.insert(0, %r)\nfrom harness.c11 import probe_eval\n"
            "ok, observed, expected = probe_eval(%r)\n" % (C.VERIF, d))


def _spec_name(s):
    if s[0] in ('scaled', 'argscaled', 'trans'):
        return s[0] + '-' + _spec_name(s[2])
    return s[0]


def _rand_spec(rng, n, role, pspace=False, plain_rn=True):
    """role: 'prox' (any functional with a proximal), 'smooth' (has a gradient)"""
    if role == 'smooth':
        k = rng.choice(['l2sq', 'l2sqdata', 'quadform', 'zero', 'trans-l2sq', 'huber'])
        if k == 'l2sqdata' and not plain_rn:
            k = 'l2sq'
        if k == 'l2sqdata':
            mm = rng.randint(1, 3)
            return ['l2sqdata', _mat(rng, mm, n), _vec(rng, mm)]
        if k == 'quadform':
            return ['quadform', _vec(rng, n), float(rng.randint(-2, 2))]
        if k == 'trans-l2sq':
            return ['trans', _vec(rng, n), ['scaled', rng.choice([0.5, 2.0]), ['l2sq']]]
        if k == 'huber':
            return ['huber', rng.choice([0.5, 1.0])]
        return [k]
    kinds = ['l1', 'l1', 'l2', 'l2sq', 'box', 'nonneg', 'kl', 'klcc', 'ball2', 'ballinf', 'zero', 'scaled', 'trans',
             'argscaled']
    if pspace:
        kinds += ['groupl1', 'groupl1', 'gl1ball']
    else:
        kinds += ['huber']
    k = rng.choice(kinds)
    if k == 'box':
        lo = float(rng.randint(-2, 0))
        return ['box', lo, lo + rng.choice([0.5, 1.0, 3.0])]
    if k in ('kl', 'klcc'):
        return [k, [rng.choice([0.5, 1.0, 2.0, 3.0]) for _ in range(n)] if rng.random() < 0.7 else None]
    if k == 'huber':
        return ['huber', rng.choice([0.25, 1.0])]
    if k == 'ball2':
        return ['ball', 2]
    if k == 'ballinf':
        return ['ball', float('inf')]
    if k == 'scaled':
        return ['scaled', rng.choice([0.5, 2.0, 3.0]), _rand_spec(rng, n, role, pspace)]
    if k == 'argscaled':
        return ['argscaled', rng.choice([0.5, 2.0, 0.25]), _rand_spec(rng, n, role, pspace)]
    if k == 'trans':
        return ['trans', _vec(rng, n), _rand_spec(rng, n, role, pspace)]
    return [k]


def _rand_op(rng, tier, allow_grad=True):
    """returns (op description, domain size, range size (flattened), range is a power space)"""
    r = rng.random()
    if allow_grad and r < 0.2:
        n = rng.randint(2, 5)
        return ['grad', n, rng.choice(['forward', 'backward', 'central'])], n, n, True
    if allow_grad and r < 0.28:
        sh = [rng.randint(2, 3), rng.randint(2, 3)]
        return ['grad2d', sh, rng.choice(['forward', 'backward'])], sh[0] * sh[1], 2 * sh[0] * sh[1], True
    n, m = rng.randint(1, 4), rng.randint(1, 4)
    if r < 0.36:
        return ['id', n], n, n, False
    if r < 0.44:
        return ['rnw', _mat(rng, m, n), rng.choice([0.5, 2.0]), rng.choice([0.25, 4.0])], n, m, False
    if r < 0.56:
        return ['multiply', [rng.choice([-2.0, 0.5, 1.0, 3.0]) for _ in range(n)]], n, n, False
    if r < 0.6:
        return ['scale', n, rng.choice([0.5, -2.0, 2.5])], n, n, False
    return ['rn', _mat(rng, m, n)], n, m, False


ARRAY_SIGMA_OK = [['l1'], ['l2sq'], ['zero'], ['nonneg'], ['box', -1.0, 2.0], ['scaled', 2.0, ['l1']],
                  ['scaled', 0.5, ['l2sq']], ['trans', None, ['l2sq']], ['trans', None, ['l1']]]


def _adup_stepsize_probes(rng, count, base=None):
    """adupdates problems over matrix operators whose inner step sizes are scalars, lists, arrays or range
    elements, outer stepsize in {0.5, 1, 2.5}.  The first one is fixed: two operators, stepsize 2.5,
    element-valued inner step sizes, niter in 1, 2, 3, 5.  With `base` (a probe description) only the step
    sizes are varied."""
    out = []
    if base is None:
        for N in (1, 2, 3, 5):
            d = {'kind': 'adupdates-vs-simple', 'ops': [['rn', [[1.0, 2.0, 0.0], [0.0, -1.0, 1.0]]], ['rn', [[2.0, 0.0, -1.0]]]],
                 'gs': [['l2sq'], ['scaled', 0.5, ['l2sq']]], 'inner': [['element', [0.5, 0.25]], ['element', [0.125]]],
                 'stepsize': 2.5, 'x0': [1.0, -2.0, 3.0], 'niter': N}
            out.append((d, 'adupdates-vs-simple-inner=element-stepsize=2.5'))
    for _ in range(count):
        if base is None:
            n = rng.randint(1, 4)
            ms = [rng.randint(1, 3) for _ in range(rng.choice([1, 2, 2, 3]))]
            gs = []
            for m in ms:
                g = rng.choice(ARRAY_SIGMA_OK)
                gs.append(['trans', _vec(rng, m, -2, 2), g[2]] if g[0] == 'trans' else g)
            d = {'kind': 'adupdates-vs-simple', 'ops': [['rn', _mat(rng, m, n)] for m in ms], 'gs': gs,
                 'x0': _vec(rng, n), 'niter': rng.choice([1, 2, 3, 5])}
        else:
            d = dict(base)
            ms = [len(o[1]) for o in d['ops']]
        kinds = [rng.choice(['scalar', 'list', 'array', 'element']) for _ in ms]
        if all(k == 'scalar' for k in kinds):
            kinds[rng.randrange(len(kinds))] = rng.choice(['list', 'array', 'element'])
        d['inner'] = [_dy(rng) if k == 'scalar' else [k, [_dy(rng) for _ in range(m)]] for k, m in zip(kinds, ms)]
        d['stepsize'] = rng.choice([0.5, 1.0, 2.5, 2.5])
        out.append((d, 'adupdates-vs-simple-inner=%s-stepsize=%g' % ('+'.join(kinds), d['stepsize'])))
    return out


def probes(rng, tier):
    out = []
    reps = 1 if tier == 'quick' else 6

    def add(d, key, what):
        try:
            ok, obs, exp = probe_eval(d)
            det = None if ok else {'observed': obs, 'expected': exp}
        except Exception as e:       # a solver that raises on a valid problem also fails the property
            ok, det = False, {'raised': '%s: %s' % (type(e).__name__, str(e)[:300])}
        out.append(C.Probe(bool(ok), key, what, _replay(d), det))

    def family(name, gen, what):
        """run one generated probe family; a generator that raises (translator failed closed, changed signature,
        ...) becomes ONE failing probe instead of crashing the harness"""
        try:
            items = list(gen())
        except Exception as e:
            out.append(C.Probe(False, 'probe-family-%s-could-not-be-generated' % name, what, None,
                               {'raised': '%s: %s' % (type(e).__name__, str(e)[:300])}))
            return
        for d, key in items:
            add(d, key, what)

    # every aliased proximal call site x the whole functional pool (all space kinds)
    _ALIAS_COV.clear()
    family('alias-pool', lambda: _alias_pool_probes(2 if tier == 'quick' else 3)[0],
           'solver with this functional in the aliased-proximal slot = the same run with proximals working on copies '
           '(= the shipped reference where there is one)')
    # callback protocol: sequence of invocations, callback=None, composite callbacks, option values, signatures
    family('callback', lambda: _callback_probes(rng, 15 * reps),
           'callback protocol: the sequence of callback invocations is the documented one (NumPy transcription), '
           'callback=None / composite callbacks agree, unknown option values raise, keyword sets are the pinned ones')
    # contract family: NumPy transcription incl. nonlinear operators, unchanged inputs, same objects on continuation
    family('contract', lambda: _contract_probes(rng, 45 * reps),
           'iterates = NumPy transcription of the documented iteration; no argument but x is modified; '
           'n then m iterations with the same argument objects = n+m')
    for _ in range(25 * reps):
        op, n, m, ps = _rand_op(rng, tier)
        f, g = _rand_spec(rng, n, 'prox'), _rand_spec(rng, m, 'prox', ps)
        d = {'kind': 'admm-vs-simple', 'op': op, 'f': f, 'g': g, 'tau': _dy(rng), 'sigma': _dy(rng, (0.5, 1.0, 2.0, 4.0)),
             'x0': _vec(rng, n), 'niter': rng.randint(1, 6 if tier == 'quick' else 15)}
        add(d, 'admm-vs-simple-f=%s-g=%s' % (_spec_name(f), _spec_name(g)),
            'admm_linearized and admm_linearized_simple give the same callback-observed iterates (op %s)' % op[0])
    for _ in range(20 * reps):
        nops = rng.choice([1, 2, 3])
        n = rng.randint(1, 4)
        ops, gs = [], []
        for j in range(nops):
            if rng.random() < 0.25:
                ops.append(['id', n]); mm, ps = n, False
            elif rng.random() < 0.2 and n >= 2:
                ops.append(['grad', n, 'forward']); mm, ps = n, True
            else:
                mm = rng.randint(1, 3) if not (j and rng.random() < 0.5 and ops[0][0] == 'rn') else len(ops[0][1])
                ops.append(['rn', _mat(rng, mm, n)]); ps = False
            gs.append(_rand_spec(rng, mm, 'prox', ps))
        if any(o[0] == 'grad' for o in ops):      # all domains must be equal: use the discretized space throughout
            ops = [o if o[0] == 'grad' else ['grad', n, 'backward'] for o in ops]
            gs = [_rand_spec(rng, n, 'prox', True) for _ in ops]
        d = {'kind': 'adupdates-vs-simple', 'ops': ops, 'gs': gs, 'inner': [_dy(rng) for _ in ops],
             'stepsize': _dy(rng, (0.5, 1.0, 2.0)), 'x0': _vec(rng, n), 'niter': rng.randint(1, 5 if tier == 'quick' else 12)}
        add(d, 'adupdates-vs-simple-g=%s' % '+'.join(_spec_name(s) for s in gs),
            'adupdates (outer and inner callbacks) and adupdates_simple give the same iterates')
    # non-scalar inner step sizes (list / array / element valued) with an outer stepsize != 1
    for d, key in _adup_stepsize_probes(rng, 6 * reps):
        add(d, key, 'adupdates, adupdates_simple and a NumPy transcription give the same iterates with %s' % key[20:])
    for _ in range(20 * reps):
        op, n, m, ps = _rand_op(rng, tier)
        f, g, phi = _rand_spec(rng, n, 'prox'), _rand_spec(rng, m, 'prox', ps), _rand_spec(rng, n, 'smooth', plain_rn=op[0] not in ('grad', 'grad2d'))
        d = {'kind': 'doubleprox_dc-vs-simple', 'op': op, 'f': f, 'g': g, 'phi': phi, 'gamma': _dy(rng), 'mu': _dy(rng),
             'x0': _vec(rng, n), 'y0': _vec(rng, m * (1 if not ps else 1)), 'niter': rng.randint(1, 6 if tier == 'quick' else 15)}
        add(d, 'doubleprox_dc-vs-simple-f=%s-g=%s-phi=%s' % (_spec_name(f), _spec_name(g), _spec_name(phi)),
            'doubleprox_dc and doubleprox_dc_simple give the same iterates')
    # ---- resumption
    for _ in range(8 * reps):
        n, m = rng.randint(1, 4), rng.randint(1, 4)
        d = {'kind': 'resume-landweber', 'op': ['rn', _mat(rng, m, n)], 'rhs': _vec(rng, m), 'omega': _dy(rng, (0.0625, 0.125)),
             'proj': rng.choice([None, ['nonneg'], ['box', -1.0, 2.0]]), 'x0': _vec(rng, n), 'niter': rng.randint(0, 7)}
        add(d, 'resume-landweber-proj=%s' % (d['proj'][0] if d['proj'] else 'none'),
            'landweber: n then m iterations = n+m iterations for every splitting; one callback per iteration')
    for _ in range(8 * reps):
        n, k = rng.randint(1, 4), rng.randint(1, 3)
        ms = [rng.randint(1, 3) for _ in range(k)]
        d = {'kind': 'resume-kaczmarz', 'ops': [['rn', _mat(rng, m, n)] for m in ms], 'rhs': [_vec(rng, m) for m in ms],
             'omega': [_dy(rng, (0.0625, 0.125, 0.25)) for _ in ms],
             'proj': rng.choice([None, ['nonneg'], ['box', -1.0, 2.0]]), 'x0': _vec(rng, n), 'niter': rng.randint(0, 6)}
        add(d, 'resume-kaczmarz-fixed-order-proj=%s' % (d['proj'][0] if d['proj'] else 'none'),
            'kaczmarz (fixed order): exact resumption for every splitting; one outer callback per iteration')
    for _ in range(10 * reps):
        n = rng.randint(1, 4)
        f, g = _rand_spec(rng, n, 'prox'), _rand_spec(rng, n, 'smooth')
        d = {'kind': 'resume-proximal_gradient', 'f': f, 'g': g, 'gamma': _dy(rng), 'lam': rng.choice([1.0, 0.5, 1.5]),
             'x0': _vec(rng, n), 'niter': rng.randint(0, 7)}
        add(d, 'resume-proximal_gradient-const-lam-f=%s' % _spec_name(f),
            'proximal_gradient with a float lam: exact resumption for every splitting; one callback per iteration')
    for j in range(4 * reps):
        n = rng.randint(1, 3)
        shift = bool(j % 2)
        d = {'kind': 'resume-proximal_gradient-callable-lam', 'f': ['l1'], 'g': ['l2sq'], 'gamma': 0.25,
             'lam': [1.0, 0.5, 0.25, 1.5][:rng.randint(2, 4)], 'shift': shift, 'x0': [float(rng.randint(2, 5)) for _ in range(n)],
             'niter': rng.randint(2, 6)}
        add(d, 'resume-proximal_gradient-callable-lam-' + ('shifted-by-caller' if shift else 'counter-restarts'),
            'proximal_gradient with a callable lam: n then m iterations = n+m iterations'
            + (' when the caller shifts lam by n' if shift else ' when the same lam is passed to both calls'))
    for _ in range(8 * reps):
        n, k = rng.randint(1, 4), rng.choice([1, 1, 2, 3])
        ms = [rng.randint(1, 3) for _ in range(k)]
        d = {'kind': 'resume-mlem', 'ops': [['rn', _mat(rng, m, n, 0, 3)] for m in ms],
             'data': [[float(rng.randint(0, 5)) for _ in range(m)] for m in ms],
             'x0': [rng.choice([0.5, 1.0, 2.0]) for _ in range(n)], 'niter': rng.randint(0, 6)}
        add(d, 'resume-%s' % ('mlem' if k == 1 else 'osmlem'),
            'mlem/osmlem: exact resumption for every splitting; one callback per (sub-)iteration')
    for _ in range(8 * reps):
        n = rng.randint(1, 4)
        f = _rand_spec(rng, n, 'smooth')
        d = {'kind': 'resume-steepest_descent', 'f': f, 'step': _dy(rng, (0.0625, 0.125, 0.25, 0.5)),
             'tol': rng.choice([1e-16, 0.001, 0.3]), 'proj': rng.choice([None, ['nonneg'], ['box', -1.0, 2.0]]),
             'x0': _vec(rng, n), 'niter': rng.randint(0, 7)}
        add(d, 'resume-steepest_descent-const-step-f=%s' % _spec_name(f),
            'steepest_descent with a constant step: exact resumption for every splitting, callbacks <= maxiter')
    for _ in range(12 * reps):
        op, n, m, ps = _rand_op(rng, tier)
        f, g = _rand_spec(rng, n, 'prox'), _rand_spec(rng, m, 'prox', ps)
        d = {'kind': 'resume-pdhg', 'op': op, 'f': f, 'g': g, 'tau': _dy(rng), 'sigma': _dy(rng),
             'theta': rng.choice([1, 0.5, 0]), 'x0': _vec(rng, n), 'niter': rng.randint(0, 7)}
        add(d, 'resume-pdhg-state-passed-back-f=%s-g=%s' % (_spec_name(f), _spec_name(g)),
            'pdhg with x_relax and y passed back: exact resumption of (x, x_relax, y) for every splitting')
    for _ in range(3 * reps):
        n, m = rng.randint(2, 4), rng.randint(2, 4)
        M = _mat(rng, m, n)
        if not any(any(r) for r in M):
            M[0][0] = 1.0
        d = {'kind': 'resume-landweber-default-omega', 'op': ['rn', M], 'rhs': _vec(rng, m), 'x0': _vec(rng, n),
             'niter': rng.randint(2, 6)}
        add(d, 'resume-landweber-default-omega-norm-estimate-not-cached',
            'landweber with omega=None (1/||op||^2 from op.norm(estimate=True)), same operator object in both calls: '
            'n then m iterations = n+m iterations')
        d = {'kind': 'resume-pdhg-default-stepsizes', 'op': ['rn', M],
             'f': ['trans', _vec(rng, n), ['l2sq']], 'g': ['trans', _vec(rng, m), ['l2sq']], 'x0': _vec(rng, n),
             'niter': rng.randint(2, 6)}
        add(d, 'resume-pdhg-default-stepsizes-norm-estimate-not-cached',
            'pdhg with tau=sigma=None (from L.norm(estimate=True)), same operator object, x_relax and y passed back: '
            'n then m iterations = n+m iterations')
    for v in ['pdhg-gamma_primal', 'pdhg-gamma_dual', 'kaczmarz-random', 'adupdates-random',
              'accelerated_proximal_gradient'] * reps:
        n, m = rng.randint(1, 4), rng.randint(1, 4)
        d = {'kind': 'callback-count-variants', 'variant': v, 'op': ['rn', _mat(rng, m, n)], 'rhs': _vec(rng, m),
             'f': _rand_spec(rng, n, 'prox'), 'g': _rand_spec(rng, m, 'prox'), 'tau': _dy(rng), 'sigma': _dy(rng),
             'gamma': rng.choice([0.5, 1.0]), 'omega': 0.125, 'loop': rng.choice(['inner', 'outer']),
             'x0': _vec(rng, n), 'niter': rng.randint(0, 5)}
        add(d, 'callback-count-%s' % v, '%s: one callback per (sub-)iteration and the last one sees the returned x' % v)
    for _ in range(10 * reps):
        n = rng.randint(1, 4)
        nops = rng.choice([0, 1, 2, 3])
        ms = [rng.randint(1, 3) for _ in range(nops)]
        d = {'kind': 'callback-douglas_rachford_pd', 'ops': [['rn', _mat(rng, m, n)] for m in ms],
             'f': _rand_spec(rng, n, 'prox'), 'gs': [_rand_spec(rng, m, 'prox') for m in ms],
             'ls': [['scaled', 2.0, ['l2sq']] for m in ms] if rng.random() < 0.3 else None,
             'tau': _dy(rng), 'sigma': [_dy(rng) for _ in ms], 'lam': rng.choice([1.0, 0.5, 1.5]),
             'x0': _vec(rng, n), 'niter': rng.randint(0, 6)}
        add(d, 'callback-douglas_rachford_pd-nops=%d' % nops,
            'douglas_rachford_pd: one callback per iteration, the k-th sees what a run with niter=k+1 returns, the '
            'last one is the returned x')
    for _ in range(8 * reps):
        op, n, m, ps = _rand_op(rng, tier)
        f, g, phi = _rand_spec(rng, n, 'prox'), _rand_spec(rng, m, 'prox', ps), _rand_spec(rng, n, 'smooth', plain_rn=op[0] not in ('grad', 'grad2d'))
        d = {'kind': 'resume-doubleprox_dc', 'op': op, 'f': f, 'g': g, 'phi': phi, 'gamma': _dy(rng), 'mu': _dy(rng),
             'x0': _vec(rng, n), 'y0': _vec(rng, m), 'niter': rng.randint(0, 6)}
        add(d, 'resume-doubleprox_dc-f=%s-g=%s' % (_spec_name(f), _spec_name(g)),
            'doubleprox_dc: exact resumption of (x, y) for every splitting')
    return out


# proof obligations of GenProofs.v -> the clause of the property their programs belong to
_OBLIGATION_KIND = [('adup', 'adupdates-vs-simple'), ('admm', 'admm-vs-simple'), ('dpdc', 'doubleprox_dc-vs-simple'),
                    ('pdhg', 'resume-pdhg'), ('lw', 'resume-landweber'), ('kz', 'resume-kaczmarz'),
                    ('pg', 'resume-proximal_gradient'), ('em', 'resume-mlem'), ('osmlem', 'resume-mlem'),
                    ('sd', 'resume-steepest_descent'), ('dca', 'resume-doubleprox_dc')]


def _try(d, key, what):
    try:
        ok, obs, exp = probe_eval(d)
        det = None if ok else {'observed': obs, 'expected': exp}
    except Exception as e:
        ok, det = False, {'raised': '%s: %s' % (type(e).__name__, str(e)[:300])}
    return C.Probe(bool(ok), key, what, _replay(d), det)


def search(rng, broken):
    """Called by the driver when an obligation broke and no probe failed: evaluate the property itself
    (optimised vs reference vs NumPy, or split vs unsplit runs) (1) on the parameters of every failing
    correspondence case, (2) on step-size variations of it (scalar / list / array / element inner step
    sizes, stepsize in {0.5, 1, 2.5}), (3) for a broken proof obligation on a focused family of the solver
    it names.  Returns the first failing probe (a concrete replay) or None."""
    known = C.load_findings(PID)
    kinds = []
    # whatever broke (also a translator that failed closed): the three generated families at the thorough volume;
    # an exception inside one probe is that probe failing (see _try), a crashing generator is skipped
    fams = [('aliased proximal call site x functional pool', lambda: _alias_pool_probes(3)[0]),
            ('callback protocol: sequence of invocations, None / composite callbacks, option values, signatures',
             lambda: _callback_probes(rng, 15 * 6)),
            ('contract of the solver: NumPy transcription, unchanged inputs, continuation with the same objects',
             lambda: _contract_probes(rng, 45 * 6))]
    for what_, gen in fams:
        try:
            items = list(gen())
        except Exception:
            continue
        for dd, key in items:
            p = _try(dd, key, what_)
            if not p.ok and p.key not in known:
                return p
    for kind, what, detail in broken:
        if kind == 'correspondence' and isinstance(detail, dict) and isinstance(detail.get('probe'), dict):
            d = detail['probe']
            cands = [(d, '%s-correspondence-case' % d['kind'])]
            if d['kind'] == 'adupdates-vs-simple':
                cands += _adup_stepsize_probes(rng, 12, base=d)
            if d['kind'] == 'admm-vs-simple':
                cands += [(dict(d, tau=t, sigma=s_), 'admm-vs-simple-tau=%g-sigma=%g' % (t, s_))
                          for t in (0.125, 0.5) for s_ in (0.5, 2.5)]
            for dd, key in cands:
                p = _try(dd, key, 'property evaluated on the parameters of the failing correspondence case %s' % what)
                if not p.ok and p.key not in known:
                    return p
            kinds.append(d['kind'])
        elif kind == 'proof':
            for frag, k in _OBLIGATION_KIND:
                if ('gen_%s' % frag) in what or ('%s_' % frag) in what:
                    kinds.append(k)
        elif kind == 'translator':
            for frag, k in [('adupdates', 'adupdates-vs-simple'), ('admm', 'admm-vs-simple'),
                            ('doubleprox', 'doubleprox_dc-vs-simple')]:
                if frag in str(detail):
                    kinds.append(k)
    if 'adupdates-vs-simple' in kinds:
        for dd, key in _adup_stepsize_probes(rng, 40):
            p = _try(dd, key, 'adupdates vs adupdates_simple vs NumPy, varied step sizes')
            if not p.ok and p.key not in known:
                return p
    # all probes of the thorough tier (those of the named clauses first)
    try:
        allp = probes(rng, 'thorough')
    except Exception:
        return None
    for p in sorted(allp, key=lambda q: not any(q.key.startswith(k) for k in kinds)):
        if not p.ok and p.key not in known:
            return p
    return None


RULE = ('per solver (admm_linearized[_simple], adupdates[_simple], doubleprox_dc[_simple], dca, prox_dca, pdhg, landweber, '
        'kaczmarz, proximal_gradient, mlem/osmlem, steepest_descent, douglas_rachford_pd): random integer matrices of sizes 1..3 (quick) / 1..4 '
        '(thorough) as MatrixOperator on rn, functionals drawn from {Zero, c*L1, c*L2^2, IndicatorBox, '
        'IndicatorNonnegativity, translated(...), ||Mx-b||^2}, dyadic step sizes, half-integer start points, '
        'niter in {0, 1, 2} and random up to 8 / 20; per case the callback-recorded iterates of the optimised and of '
        'the reference implementation and the finals of ALL splittings n+m = niter are compared with the model run '
        'at Q inside Coq (tolerance 1e-9 relative to the iterate size); a case is non-trivial when niter > 0; '
        'distinct by (solver, sizes, functionals, steps, options, niter, start point).  A separate case set checks '
        'the prox / conjugate-prox / gradient formulas of the functional family against the library.')
ASSUMPTIONS = ['exact arithmetic: the model iterates are the unrounded ones; implementation compared with tolerance '
               '1e-9*(1+max|x|) ("up to rounding" in the property text)',
               'each op(x, out=y), prox(x, out=y), y.lincomb(...), y += z is modelled by its pure value, evaluated '
               'completely before y is overwritten: the out-aliasing contract (prox(x, out=x)) is C10\'s subject, '
               'the call protocol C03\'s, lincomb C01\'s',
               'operators/proximals/gradients/projections are deterministic functions of their argument (no hidden '
               'state); step sizes are the same in both calls of a split run',
               'translator configuration: callback given; scalar inner step sizes in the regenerated adupdates '
               'programs (the hand model and its theorem also cover array-valued ones); the line search of '
               'steepest_descent is a ConstantLineSearch; scalar recursions (accelerated pdhg: tau, sigma, theta; '
               'FISTA: t, alpha) and the permutations drawn with random=True are parameters of the interpretation, '
               'only their position relative to the vector statements is regenerated',
               'list language: a comprehension whose element expression creates an object yields n new objects '
               '(identity OList name j), a dict comprehension one new object per distinct range (ODict name k); '
               'which operators share a range is the parameter rkey']
TRUSTED = ['translate/solvers.py (Python ast -> C11/Syntax.v and C11/SyntaxL.v programs, fail closed)',
           'C11/Interp.v and C11/InterpL.v: semantics of names bound to mutable vector objects '
           '(Bind/Alias/Write/return marker; lists and dicts of objects with structured identities)',
           'C11/Corr.v functional family (prox / conjugate prox / gradient formulas), itself checked against the '
           'library by the fk case set']
LEVEL_TEXT = ('Proof: the preamble and loop body of admm_linearized, admm_linearized_simple, doubleprox_dc, '
              'doubleprox_dc_simple, dca, prox_dca, pdhg (constant and accelerated steps), landweber, '
              'proximal_gradient, accelerated_proximal_gradient, steepest_descent, and -- in a list language with '
              'comprehensions creating objects -- adupdates, adupdates_simple, kaczmarz, osmlem (fixed and random '
              'order) and douglas_rachford_pd are REGENERATED from the source on every run as programs over names '
              'bound to mutable vector objects; Coq proves by symbolic execution and induction over the operator list '
              'that they compute the loop-body models for every interpretation of the operators, and then, for EVERY '
              'iteration count, start point, number of operators and temporary-sharing pattern: optimised and '
              'reference implementations produce the same callback-observed iterates and the same caller-visible '
              'results (ADMM invariant tmp_ran = L x; adupdates at heap level for all n, also under any stream of '
              'permutations); n then m iterations equal n+m iterations for landweber, kaczmarz (fixed order, or random '
              'order continuing the permutation stream), mlem/osmlem, steepest descent with constant step (early '
              'return included), dca, prox_dca, doubleprox_dc, proximal_gradient with constant or caller-shifted lam, '
              'pdhg through the caller\'s x, x_relax, y objects and accelerated pdhg with the reached step sizes '
              'carried; the callback log has one entry per (sub-)iteration and its k-th entry is the k-th iterate '
              '(Douglas-Rachford: the k-th callback is what a run with niter=k+1 returns).  Refuted (recorded '
              'finding): resumption of proximal_gradient with a callable lam.  An in-Coq correspondence on iterates '
              'and on all splittings ties the models to the code.')
LEVEL_NOTE = ('Trusted: the translator (fail-closed, small grammar), the interpreter semantics (value-level in-place '
              'calls: C01/C03/C10; identity scheme of list/dict objects), exact arithmetic.  Axioms: classical reals + '
              'funext as printed.')
TECHNIQUE = ('source-regenerated heap-level programs + symbolic execution in Coq, induction on niter with loop '
             'invariants (simulation), in-Coq differential correspondence on iterates and all splittings')
