"""C09 functional values / gradients / Lipschitz constants: correspondence + probes.

The Coq model (coq/C09/Model.v) is hand-written; it is tied to /repo on every run
by executing it at Q inside Coq on random functional expression trees and
comparing with what odl returns (value, gradient, derivative, grad_lipschitz,
is_linear, class of the top-level object)."""
import math
from fractions import Fraction

import numpy as np

from . import common as C

PID = 'C09'
SHARD_SIZE = 120
RULE = ('random functional expression trees (depth 0..3 quick, 0..4 thorough) over 14 space kinds (rn with '
        'no/constant/array weighting, uniform_discr 1-d/2-d incl. nodes_on_bdry, power and non-power product '
        'spaces, sizes 1..6), built from every derived class of functional.py through its constructor AND through '
        'the arithmetic overloads (f*s incl. s=0, s*f incl. 0, f+c, f+g, f-g, -f, f/s, f*op, f*vec, translated, '
        'bregman), leaves L2NormSquared/L2Norm/L1Norm/Constant/Zero/Huber/QuadraticForm (vector, scaling, multiply, '
        'matrix operator), a quarter of the leaves with a user-set grad_lipschitz (finite, inf, nan), operators Scaling/Multiply/Identity/Matrix/PowerOperator(2)/shifted/composed; points, '
        'directions, vectors and scalars are small dyadic rationals so float arithmetic is exact up to the '
        'divisions (tolerance 1e-9 relative). A case is non-trivial when the tree has at least one derived node '
        'or a non-constant leaf; distinct by (space kind, tree structure with parameters, x, d). Two further case sets: '
        'SeparableSum of two random trees on two different spaces, and MoreauEnvelope(L2NormSquared | L1Norm, sigma) '
        'gradients on every space kind. Further families: chains of nested scalings, compositions with nonlinear operators, '
        'user-defined leaves/operators that return their argument object (under every rule, argument must stay bitwise '
        'unchanged), conjugates (simple_functional with all 8 keywords, L2NormSquared, QuadraticForm and the conjugate '
        'rules) with trees on top; every operator object is evaluated at several points in sequence.')
ASSUMPTIONS = [
    'exact arithmetic: the theorems are about real numbers; rounding, overflow, NaN payloads are out of scope',
    'complex spaces are not modelled (real spaces only)',
    'every space is represented, after flattening, as a list with one positive weight per entry; the harness '
    'measures the weights as <e_i,e_i> and checks that the Gram matrix of the unit vectors is diagonal '
    '(Coq: such list spaces and their products satisfy SpaceLaws)',
    'the executed (Q) instance uses a rational square root of relative accuracy 1e-12 for norms; the proved (R) '
    'instance uses sqrt (norms occur only in grad_lipschitz of QuadraticPerturb/Bregman and in the L2Norm leaf); '
    'for value/gradient/derivative/is_linear of all trees Coq proves (model_transfer) that the Q run is the '
    'rational restriction of the R model',
    'leaves and operators enter the all-trees theorems through explicit soundness premises; the premises are '
    'proved for L2NormSquared, L2Norm (x != 0), Constant/Zero, linear and quadratic forms (scaling, multiply), '
    'L1Norm (no zero entry), Huber, the four Kullback-Leibler functionals, MoreauEnvelope (given a minimising, '
    'non-expansive prox; shown for L2NormSquared), SeparableSum, and for the operators Identity/Scaling/Multiply/'
    'PowerOperator(2)/Matrix (unit weights)/A - t/composition',
    'the Kullback-Leibler leaves use ln/exp and exist at R only: their tie to the code is by probes',
    'MoreauEnvelope has no _call in the code: the modelled value is the envelope min_y f(y)+|x-y|^2/(2 sigma)',
    'GroupL1Norm, Huber on power spaces, simple_functional, NumericalGradient, ScalingFunctional and '
    'RosenbrockFunctional are validated by probes only',
    'MatrixOperator inside FunctionalComp is exercised on unweighted rn only (its adjoint on weighted spaces is '
    'the subject of C05)',
]
TRUSTED = [
    'translate/functional_lipschitz.py (Python ast -> Gallina: grad_lipschitz / linear arguments of each __init__), '
    'fail-closed; C09/GenTie.v proves the hand model uses exactly these formulas',
    'coq/C09/Model.v hand-written transcription of functional.py / default_functionals.py at /repo >= aef4c15, 7ebf769 (validated by the '
    'correspondence on every run)',
    'harness/c09.py tree generator and flattening of odl elements',
]
LEVEL_TEXT = ('Proof: for the model of functional.py, Coq proves by structural induction over ALL expression trees '
              '(arbitrary depth, any real inner-product space incl. weighted/discretized/product ones) that the '
              'modelled gradient is the Frechet gradient of the modelled value in the space\'s own inner product '
              '(hence inner(grad f(x), d) is the directional derivative and equals derivative(x)(d)), given sound '
              'leaves/operators, and that every finite propagated grad_lipschitz bounds '
              '||grad f(x)-grad f(y)|| / ||x-y||; the overload layer (f*s, s*f, f+c, f-g, translated, bregman) is '
              'proved to produce the documented values. The model is tied to the code by an in-Coq differential '
              'correspondence on random trees.')
LEVEL_NOTE = ('Leaves with log/exp/prox (KL, Moreau envelope), group norms and NumericalGradient are probe-validated '
              'only. Exact arithmetic; classical reals + funext axioms as printed by Print Assumptions.')
TECHNIQUE = ('Coq proof by structural induction on a deep embedding of functional arithmetic over an abstract real '
             'inner-product space (Frechet calculus from std Reals) + in-Coq differential correspondence at Q')


def translate():
    """grad_lipschitz / linear formulas of every modelled class, regenerated from the current source"""
    from translate import functional_lipschitz as T
    return {'Gen/FunctionalLip.v': T.translate()}


# ------------------------------------------------------------------ spaces
class SpaceInfo(object):
    """An odl space with its flattening and effective per-entry weights."""

    def __init__(self, kind, sp):
        import odl
        self.kind, self.sp = kind, sp
        self.is_pspace = isinstance(sp, odl.ProductSpace)
        self.n = self._size(sp)
        # effective weights: Gram matrix of the unit vectors must be diagonal
        es = [self.elem([1.0 if i == j else 0.0 for i in range(self.n)]) for j in range(self.n)]
        self.w = []
        for i in range(self.n):
            for j in range(self.n):
                g = es[i].inner(es[j])
                if i == j:
                    self.w.append(float(g))
                elif g != 0:
                    raise AssertionError('Gram matrix of %r is not diagonal' % (sp,))
        self.wq = C.qs(self.w)
        self.array_weighted = (kind in ('rn_aw',))

    def _size(self, sp):
        import odl
        if isinstance(sp, odl.ProductSpace):
            return sum(self._size(s) for s in sp)
        return int(np.prod(sp.shape))

    def elem(self, flat):
        return self._elem(self.sp, list(flat))

    def _elem(self, sp, flat):
        import odl
        if isinstance(sp, odl.ProductSpace):
            parts, k = [], 0
            for s in sp:
                m = self._size(s)
                parts.append(self._elem(s, flat[k:k + m]))
                k += m
            return sp.element(parts)
        return sp.element(np.array(flat, dtype=float).reshape(sp.shape))

    def flat(self, el):
        return self._flat(self.sp, el)

    def _flat(self, sp, el):
        import odl
        if isinstance(sp, odl.ProductSpace):
            out = []
            for s, e in zip(sp, el):
                out += self._flat(s, e)
            return out
        return [float(v) for v in np.asarray(el).ravel()]


SPACE_KINDS = ['rn', 'rn1', 'rn_cw', 'rn_cw2', 'rn_aw', 'discr', 'discr_big', 'discr2d', 'discr_nb',
               'pspace', 'pspace_w', 'pspace_cw', 'pspace_mixed', 'pspace_discr']


def make_space(rng, kind):
    import odl
    n = rng.randint(2, 4)
    if kind == 'rn':
        sp = odl.rn(n)
    elif kind == 'rn1':
        sp = odl.rn(1)
    elif kind == 'rn_cw':
        sp = odl.rn(n, weighting=rng.choice([2.0, 0.5, 4.0]))
    elif kind == 'rn_cw2':
        sp = odl.rn(1, weighting=rng.choice([2.0, 0.25]))
    elif kind == 'rn_aw':
        sp = odl.rn(n, weighting=[rng.choice([0.5, 1.0, 2.0, 4.0]) for _ in range(n)])
    elif kind == 'discr':
        sp = odl.uniform_discr(0, n * 0.5, n)             # cell volume 1/2
    elif kind == 'discr_big':
        sp = odl.uniform_discr(0, n * 2.0, n)             # cell volume 2
    elif kind == 'discr2d':
        sp = odl.uniform_discr([0, 0], [1.0, 0.5], [2, rng.choice([1, 2, 3])])
    elif kind == 'discr_nb':
        sp = odl.uniform_discr(0, 3, 4, nodes_on_bdry=True)   # non-dyadic, non-uniform weights
    elif kind == 'pspace':
        sp = odl.ProductSpace(odl.rn(rng.choice([1, 2])), rng.choice([2, 3]))
    elif kind == 'pspace_w':
        sp = odl.ProductSpace(odl.rn(2), 2, weighting=[1.0, rng.choice([2.0, 4.0])])
    elif kind == 'pspace_cw':
        sp = odl.ProductSpace(odl.rn(2), 2, weighting=2.0)
    elif kind == 'pspace_mixed':
        sp = odl.ProductSpace(odl.rn(2), odl.rn(rng.choice([1, 3]), weighting=2.0))
    elif kind == 'pspace_discr':
        sp = odl.ProductSpace(odl.uniform_discr(0, 1, 2), 2)
    else:
        raise ValueError(kind)
    return SpaceInfo(kind, sp)


# ------------------------------------------------------------------ random data
_FLOATS = [False]     # probes draw generic reals (3 decimals) instead of dyadic rationals


def dy(rng, lo=-3, hi=3, nz=False):
    """small dyadic rational (correspondence) / generic 3-decimal real (probes)"""
    while True:
        if _FLOATS[0]:
            v = round(rng.uniform(lo, hi), 3)
            if abs(v) < 0.05:
                continue
            return v
        v = rng.randint(lo * 4, hi * 4) / 4.0
        if not nz or v != 0:
            return v


def vec(rng, S, nz=False, lo=-3, hi=3):
    return [dy(rng, lo, hi, nz) for _ in range(S.n)]


def oqs(v):
    return 'None' if v is None else '(Some %s)' % C.qs(v)


# ------------------------------------------------------------------ operators
class OpNode(object):
    def __init__(self, py, coq, desc, S1, S2, linear):
        self.py, self.coq, self.desc, self.S1, self.S2, self.linear = py, coq, desc, S1, S2, linear


def gen_op(rng, S, depth=1):
    """Random operator with domain S (range may be another space)."""
    import odl
    kinds = ['scal', 'mult', 'id', 'square', 'shift', 'usquare', 'aliasid']
    if not _FLOATS[0]:
        kinds += ['recip']     # 1/x only in the exact correspondence (non-finite results are skipped there);
        #                        the finite-difference oracles of the probes stay away from its poles
    if depth > 0:
        kinds += ['pwprod', 'pwprod']
    if S.kind in ('rn', 'rn1'):
        kinds += ['matrix', 'matrix']
    if depth > 0:
        kinds += ['comp']
    k = rng.choice(kinds)
    w = S.wq
    if k == 'scal':
        s = dy(rng, nz=True)
        return OpNode(odl.ScalingOperator(S.sp, s), '(Oscal %s %s)' % (w, C.q(s)), ['Scaling', s], S, S, True)
    if k == 'mult':
        v = vec(rng, S)
        return OpNode(odl.MultiplyOperator(S.elem(v)), '(Omult %s %s)' % (w, C.qs(v)), ['Multiply', v], S, S, True)
    if k == 'id':
        return OpNode(odl.IdentityOperator(S.sp), '(Oid %s)' % w, ['Identity'], S, S, True)
    if k == 'square':
        return OpNode(odl.PowerOperator(S.sp, 2), '(Osquare %s)' % w, ['Power2'], S, S, False)
    if k == 'aliasid':      # a user operator whose _call returns its argument object itself
        class AliasIdentity(odl.Operator):
            def __init__(self, space):
                super(AliasIdentity, self).__init__(space, space, linear=True)

            def _call(self, x):
                return x

            @property
            def adjoint(self):
                return self
        return OpNode(AliasIdentity(S.sp), '(Oid %s)' % w, ['AliasIdentity'], S, S, True)
    if k == 'usquare':
        return OpNode(odl.ufunc_ops.square(S.sp), '(Osquare %s)' % w, ['ufunc-square'], S, S, False)
    if k == 'recip':
        return OpNode(odl.ufunc_ops.reciprocal(S.sp), '(Orecip %s)' % w, ['ufunc-reciprocal'], S, S, False)
    if k == 'pwprod':
        A = gen_op(rng, S, 0)
        while A.S2 is not S:
            A = gen_op(rng, S, 0)
        B = gen_op(rng, S, 0)
        while B.S2 is not S:
            B = gen_op(rng, S, 0)
        return OpNode(odl.OperatorPointwiseProduct(A.py, B.py), '(Opw %s %s %s %s)' % (w, w, A.coq, B.coq),
                      ['PointwiseProduct', A.desc, B.desc], S, S, False)
    if k == 'matrix':
        m = rng.randint(1, 3)
        S2 = SpaceInfo('rn', odl.rn(m))
        M = [[dy(rng, -2, 2) for _ in range(S.n)] for _ in range(m)]
        return OpNode(odl.MatrixOperator(np.array(M, dtype=float), domain=S.sp, range=S2.sp),
                      '(Omat %s %s %s)' % (w, S2.wq, C.qss(M)), ['Matrix', M], S, S2, True)
    if k == 'shift':
        A = gen_op(rng, S, 0)
        t = vec(rng, A.S2)
        return OpNode(A.py - A.S2.elem(t), '(Oshift %s %s %s %s)' % (w, A.S2.wq, A.coq, C.qs(t)),
                      ['Shift', A.desc, t], S, A.S2, False)
    B = gen_op(rng, S, depth - 1)
    A = gen_op(rng, B.S2, 0)
    return OpNode(A.py * B.py, '(Ocomp %s %s %s %s %s)' % (w, B.S2.wq, A.S2.wq, A.coq, B.coq),
                  ['Comp', A.desc, B.desc], S, A.S2, A.linear and B.linear)


# ------------------------------------------------------------------ functionals
class Node(object):
    def __init__(self, py, coq, desc, S, derived=True):
        self.py, self.coq, self.desc, self.S, self.derived = py, coq, desc, S, derived


def gen_leaf(rng, S, positive=False):
    """a leaf; in the exact (correspondence) mode a quarter of them get a user-set grad_lipschitz"""
    node = _gen_leaf(rng, S, positive)
    if not _FLOATS[0] and not positive and rng.random() < 0.25:
        c = rng.choice([float('nan'), float('inf'), 0.0, 1.0, 3.5, 0.25])
        node.py.grad_lipschitz = c
        term = 'LNan' if c != c else ('LInf' if c == float('inf') else '(LFin %s)' % C.q(c))
        inner = node.coq[len('(Xleaf %s ' % S.wq):-1]
        node = Node(node.py, '(Xleaf %s (Lsetlip %s %s %s))' % (S.wq, S.wq, inner, term),
                    ['set_grad_lipschitz', node.desc, repr(c)], S, True)
    return node


_ALIAS_ONLY = [False]   # directed family: every leaf is a user-defined functional whose gradient aliases


def simple_sq(S, a, alias=False):
    """simple_functional with ALL EIGHT keywords given and pairwise distinct: f = (a/2)|x|^2, f* = |y|^2/(2a)"""
    from odl.solvers.functional.functional import simple_functional
    inv = 1.0 / a
    grad = (lambda x: x) if (alias and a == 1.0) else (lambda x: a * x)
    cgrad = (lambda y: y) if (alias and a == 1.0) else (lambda y: inv * y)
    return simple_functional(S.sp,
                             fcall=lambda x: (a / 2) * x.inner(x), grad=grad,
                             prox=lambda sigma: None, grad_lip=a,
                             convex_conj_fcall=lambda y: (inv / 2) * y.inner(y), convex_conj_grad=cgrad,
                             convex_conj_prox=lambda sigma: 0, convex_conj_grad_lip=inv)


def simple_lin(S, b_el):
    """user functional <x, b> whose gradient callable returns the STORED vector b itself"""
    from odl.solvers.functional.functional import simple_functional
    return simple_functional(S.sp, fcall=lambda x: x.inner(b_el), grad=lambda x: b_el, linear=True)


def _gen_leaf(rng, S, positive=False):
    import odl
    F = odl.solvers
    w = S.wq
    if not positive and (_ALIAS_ONLY[0] or rng.random() < 0.12):
        k = rng.choice(['alias_half', 'alias_half', 'alias_lin', 'simple_sq'])
        if k == 'alias_half':      # gradient operator returns its ARGUMENT object
            return Node(simple_sq(S, 1.0, alias=True), '(Xleaf %s (Lscaledsq %s 1))' % (w, w), ['simple-alias-half-sq'], S, False)
        if k == 'alias_lin':       # gradient operator returns a STORED vector object
            b = vec(rng, S)
            return Node(simple_lin(S, S.elem(b)), '(Xleaf %s (Lsimple_lin %s %s))' % (w, w, C.qs(b)),
                        ['simple-alias-lin', b], S, False)
        a = rng.choice([4.0, 0.25, 2.0, 0.5])
        return Node(simple_sq(S, a), '(Xleaf %s (Lscaledsq %s %s))' % (w, w, C.q(a)), ['simple-sq', a], S, False)
    kinds = ['l2sq', 'l2sq', 'l2', 'l1', 'const', 'zero', 'lin', 'quad_scal', 'quad_mult']
    if not S.is_pspace:       # Huber on tensor spaces incl. array weighting (repaired in /repo bec7266)
        kinds += ['huber', 'huber']
    if S.kind in ('rn', 'rn1'):
        kinds += ['quad_mat']
    if positive:
        kinds = ['l2sq', 'l1'] + (['huber'] if 'huber' in kinds else [])
    k = rng.choice(kinds)
    if k == 'l2sq':
        return Node(F.L2NormSquared(S.sp), '(Xleaf %s (Ll2sq %s))' % (w, w), ['L2NormSquared'], S, False)
    if k == 'l2':
        return Node(F.L2Norm(S.sp), '(Xleaf %s (Ll2 %s))' % (w, w), ['L2Norm'], S, False)
    if k == 'l1':
        return Node(F.L1Norm(S.sp), '(Xleaf %s (Ll1 %s))' % (w, w), ['L1Norm'], S, False)
    if k == 'const':
        c = dy(rng)
        return Node(F.ConstantFunctional(S.sp, c), '(Xleaf %s (Lconst %s %s))' % (w, w, C.q(c)), ['Constant', c], S, False)
    if k == 'zero':
        return Node(F.ZeroFunctional(S.sp), '(Xleaf %s (Lconst %s 0))' % (w, w), ['Zero'], S, False)
    if k == 'huber':
        g = rng.choice([0.5, 1.0, 2.0, 0.25, 4.0])
        return Node(F.Huber(S.sp, g), '(Xleaf %s (Lhuber %s %s))' % (w, w, C.q(g)), ['Huber', g], S, False)
    if k == 'lin':
        b = vec(rng, S)
        c = rng.choice([0.0, 0.0, dy(rng)])
        return Node(F.QuadraticForm(vector=S.elem(b), constant=c),
                    '(Xleaf %s (Llin %s %s %s))' % (w, w, C.qs(b), C.q(c)), ['QuadraticForm-vector', b, c], S, False)
    b = rng.choice([None, vec(rng, S)])
    c = rng.choice([0.0, dy(rng)])
    bel = None if b is None else S.elem(b)
    if k == 'quad_scal':
        s = dy(rng, nz=True)
        return Node(F.QuadraticForm(operator=odl.ScalingOperator(S.sp, s), vector=bel, constant=c),
                    '(Xleaf %s (Lquad_scal %s %s %s %s))' % (w, w, C.q(s), oqs(b), C.q(c)),
                    ['QuadraticForm-scaling', s, b, c], S, False)
    if k == 'quad_mult':
        v = vec(rng, S)
        return Node(F.QuadraticForm(operator=odl.MultiplyOperator(S.elem(v)), vector=bel, constant=c),
                    '(Xleaf %s (Lquad_mult %s %s %s %s))' % (w, w, C.qs(v), oqs(b), C.q(c)),
                    ['QuadraticForm-multiply', v, b, c], S, False)
    M = [[dy(rng, -2, 2) for _ in range(S.n)] for _ in range(S.n)]
    return Node(F.QuadraticForm(operator=odl.MatrixOperator(np.array(M, dtype=float), domain=S.sp, range=S.sp),
                                vector=bel, constant=c),
                '(Xleaf %s (Lquad_mat %s %s %s %s))' % (w, w, C.qss(M), oqs(b), C.q(c)),
                ['QuadraticForm-matrix', M, b, c], S, False)


def gen_pos(rng, S):
    """a functional that is >= 1/4 everywhere (divisor of a quotient)"""
    f = gen_leaf(rng, S, positive=True)
    c = rng.choice([0.25, 0.5, 1.0, 2.0])
    w = S.wq
    return Node(f.py + c, '(Xadds %s %s %s)' % (w, f.coq, C.q(c)), ['add_scalar', f.desc, c], S)


DERIVED = ['LeftScal', 'RightScal', 'RightVec', 'Sum', 'ScalarSum', 'Trans', 'Comp', 'QuadPert', 'Prod', 'Quot',
           'Bregman', 'ov_mul', 'ov_mul0', 'ov_rmul', 'ov_rmul0', 'ov_add', 'ov_adds', 'ov_sub', 'ov_neg', 'ov_div',
           'ov_comp', 'ov_vec', 'ov_translated', 'ov_bregman']


def gen_tree(rng, S, depth, vs, force=None):
    import odl
    F = odl.solvers
    if depth <= 0:
        return gen_leaf(rng, S)
    k = force or rng.choice(DERIVED)
    w = S.wq
    sub = lambda: gen_tree(rng, S, depth - 1 if rng.random() < 0.7 else 0, vs)
    if k == 'LeftScal':
        f, s = sub(), dy(rng)
        return Node(F.FunctionalLeftScalarMult(f.py, s), '(Xlscal %s %s %s)' % (w, C.q(s), f.coq), [k, s, f.desc], S)
    if k == 'RightScal':
        f, s = sub(), dy(rng)
        return Node(F.FunctionalRightScalarMult(f.py, s), '(Xrscal %s %s %s)' % (w, f.coq, C.q(s)), [k, f.desc, s], S)
    if k in ('RightVec', 'ov_vec'):
        f, v = sub(), vec(rng, S)
        py = F.FunctionalRightVectorMult(f.py, S.elem(v)) if k == 'RightVec' else f.py * S.elem(v)
        return Node(py, '(Xrvec %s %s %s)' % (w, f.coq, C.qs(v)), [k, f.desc, v], S)
    if k in ('Sum', 'ov_add'):
        f, g = sub(), sub()
        py = F.FunctionalSum(f.py, g.py) if k == 'Sum' else f.py + g.py
        return Node(py, '(Xsum %s %s %s)' % (w, f.coq, g.coq), [k, f.desc, g.desc], S)
    if k in ('ScalarSum', 'ov_adds'):
        f, c = sub(), dy(rng)
        py = F.FunctionalScalarSum(f.py, c) if k == 'ScalarSum' else (f.py + c if rng.random() < 0.5 else c + f.py)
        return Node(py, '(Xadds %s %s %s)' % (w, f.coq, C.q(c)), [k, f.desc, c], S)
    if k in ('Trans', 'ov_translated'):
        f, t = sub(), vec(rng, S)
        if rng.random() < 0.4:     # nested translations are merged by __init__
            t0 = vec(rng, S)
            f = Node(f.py.translated(S.elem(t0)), '(Xtranslated %s %s %s)' % (w, f.coq, C.qs(t0)),
                     ['translated', f.desc, t0], S)
        py = F.FunctionalTranslation(f.py, S.elem(t)) if k == 'Trans' else f.py.translated(S.elem(t))
        return Node(py, '(Xtranslated %s %s %s)' % (w, f.coq, C.qs(t)), [k, f.desc, t], S)
    if k in ('Comp', 'ov_comp'):
        A = gen_op(rng, S, 1)
        f = gen_tree(rng, A.S2, depth - 1 if rng.random() < 0.7 else 0, vs)
        py = F.FunctionalComp(f.py, A.py) if k == 'Comp' else f.py * A.py
        return Node(py, '(Xcomp %s %s %s %s)' % (w, A.S2.wq, f.coq, A.coq), [k, f.desc, A.desc], S)
    if k == 'QuadPert':
        f = sub()
        a = rng.choice([0.0, 0.0, dy(rng)])
        u = rng.choice([None, vec(rng, S)])
        c = rng.choice([0.0, dy(rng)])
        py = F.FunctionalQuadraticPerturb(f.py, quadratic_coeff=a, linear_term=None if u is None else S.elem(u),
                                          constant=c)
        return Node(py, '(Xqp %s %s %s %s %s)' % (w, f.coq, C.q(a), oqs(u), C.q(c)), [k, f.desc, a, u, c], S)
    if k == 'Prod':
        f, g = sub(), sub()
        return Node(F.FunctionalProduct(f.py, g.py), '(Xprod %s %s %s)' % (w, f.coq, g.coq), [k, f.desc, g.desc], S)
    if k == 'Quot':
        f, g = sub(), gen_pos(rng, S)
        return Node(F.FunctionalQuotient(f.py, g.py), '(Xquot %s %s %s)' % (w, f.coq, g.coq), [k, f.desc, g.desc], S)
    if k in ('Bregman', 'ov_bregman'):
        f, p, s = sub(), vec(rng, S), vec(rng, S)
        py = F.BregmanDistance(f.py, S.elem(p), S.elem(s)) if k == 'Bregman' else f.py.bregman(S.elem(p), S.elem(s))
        return Node(py, '(Xbreg %s %s %s %s)' % (w, f.coq, C.qs(p), C.qs(s)), [k, f.desc, p, s], S)
    if k in ('ov_mul', 'ov_mul0'):
        f = sub()
        s = 0.0 if k == 'ov_mul0' else dy(rng, nz=True)
        return Node(f.py * s, '(Xmul %s %s %s)' % (w, f.coq, C.q(s)), [k, f.desc, s], S)
    if k in ('ov_rmul', 'ov_rmul0'):
        f = sub()
        s = 0.0 if k == 'ov_rmul0' else dy(rng, nz=True)
        return Node(s * f.py, '(Xrmul %s %s %s)' % (w, C.q(s), f.coq), [k, s, f.desc], S)
    if k == 'ov_sub':
        f, g = sub(), sub()
        return Node(f.py - g.py, '(Xsub %s %s %s)' % (w, f.coq, g.coq), [k, f.desc, g.desc], S)
    if k == 'ov_neg':
        f = sub()
        return Node(-f.py, '(Xneg %s %s)' % (w, f.coq), [k, f.desc], S)
    if k == 'ov_div':
        f = sub()
        s = rng.choice([2.0, 4.0, -2.0, 0.5, -0.25, 8.0])
        return Node(f.py / s, '(Xdiv %s %s %s)' % (w, f.coq, C.q(s)), [k, f.desc, s], S)
    raise ValueError(k)


KIND = {'FunctionalLeftScalarMult': 'KLeftScal', 'FunctionalRightScalarMult': 'KRightScal',
        'FunctionalRightVectorMult': 'KRightVec', 'FunctionalSum': 'KSum', 'FunctionalScalarSum': 'KSum',
        'FunctionalTranslation': 'KTrans', 'FunctionalComp': 'KComp', 'FunctionalQuadraticPerturb': 'KQuadPert',
        'FunctionalProduct': 'KProd', 'FunctionalQuotient': 'KQuot', 'BregmanDistance': 'KBregman'}


def gen_conjugable(rng, S, depth):
    """A functional with a modelled convex_conj: returns (node, conj_node) where conj_node.py = node.py.convex_conj and
    conj_node.coq is the model of the object the code builds for it (rules of functional.py / default_functionals.py)."""
    import odl
    F = odl.solvers
    w = S.wq
    if depth <= 0:
        k = rng.choice(['l2sq', 'simple', 'simple', 'qf'])
        if k == 'l2sq':
            f = F.L2NormSquared(S.sp)
            return (Node(f, '(Xleaf %s (Ll2sq %s))' % (w, w), ['L2NormSquared'], S, False),
                    Node(f.convex_conj, '(Xlscal %s (1 # 4) (Xleaf %s (Ll2sq %s)))' % (w, w, w), ['conj', ['L2NormSquared']], S))
        if k == 'simple':
            a = rng.choice([4.0, 0.25, 2.0, 0.5, 8.0, 0.125])
            f = simple_sq(S, a)
            return (Node(f, '(Xleaf %s (Lscaledsq %s %s))' % (w, w, C.q(a)), ['simple-sq', a], S, False),
                    Node(f.convex_conj, '(Xleaf %s (Lscaledsq %s %s))' % (w, w, C.q(1.0 / a)), ['conj', ['simple-sq', a]], S, False))
        sc = rng.choice([2.0, 4.0, 0.5, -2.0, 0.25])
        b = rng.choice([None, vec(rng, S)])
        c = rng.choice([0.0, dy(rng)])
        f = F.QuadraticForm(operator=odl.ScalingOperator(S.sp, sc), vector=None if b is None else S.elem(b), constant=c)
        return (Node(f, '(Xleaf %s (Lquad_scal %s %s %s %s))' % (w, w, C.q(sc), oqs(b), C.q(c)), ['QuadraticForm-scaling', sc, b, c], S, False),
                Node(f.convex_conj, '(Xleaf %s (Lquadconj_scal %s %s %s %s))' % (w, w, C.q(sc), oqs(b), C.q(c)),
                     ['conj', ['QuadraticForm-scaling', sc, b, c]], S, False))
    f, fc = gen_conjugable(rng, S, depth - 1)
    k = rng.choice(['LeftScal', 'RightScal', 'ScalarSum', 'Trans', 'QuadPert0'])
    if k == 'Trans' and f.desc[0] == 'Trans':
        k = 'ScalarSum'        # nested translations are merged by __init__ (their conjugate has ONE linear term)
    if k == 'LeftScal':        # s * f.convex_conj * (1/s)
        sc = rng.choice([2.0, 4.0, 0.5, 0.25])
        g = sc * f.py
        return (Node(g, '(Xrmul %s %s %s)' % (w, C.q(sc), f.coq), [k, sc, f.desc], S),
                Node(g.convex_conj, '(Xmul %s (Xrmul %s %s %s) %s)' % (w, w, C.q(sc), fc.coq, C.q(1.0 / sc)), ['conj', [k, sc, f.desc]], S))
    if k == 'RightScal':       # f.convex_conj * (1/s)
        sc = rng.choice([2.0, 4.0, 0.5, -2.0, -0.25])
        g = F.FunctionalRightScalarMult(f.py, sc)
        return (Node(g, '(Xrscal %s %s %s)' % (w, f.coq, C.q(sc)), [k, f.desc, sc], S),
                Node(g.convex_conj, '(Xmul %s %s %s)' % (w, fc.coq, C.q(1.0 / sc)), ['conj', [k, f.desc, sc]], S))
    if k == 'ScalarSum':       # f.convex_conj - c
        c = dy(rng)
        g = f.py + c
        return (Node(g, '(Xadds %s %s %s)' % (w, f.coq, C.q(c)), [k, f.desc, c], S),
                Node(g.convex_conj, '(Xadds %s %s %s)' % (w, fc.coq, C.q(-c)), ['conj', [k, f.desc, c]], S))
    if k == 'Trans':           # FunctionalQuadraticPerturb(f.convex_conj, linear_term=t)
        t = vec(rng, S)
        g = F.FunctionalTranslation(f.py, S.elem(t))
        return (Node(g, '(Xtranslated %s %s %s)' % (w, f.coq, C.qs(t)), [k, f.desc, t], S),
                Node(g.convex_conj, '(Xqp %s %s 0 %s 0)' % (w, fc.coq, oqs(t)), ['conj', [k, f.desc, t]], S))
    # QuadraticPerturb with a = 0:  f.convex_conj.translated(u) [- c]
    u, c = vec(rng, S), rng.choice([0.0, dy(rng, nz=True)])
    g = F.FunctionalQuadraticPerturb(f.py, linear_term=S.elem(u), constant=c)
    coq = '(Xtranslated %s %s %s)' % (w, fc.coq, C.qs(u))
    if c != 0:
        coq = '(Xadds %s %s %s)' % (w, coq, C.q(-c))
    return (Node(g, '(Xqp %s %s 0 %s %s)' % (w, f.coq, oqs(u), C.q(c)), ['QuadPert0', f.desc, u, c], S),
            Node(g.convex_conj, coq, ['conj', ['QuadPert0', f.desc, u, c]], S))


def gen_finite_leaf(rng, S):
    """a leaf with a finite grad_lipschitz"""
    while True:
        f = _gen_leaf(rng, S)
        if math.isfinite(float(f.py.grad_lipschitz)):
            return f


CHAIN_OPS = ['RightScal', 'ov_mul', 'ov_div', 'RightScal', 'ov_mul', 'LeftScal', 'ov_rmul', 'ov_neg', 'Trans',
             'ov_translated', 'ScalarSum', 'QuadPert', 'Bregman', 'Sum']


def gen_chain(rng, S, vs):
    import odl
    F = odl.solvers
    node = gen_finite_leaf(rng, S)
    w = S.wq
    r = rng.random()
    if r < 0.15:      # L2NormSquared.convex_conj = 1/4 * L2NormSquared
        node = Node(F.L2NormSquared(S.sp).convex_conj, '(Xlscal %s (1 # 4) (Xleaf %s (Ll2sq %s)))' % (w, w, w),
                    ['L2NormSquared.convex_conj'], S)
    elif r < 0.3:     # (L2NormSquared * a).convex_conj = L2NormSquared.convex_conj * (1/a)
        a = rng.choice([2.0, 4.0, 0.5, -2.0, -0.25])
        node = Node((F.L2NormSquared(S.sp) * a).convex_conj,
                    '(Xmul %s (Xlscal %s (1 # 4) (Xleaf %s (Ll2sq %s))) %s)' % (w, w, w, w, C.q(1.0 / a)),
                    ['(L2NormSquared*a).convex_conj', a], S)
    for _ in range(rng.choice([2, 2, 3, 3, 4])):
        k = rng.choice(CHAIN_OPS)
        f = node
        big = lambda: rng.choice([2.0, 3.0, -2.0, 1.5, 0.5, -0.5, 4.0, 0.25, -3.0])
        if k == 'RightScal':
            s = big()
            node = Node(F.FunctionalRightScalarMult(f.py, s), '(Xrscal %s %s %s)' % (w, f.coq, C.q(s)), [k, f.desc, s], S)
        elif k == 'ov_mul':
            s = big()
            node = Node(f.py * s, '(Xmul %s %s %s)' % (w, f.coq, C.q(s)), [k, f.desc, s], S)
        elif k == 'ov_div':
            s = rng.choice([2.0, 0.5, -0.25, 4.0, -2.0])
            node = Node(f.py / s, '(Xdiv %s %s %s)' % (w, f.coq, C.q(s)), [k, f.desc, s], S)
        elif k == 'LeftScal':
            s = big()
            node = Node(F.FunctionalLeftScalarMult(f.py, s), '(Xlscal %s %s %s)' % (w, C.q(s), f.coq), [k, s, f.desc], S)
        elif k == 'ov_rmul':
            s = big()
            node = Node(s * f.py, '(Xrmul %s %s %s)' % (w, C.q(s), f.coq), [k, s, f.desc], S)
        elif k == 'ov_neg':
            node = Node(-f.py, '(Xneg %s %s)' % (w, f.coq), [k, f.desc], S)
        elif k in ('Trans', 'ov_translated'):
            t = vec(rng, S)
            py = F.FunctionalTranslation(f.py, S.elem(t)) if k == 'Trans' else f.py.translated(S.elem(t))
            node = Node(py, '(Xtranslated %s %s %s)' % (w, f.coq, C.qs(t)), [k, f.desc, t], S)
        elif k == 'ScalarSum':
            c = dy(rng)
            node = Node(f.py + c, '(Xadds %s %s %s)' % (w, f.coq, C.q(c)), [k, f.desc, c], S)
        elif k == 'QuadPert':
            a, u, c = rng.choice([0.0, dy(rng)]), rng.choice([None, vec(rng, S)]), dy(rng)
            py = F.FunctionalQuadraticPerturb(f.py, quadratic_coeff=a, linear_term=None if u is None else S.elem(u),
                                              constant=c)
            node = Node(py, '(Xqp %s %s %s %s %s)' % (w, f.coq, C.q(a), oqs(u), C.q(c)), [k, f.desc, a, u, c], S)
        elif k == 'Bregman':
            p, sg = vec(rng, S), vec(rng, S)
            node = Node(f.py.bregman(S.elem(p), S.elem(sg)), '(Xbreg %s %s %s %s)' % (w, f.coq, C.qs(p), C.qs(sg)),
                        [k, f.desc, p, sg], S)
        else:
            g = gen_finite_leaf(rng, S)
            node = Node(f.py + g.py, '(Xsum %s %s %s)' % (w, f.coq, g.coq), [k, f.desc, g.desc], S)
    return node


def gen_nonlinear_comp(rng, S, vs):
    """f o A with a nonlinear A (PowerOperator, ufunc square/reciprocal, pointwise products, shifts, compositions)"""
    import odl
    while True:
        A = gen_op(rng, S, 1)
        if not A.linear:
            break
    f = gen_tree(rng, A.S2, rng.choice([0, 1]), vs)
    py = f.py * A.py if rng.random() < 0.5 else odl.solvers.FunctionalComp(f.py, A.py)
    node = Node(py, '(Xcomp %s %s %s %s)' % (S.wq, A.S2.wq, f.coq, A.coq), ['Comp-nonlinear', f.desc, A.desc], S)
    if rng.random() < 0.5:       # something on top, so that the composition is not the outermost object
        s = rng.choice([2.0, -0.5, 3.0])
        node = Node(s * node.py, '(Xrmul %s %s %s)' % (S.wq, C.q(s), node.coq), ['ov_rmul', s, node.desc], S)
    return node


def measure_variants():
    """No behaviour switch is left: the FunctionalQuadraticPerturb linear flag was repaired in /repo aef4c15
    and the model follows the repaired code."""
    return {}


def vs_term(v):
    return None


def ilip(L):
    L = float(L)
    if L != L:
        return 'INan'
    if L in (float('inf'), float('-inf')):
        return 'IInf'
    return '(IFin %s)' % C.q(L)


_MUTATED = []     # inputs modified by f(x) / f.gradient(x) / f.derivative(x)(d), reported by probes()


def _lip_record(f, sample, rng, desc, where):
    if 'set_grad_lipschitz' in repr(desc):
        return        # the generator itself planted an arbitrary constant on a leaf: nothing is claimed for such trees
    try:
        ok, det = lip_oracle(f, sample, rng, npairs=6, iters=4)
    except Exception as e:
        return
    if not ok:
        det.update({'object': desc, 'space': where})
        _LIPBAD.append(det)


def case_of(rng, S, node, vs):
    x, d = vec(rng, S), vec(rng, S)
    if rng.random() < 0.06:
        x = [0.0] * S.n          # the origin: L2Norm's `norm == 0` branch, sign(0), Huber's inner zone
    f = node.py
    xe, de = S.elem(x), S.elem(d)
    x2 = vec(rng, S)
    x2e = S.elem(x2)
    with np.errstate(all='ignore'):
        val = float(f(xe))
        G = f.gradient               # ONE gradient operator object, evaluated at x, x2 and x again
        g = S.flat(G(xe))
        D = f.derivative(xe)         # ONE derivative object, evaluated at d and x2
        dv = float(D(de))
        g2 = S.flat(G(x2e))
        g1b = S.flat(G(xe))
        val2 = float(f(x2e))
        dv2 = float(D(x2e))
    if S.flat(xe) != x or S.flat(de) != d:
        _MUTATED.append({'tree': node.desc, 'space': S.kind, 'x': x, 'x_after': S.flat(xe), 'd': d,
                         'd_after': S.flat(de)})
    _lip_record(f, lambda: S.elem(vec(rng, S)), rng, node.desc, S.kind)
    if not all(math.isfinite(t) for t in [val, dv, val2, dv2] + g + g2 + g1b):
        return None
    term = ('(mkCase %s %s %s %s %s %s %s %s %s %s %s %s %s %s %s)'
            % (S.wq, node.coq, C.qs(x), C.qs(d), C.q(val), C.qs(g), C.q(dv), ilip(f.grad_lipschitz),
               C.b(bool(f.is_linear)), KIND.get(type(f).__name__, 'KLeaf'),
               C.qs(x2), C.q(val2), C.qs(g2), C.qs(g1b), C.q(dv2)))
    desc = {'space': S.kind, 'weights': S.w, 'tree': node.desc, 'x': x, 'd': d, 'x2': x2}
    key = (S.kind, repr(node.desc), tuple(x), tuple(d)) if (node.derived or node.desc[0] not in ('Constant', 'Zero')) else None
    return term, desc, key


def correspondence(rng, tier):
    var = measure_variants()
    vs = vs_term(var)
    cs = C.CaseSet('trees', ['Base.Vec', 'C09.Model', 'C09.Corr'], 'check', 'case')
    quick = (tier == 'quick')
    # (a) every leaf kind and every derived class / overload at depth 1 on every space kind
    for kind in SPACE_KINDS:
        for rep in range(1 if quick else 3):
            S = make_space(rng, kind)
            for _ in range(4 if quick else 8):
                _add(cs, rng, S, gen_leaf(rng, S), vs)
            for k in DERIVED:
                _add(cs, rng, S, gen_tree(rng, S, 1, vs, force=k), vs)
    # (a2) chains of scalings / translations over leaves with a finite constant: (f*a)*b, ((f*a)*b)*c, mixed
    #      with left scalings, translations, scalar sums, quadratic perturbation (merged scalars of the stored object)
    for i in range(60 if quick else 500):
        S = make_space(rng, rng.choice(SPACE_KINDS))
        _add(cs, rng, S, gen_chain(rng, S, vs), vs)
    # (a3) compositions with NONLINEAR operators (the gradient object is then evaluated at several points)
    for i in range(40 if quick else 300):
        S = make_space(rng, rng.choice(SPACE_KINDS))
        _add(cs, rng, S, gen_nonlinear_comp(rng, S, vs), vs)
    # (a4) user-defined leaves whose gradient ALIASES its argument (or a stored vector), at every position of every
    #      rule; values/gradients vs the model at x, x2, x again, and x bitwise unchanged
    _ALIAS_ONLY[0] = True
    try:
        for kind in (SPACE_KINDS if not quick else SPACE_KINDS[::2]):
            S = make_space(rng, kind)
            for k in DERIVED:
                _add(cs, rng, S, gen_tree(rng, S, 1, vs, force=k), vs)
        for i in range(40 if quick else 300):
            S = make_space(rng, rng.choice(SPACE_KINDS))
            _add(cs, rng, S, gen_tree(rng, S, rng.choice([2, 3]), vs), vs)
    finally:
        _ALIAS_ONLY[0] = False
    # (a5) conjugates: f, f.convex_conj, f.convex_conj.convex_conj where the code has a closed rule, and trees on top
    for i in range(60 if quick else 400):
        S = make_space(rng, rng.choice(SPACE_KINDS))
        f, fc = gen_conjugable(rng, S, rng.choice([0, 0, 1, 2]))
        _add(cs, rng, S, f, vs)
        _add(cs, rng, S, fc, vs)
        if f.desc[0] in ('simple-sq', 'L2NormSquared') or f.desc[0] == 'QuadraticForm-scaling':
            try:
                fcc = Node(fc.py.convex_conj, None, ['conj', fc.desc], S)
            except Exception:
                fcc = None
            if fcc is not None and f.desc[0] == 'simple-sq':
                fcc.coq = f.coq                      # the biconjugate of simple_functional is the original object again
                _add(cs, rng, S, fcc, vs)
        # a derived functional built on the conjugate
        s2 = rng.choice([2.0, -0.5, 3.0, 0.25])
        top = rng.choice(['rmul', 'mul', 'trans', 'sum'])
        w = S.wq
        if top == 'rmul':
            nd = Node(s2 * fc.py, '(Xrmul %s %s %s)' % (w, C.q(s2), fc.coq), ['ov_rmul', s2, fc.desc], S)
        elif top == 'mul':
            nd = Node(fc.py * s2, '(Xmul %s %s %s)' % (w, fc.coq, C.q(s2)), ['ov_mul', fc.desc, s2], S)
        elif top == 'trans':
            t = vec(rng, S)
            nd = Node(fc.py.translated(S.elem(t)), '(Xtranslated %s %s %s)' % (w, fc.coq, C.qs(t)), ['ov_translated', fc.desc, t], S)
        else:
            nd = Node(fc.py + f.py, '(Xsum %s %s %s)' % (w, fc.coq, f.coq), ['ov_add', fc.desc, f.desc], S)
        _add(cs, rng, S, nd, vs)
    # (b) random deeper trees
    ntree = 250 if quick else 2500
    for i in range(ntree):
        S = make_space(rng, rng.choice(SPACE_KINDS))
        depth = rng.choice([2, 2, 3] if quick else [2, 3, 3, 4])
        _add(cs, rng, S, gen_tree(rng, S, depth, vs), vs)
    return [cs, sepsum_cases(rng, tier, vs), moreau_cases(rng, tier), numgrad_cases(rng, tier, vs)]


def sepsum_cases(rng, tier, vs):
    """SeparableSum(f1, f2) of two random trees on two (different) spaces"""
    import odl
    cs = C.CaseSet('sepsum', ['Base.Vec', 'C09.Model', 'C09.Corr'], 'check2', 'case2')
    for i in range(40 if tier == 'quick' else 300):
        S1, S2 = make_space(rng, rng.choice(SPACE_KINDS)), make_space(rng, rng.choice(SPACE_KINDS))
        f1 = gen_tree(rng, S1, rng.choice([0, 1, 2]), vs)
        f2 = gen_tree(rng, S2, rng.choice([0, 1, 2]), vs)
        f = odl.solvers.SeparableSum(f1.py, f2.py)
        _lip_record(f, lambda: f.domain.element([S1.elem(vec(rng, S1)), S2.elem(vec(rng, S2))]), rng,
                    ['SeparableSum', f1.desc, f2.desc], [S1.kind, S2.kind])
        fr = odl.solvers.SeparableSum(f2.py, f1.py)       # the other order of the summands
        _lip_record(fr, lambda: fr.domain.element([S2.elem(vec(rng, S2)), S1.elem(vec(rng, S1))]), rng,
                    ['SeparableSum', f2.desc, f1.desc], [S2.kind, S1.kind])
        x1, x2, d1, d2 = vec(rng, S1), vec(rng, S2), vec(rng, S1), vec(rng, S2)
        xe = f.domain.element([S1.elem(x1), S2.elem(x2)])
        de = f.domain.element([S1.elem(d1), S2.elem(d2)])
        y1, y2 = vec(rng, S1), vec(rng, S2)
        ye = f.domain.element([S1.elem(y1), S2.elem(y2)])
        with np.errstate(all='ignore'):
            val = float(f(xe))
            G = f.gradient                       # one gradient object, two points
            g = G(xe)
            g1, g2 = S1.flat(g[0]), S2.flat(g[1])
            dv = float(f.derivative(xe)(de))
            gy = G(ye)
            h1, h2 = S1.flat(gy[0]), S2.flat(gy[1])
        if not (math.isfinite(val) and math.isfinite(dv) and all(math.isfinite(t) for t in g1 + g2 + h1 + h2)):
            continue
        term = ('(mkCase2 %s %s %s %s %s %s %s %s %s %s %s %s %s %s %s %s %s %s)'
                % (S1.wq, S2.wq, f1.coq, f2.coq, C.qs(x1), C.qs(x2), C.qs(d1), C.qs(d2), C.q(val),
                   C.qs(g1), C.qs(g2), C.q(dv), ilip(f.grad_lipschitz), C.b(bool(f.is_linear)),
                   C.qs(y1), C.qs(y2), C.qs(h1), C.qs(h2)))
        cs.add(term, {'spaces': [S1.kind, S2.kind], 'f1': f1.desc, 'f2': f2.desc, 'x': [x1, x2], 'd': [d1, d2]},
               (S1.kind, S2.kind, repr(f1.desc), repr(f2.desc), tuple(x1), tuple(x2)))
    return cs


def numgrad_cases(rng, tier, vs):
    """NumericalGradient(f, method, step) on 1-d tensor spaces (as the code computes it, weights ignored)"""
    import odl
    cs = C.CaseSet('numgrad', ['Base.Vec', 'C09.Model', 'C09.Corr'], 'check4', 'case4')
    # variant switch of the open finding, measured on its replay input: [4.] = current code, [2.] = repaired
    sp2 = odl.rn(1, weighting=2.0)
    probe = odl.solvers.NumericalGradient(odl.solvers.L2NormSquared(sp2), method='central', step=1.0)([1.0])
    riesz = C.b(abs(float(probe[0]) - 2.0) < 1e-9)
    for kind in ('rn', 'rn1', 'rn_cw', 'rn_cw2', 'rn_aw', 'discr', 'discr_big'):
        for m, mc in (('forward', 'NGForward'), ('backward', 'NGBackward'), ('central', 'NGCentral')):
            for _ in range(2 if tier == 'quick' else 10):
                S = make_space(rng, kind)
                node = gen_tree(rng, S, rng.choice([0, 1, 2]), vs)
                h = rng.choice([0.5, 0.25, 1.0, 2.0])
                x = vec(rng, S)
                x2 = vec(rng, S)
                try:
                    NG = odl.solvers.NumericalGradient(node.py, method=m, step=h)
                    with np.errstate(all='ignore'):
                        out = S.flat(NG(S.elem(x)))
                        out2 = S.flat(NG(S.elem(x2)))
                except Exception as e:
                    _RAISED.append({'tree': ['NumericalGradient', node.desc], 'space': S.kind, 'weights': S.w,
                                    'raised': '%s: %s' % (type(e).__name__, str(e)[:200])})
                    continue
                if not all(math.isfinite(t) for t in out + out2):
                    continue
                term = ('(mkCase4 %s %s %s %s %s %s %s %s %s)'
                        % (riesz, S.wq, node.coq, mc, C.q(h), C.qs(x), C.qs(out), C.qs(x2), C.qs(out2)))
                cs.add(term, {'space': S.kind, 'method': m, 'step': h, 'tree': node.desc, 'x': x},
                       (S.kind, m, h, repr(node.desc), tuple(x)))
    return cs


def moreau_cases(rng, tier):
    """MoreauEnvelope(L2NormSquared | L1Norm, sigma): gradient, derivative, constants"""
    import odl
    cs = C.CaseSet('moreau', ['Base.Vec', 'C09.Model', 'C09.Corr'], 'check3', 'case3')
    for kind in SPACE_KINDS:
        for which in ('l2sq', 'l1'):
            for _ in range(1 if tier == 'quick' else 6):
                S = make_space(rng, kind)
                sigma = rng.choice([0.5, 1.0, 2.0, 0.25, 1.5])
                base = odl.solvers.L2NormSquared(S.sp) if which == 'l2sq' else odl.solvers.L1Norm(S.sp)
                f = odl.solvers.MoreauEnvelope(base, sigma)
                x, d = vec(rng, S), vec(rng, S)
                xe, de = S.elem(x), S.elem(d)
                G = f.gradient                   # one gradient object, two points
                g = S.flat(G(xe))
                dv = float(f.derivative(xe)(de))
                x2 = vec(rng, S)
                g2 = S.flat(G(S.elem(x2)))
                term = ('(mkCase3 %s (%s %s %s) %s %s %s %s %s %s %s %s)'
                        % (S.wq, 'Lmoreau_l2sq' if which == 'l2sq' else 'Lmoreau_l1', S.wq, C.q(sigma),
                           C.qs(x), C.qs(d), C.qs(g), C.q(dv), ilip(f.grad_lipschitz), C.b(bool(f.is_linear)),
                           C.qs(x2), C.qs(g2)))
                cs.add(term, {'space': S.kind, 'functional': which, 'sigma': sigma, 'x': x, 'd': d},
                       (S.kind, which, sigma, tuple(x), tuple(d)))
    return cs


_LIPBAD = []      # generated objects whose finite grad_lipschitz is violated by a sampled pair, reported by probes()
_RAISED = []      # trees on which f(x) / f.gradient(x) / f.derivative(x)(d) raised, reported by probes()


def _add(cs, rng, S, node, vs):
    try:
        r = case_of(rng, S, node, vs)
    except Exception as e:       # keep the rest of the correspondence running; the exception becomes a failed probe
        _RAISED.append({'tree': node.desc, 'space': S.kind, 'weights': S.w,
                        'raised': '%s: %s' % (type(e).__name__, str(e)[:200])})
        return
    if r is not None:
        cs.add(*r)



# ------------------------------------------------------------------ probes
# Each probe evaluates the PROPERTY on the implementation (no model involved).
# run_probe(name, seed) is deterministic in (name, seed); the replay snippet
# calls it again.

def _fd_ok(f, x, d, gi, tol=2e-6):
    """central differences at several steps; a true gradient matches one of them to ~h^2"""
    best = None
    for h in (1e-3, 1e-4, 1e-5, 1e-6):
        num = (f(x + h * d) - f(x - h * d)) / (2 * h)
        err = abs(num - gi) / (1.0 + abs(gi))
        best = err if best is None else min(best, err)
    return best <= tol, best


def _grad_check(f, S, x, d):
    """(ok, detail) for: inner(grad f(x), d) == directional derivative == derivative(x)(d)"""
    xe, de = S.elem(x), S.elem(d)
    g = f.gradient(xe)
    gi = float(g.inner(de))
    dv = float(f.derivative(xe)(de))
    ok1, err = _fd_ok(f, xe, de, gi)
    ok2 = abs(dv - gi) <= 1e-10 * (1 + abs(gi))
    return (ok1 and ok2), {'inner(grad,d)': gi, 'derivative(x)(d)': dv, 'fd_rel_err': err}


def lip_oracle(f, sample, rng, npairs=8, iters=5):
    """The Lipschitz clause of the property, evaluated on the implementation: whenever f.grad_lipschitz is a
    finite L, look for a pair (x, y) with |grad f(x) - grad f(y)| > L |x - y| (1 + 1e-9) in the norm of the space.
    Pairs: random at several scales, close pairs, and power iterations d <- grad f(x + t d) - grad f(x) (for a
    quadratic f this converges to the top eigenvector of the Hessian).  `sample()` returns a domain element.
    Returns (ok, detail); detail carries the worst pair."""
    L = float(f.grad_lipschitz)
    if not math.isfinite(L):
        return True, {'L': repr(L)}
    try:
        G = f.gradient
    except NotImplementedError:
        return True, {'L': L, 'note': 'no gradient implemented'}
    worst = [0.0, None]

    def look(x, y):
        den = float((x - y).norm())
        if not (den > 0 and math.isfinite(den)):
            return None
        g = G(x) - G(y)
        r = float(g.norm()) / den
        if math.isfinite(r) and r > worst[0]:
            worst[0], worst[1] = r, (x, y)
        return g

    with np.errstate(all='ignore'):
        for i in range(npairs):
            sc = [1.0, 0.05, 10.0, 1.0][i % 4]
            x = sc * sample()
            y = x + 0.01 * sample() if i % 3 == 2 else sc * sample()
            look(x, y)
        for t in (1.0, 1e-3):
            x = sample()
            d = sample() - sample()
            for _ in range(iters):
                n = float(d.norm())
                if not (n > 0 and math.isfinite(n)):
                    break
                g = look(x + (t / n) * d, x)
                if g is None:
                    break
                d = g
    ok = worst[0] <= L * (1 + 1e-9) + 1e-12
    det = {'L': L, 'worst_ratio': worst[0]}
    if not ok:
        det['x'], det['y'] = repr(worst[1][0]), repr(worst[1][1])
    return ok, det


def _lip_check(f, S, rng, npairs=12):
    return lip_oracle(f, lambda: S.elem(vec(rng, S)), rng, npairs=max(8, npairs))


def _pos_vec(rng, S, lo=0.3, hi=3.0):
    return [round(rng.uniform(lo, hi), 3) for _ in range(S.n)]


def _away(rng, S, kinks, margin=0.05):
    """a point whose entries keep a margin from the given absolute values"""
    out = []
    for _ in range(S.n):
        while True:
            v = round(rng.uniform(-3, 3), 3)
            if all(abs(abs(v) - k) > margin for k in kinks):
                out.append(v)
                break
    return out


def _class_cases(rng, S):
    """(label, key-suffix, functional, point) for every built-in class with a gradient on S"""
    import odl
    F = odl.solvers
    sp = S.sp
    out = []
    out.append(('L2NormSquared', F.L2NormSquared(sp), vec(rng, S)))
    out.append(('L2Norm', F.L2Norm(sp), vec(rng, S)))
    out.append(('L1Norm', F.L1Norm(sp), _away(rng, S, [0.0])))
    out.append(('ConstantFunctional', F.ConstantFunctional(sp, dy(rng)), vec(rng, S)))
    out.append(('ZeroFunctional', F.ZeroFunctional(sp), vec(rng, S)))
    g = rng.choice([0.5, 1.0, 2.0])
    if S.is_pspace and not sp.is_power_space:
        pass        # Huber needs a power space (PointwiseNorm) -- documented restriction
    else:
        out.append(('Huber', F.Huber(sp, g), _away(rng, S, [g]) if not S.is_pspace else vec(rng, S)))
    out.append(('QuadraticForm-vector', F.QuadraticForm(vector=S.elem(vec(rng, S)), constant=dy(rng)), vec(rng, S)))
    out.append(('QuadraticForm-scaling', F.QuadraticForm(operator=odl.ScalingOperator(sp, dy(rng)),
                                                         vector=S.elem(vec(rng, S))), vec(rng, S)))
    out.append(('QuadraticForm-multiply', F.QuadraticForm(operator=odl.MultiplyOperator(S.elem(vec(rng, S))),
                                                          constant=dy(rng)), vec(rng, S)))
    if not S.is_pspace or sp.is_power_space:
        pr = S.elem(_pos_vec(rng, S))
        out.append(('KullbackLeibler', F.KullbackLeibler(sp), _pos_vec(rng, S)))
        out.append(('KullbackLeibler-prior', F.KullbackLeibler(sp, pr), _pos_vec(rng, S)))
        out.append(('KullbackLeiblerConvexConj', F.KullbackLeibler(sp).convex_conj,
                    [round(rng.uniform(-2, 0.7), 3) for _ in range(S.n)]))
        out.append(('KullbackLeiblerConvexConj-prior', F.KullbackLeibler(sp, pr).convex_conj,
                    [round(rng.uniform(-2, 0.7), 3) for _ in range(S.n)]))
        out.append(('KullbackLeiblerCrossEntropy', F.KullbackLeiblerCrossEntropy(sp), _pos_vec(rng, S)))
        out.append(('KullbackLeiblerCrossEntropy-prior', F.KullbackLeiblerCrossEntropy(sp, pr), _pos_vec(rng, S)))
        out.append(('KullbackLeiblerCrossEntropyConvexConj', F.KullbackLeiblerCrossEntropy(sp).convex_conj,
                    [round(rng.uniform(-1.5, 1.5), 3) for _ in range(S.n)]))
        out.append(('KullbackLeiblerCrossEntropyConvexConj-prior',
                    F.KullbackLeiblerCrossEntropy(sp, pr).convex_conj,
                    [round(rng.uniform(-1.5, 1.5), 3) for _ in range(S.n)]))
    if S.is_pspace and sp.is_power_space:
        for ex in (None, 1, 2, 3):
            out.append(('GroupL1Norm-%s' % ex, F.GroupL1Norm(sp, ex), _away(rng, S, [0.0])))
    return out


def _has_affine_flagged_linear(f):
    """does f contain a FunctionalQuadraticPerturb flagged linear although its constant is non-zero?"""
    import odl
    F = odl.solvers
    if isinstance(f, F.FunctionalQuadraticPerturb) and f.is_linear and f.constant != 0:
        return True
    for attr in ('functional', 'left', 'right', 'operator'):
        g = getattr(f, attr, None)
        if isinstance(g, F.Functional) and g is not f and _has_affine_flagged_linear(g):
            return True
    return False


def _moreau_value(f, sigma, x):
    p = f.proximal(sigma)(x)
    return float(f(p) + (x - p).inner(x - p) / (2 * sigma))


def run_probe(name, seed):
    """Deterministic evaluation of one probe; returns (ok, key, what, detail)."""
    import random
    import odl
    F = odl.solvers
    rng = random.Random('%s-%s' % (name, seed))
    _FLOATS[0] = True
    try:
        return _run_probe(name, rng, odl, F)
    finally:
        _FLOATS[0] = False


def _run_probe(name, rng, odl, F):
    kind, _, arg = name.partition(':')
    if kind == 'class':
        # arg = "<space kind>/<index in _class_cases>"
        sk, idx = arg.split('/')
        S = make_space(rng, sk)
        if S.array_weighted and False:
            pass
        cases = _class_cases(rng, S)
        label, f, x = cases[int(idx) % len(cases)]
        d = vec(rng, S)
        key = 'grad-%s-%s' % (label, sk)
        what = '%s on %s: inner(gradient(x), d) vs directional derivative vs derivative(x)(d)' % (label, sk)
        if label == 'Huber' and S.array_weighted:
            key = 'huber-array-weighting-raises'      # fixed finding: must stay silent, alarms if it returns
        try:
            ok, det = _grad_check(f, S, x, d)
            if ok:
                ok, det2 = _lip_check(f, S, rng)
                det.update(det2)
        except Exception as e:
            ok, det = False, {'raised': '%s: %s' % (type(e).__name__, str(e)[:200])}
        det.update({'x': x, 'd': d, 'space': repr(S.sp)})
        return ok, key, what, det
    if kind == 'tree':
        sk, depth = arg.split('/')
        S = make_space(rng, sk)
        node = gen_tree(rng, S, int(depth), vs_term(measure_variants()))
        x, d = vec(rng, S), vec(rng, S)
        top = node.desc[0]
        try:
            ok, det = _grad_check(node.py, S, x, d)
            key = 'tree-grad-%s' % top
            if ok:
                ok, det2 = _lip_check(node.py, S, rng)
                det.update(det2)
                if not ok:
                    key = 'tree-lipschitz-%s' % top
        except Exception as e:
            ok, key, det = False, 'tree-raises-%s' % top, {'raised': '%s: %s' % (type(e).__name__, str(e)[:200])}
        det.update({'tree': node.desc, 'x': x, 'd': d, 'space': repr(S.sp)})
        return ok, key, 'random tree (top %s) on %s: gradient vs directional derivative; Lipschitz ratio' % (top, sk), det
    if kind == 'nary':
        # n-ary constructors under EVERY permutation of their arguments, with nan / finite / inf constants in
        # every position: whenever the advertised constant is finite it must bound the gradient differences
        import itertools
        ctor, n = arg.split('/')
        n = int(n)

        def leafpool(S):
            big = rng.choice([6.0, 8.0])
            pool = [('L2NormSquared', F.L2NormSquared(S.sp)),
                    ('5*L2NormSquared', 5 * F.L2NormSquared(S.sp)),
                    ('QuadraticForm(%g*I)' % big, F.QuadraticForm(operator=odl.ScalingOperator(S.sp, big))),   # nan, true 2*big
                    ('QuadraticForm(M*.)', F.QuadraticForm(operator=odl.MultiplyOperator(S.elem(vec(rng, S, lo=4, hi=9))))),
                    ('Constant', F.ConstantFunctional(S.sp, dy(rng))),
                    ('L1Norm', F.L1Norm(S.sp))]
            if not S.is_pspace:
                pool.append(('Huber', F.Huber(S.sp, rng.choice([0.5, 2.0]))))
            finf = F.L2NormSquared(S.sp)
            finf.grad_lipschitz = float('inf')         # an honest "no finite bound known"
            pool.append(('L2NormSquared[inf]', finf))
            return pool

        if ctor == 'sepsum':
            spaces = [make_space(rng, rng.choice(['rn', 'rn_cw', 'rn_aw', 'discr', 'pspace_w'])) for _ in range(n)]
        else:
            S0 = make_space(rng, rng.choice(['rn', 'rn_cw', 'rn_aw', 'discr', 'discr2d', 'pspace_w']))
            spaces = [S0] * n
        items = []
        for i, S in enumerate(spaces):
            pool = leafpool(S)
            # position 0 always a nan-advertised quadratic with a large true constant, position 1 a finite one
            pick = pool[2] if i == 0 else (pool[rng.choice([0, 1])] if i == 1 else rng.choice(pool))
            items.append((pick[0], pick[1], S))
        bad = []
        perms = list(itertools.permutations(range(n)))
        for perm in perms:
            fs = [items[i] for i in perm]
            names = [t[0] for t in fs]
            if ctor == 'sepsum':
                f = F.SeparableSum(*[t[1] for t in fs])
                sps = [t[2] for t in fs]
                sample = lambda: f.domain.element([S.elem(vec(rng, S)) for S in sps])
            elif ctor == 'sum':
                f = fs[0][1]
                for t in fs[1:]:
                    f = f + t[1]
                sample = lambda: S0.elem(vec(rng, S0))
            elif ctor == 'sumr':       # right-nested FunctionalSum
                f = fs[-1][1]
                for t in reversed(fs[:-1]):
                    f = F.FunctionalSum(t[1], f)
                sample = lambda: S0.elem(vec(rng, S0))
            elif ctor == 'infconv':
                f = F.InfimalConvolution(fs[0][1], fs[1][1])
                L = float(f.grad_lipschitz)
                if math.isfinite(L):
                    bad.append({'order': names, 'L': L, 'note': 'InfimalConvolution has no gradient; a finite constant bounds nothing'})
                continue
            else:
                raise ValueError(ctor)
            ok, det = lip_oracle(f, sample, rng, npairs=6, iters=5)
            if not ok:
                det['order'] = names
                bad.append(det)
        return (not bad), 'nary-lipschitz-%s' % ctor, \
            '%s of %d functionals under all %d argument orders (nan/finite/inf constants in every position): a finite ' \
            'grad_lipschitz must bound |grad f(x)-grad f(y)|/|x-y|' % (ctor, n, len(perms)), {'bad': bad[:3]}
    if kind == 'alias':
        # user-defined leaves whose gradient returns its argument / a stored vector, under every rule
        sk, _, rule = arg.partition('/')
        S = make_space(rng, sk)
        _ALIAS_ONLY[0] = True
        try:
            node = gen_tree(rng, S, 1, None, force=rule) if rule else gen_tree(rng, S, 2, None)
        finally:
            _ALIAS_ONLY[0] = False
        f = node.py
        xs = [vec(rng, S) for _ in range(2)]
        d = vec(rng, S)
        bad = []
        try:
            G = f.gradient
            for xv in xs + [xs[0]]:
                xe, de = S.elem(xv), S.elem(d)
                with np.errstate(all='ignore'):
                    gi = float(G(xe).inner(de))
                    v = float(f(xe))
                if S.flat(xe) != xv:
                    bad.append({'x': xv, 'x_after': S.flat(xe), 'what': 'argument modified'})
                    continue
                if not (math.isfinite(gi) and math.isfinite(v)):
                    continue
                ok_fd, err = _fd_ok(f, S.elem(xv), de, gi, tol=2e-5)
                if not ok_fd:
                    bad.append({'x': xv, 'inner(grad,d)': gi, 'fd_rel_err': err})
        except Exception as e:
            bad.append({'raised': '%s: %s' % (type(e).__name__, str(e)[:200])})
        return (not bad), 'aliasing-leaf-%s' % node.desc[0], \
            'tree over user-defined leaves whose gradient aliases its argument: gradient vs finite differences at ' \
            'several points on one gradient object, argument bitwise unchanged', {'bad': bad[:3], 'tree': node.desc}
    if kind == 'conj':
        # f.convex_conj and f.convex_conj.convex_conj: gradient vs directional derivative, advertised constant vs ratios
        S = make_space(rng, arg)
        f, fc = gen_conjugable(rng, S, rng.choice([0, 0, 1, 2]))
        objs = [('conj', fc.py)]
        try:
            objs.append(('biconj', fc.py.convex_conj))
        except Exception:
            pass
        objs.append(('scaled-conj', rng.choice([2.0, 0.5]) * fc.py * rng.choice([3.0, 0.25])))
        bad = []
        for label, g in objs:
            try:
                ok, det = _grad_check(g, S, vec(rng, S), vec(rng, S))
                if ok:
                    ok, det = _lip_check(g, S, rng)
            except NotImplementedError:
                continue
            except Exception as e:
                ok, det = False, {'raised': '%s: %s' % (type(e).__name__, str(e)[:200])}
            if not ok:
                det['object'] = label
                bad.append(det)
        return (not bad), 'conjugate-%s' % f.desc[0], \
            'convex_conj / biconjugate / scaled conjugate of %s: gradient vs directional derivative and finite ' \
            'grad_lipschitz vs observed ratios' % f.desc[0], {'bad': bad[:3], 'functional': f.desc}
    if kind == 'chain':
        # nested argument scalings / left scalings / translations over a leaf with a finite constant
        S = make_space(rng, arg)
        node = gen_chain(rng, S, None)
        x, d = vec(rng, S), vec(rng, S)
        try:
            ok, det = _grad_check(node.py, S, x, d)
            key = 'chain-grad-%s' % node.desc[0]
            if ok:
                ok, det2 = _lip_check(node.py, S, rng, npairs=16)
                det.update(det2)
                if not ok:
                    key = 'chain-lipschitz-%s' % node.desc[0]
        except Exception as e:
            ok, key, det = False, 'chain-raises-%s' % node.desc[0], {'raised': '%s: %s' % (type(e).__name__, str(e)[:200])}
        det.update({'tree': node.desc, 'space': repr(S.sp)})
        return ok, key, 'chain of scalings/translations on %s: gradient and grad_lipschitz vs observed ratios' % arg, det
    if kind == 'reuse':
        # ONE gradient operator object evaluated at several points must agree with fresh objects
        S = make_space(rng, arg)
        node = gen_nonlinear_comp(rng, S, None)
        f = node.py
        pts = [S.elem(vec(rng, S)) for _ in range(3)]
        d = S.elem(vec(rng, S))
        G = f.gradient
        bad = []
        with np.errstate(all='ignore'):
            seq = [G(p) for p in pts] + [G(pts[0])]
            for p, gp in zip(pts + [pts[0]], seq):
                gi = float(gp.inner(d))
                fresh = float(f.gradient(p).inner(d))
                if not (math.isfinite(gi) and math.isfinite(fresh)):
                    continue
                ok_fd, err = _fd_ok(f, p, d, gi, tol=2e-5)
                if abs(gi - fresh) > 1e-9 * (1 + abs(fresh)) or not ok_fd:
                    bad.append({'reused': gi, 'fresh': fresh, 'fd_rel_err': err})
        return (not bad), 'gradient-object-reuse-%s' % node.desc[0], \
            'one f.gradient operator object evaluated at 3 points and again at the first (nonlinear inner operator)', \
            {'bad': bad, 'tree': node.desc, 'space': repr(S.sp)}
    if kind == 'doc':
        # documented values of the derived functionals
        sk = arg
        S = make_space(rng, sk)
        f = gen_tree(rng, S, 1, vs_term(measure_variants())).py
        g = gen_pos(rng, S).py
        x = S.elem(vec(rng, S))
        t, v, u, p, sg = (S.elem(vec(rng, S)) for _ in range(5))
        s, a, c = dy(rng), dy(rng), dy(rng)
        A = gen_op(rng, S, 1)
        fA = gen_tree(rng, A.S2, 1, vs_term(measure_variants())).py
        checks = {
            'scalar-left': ((s * f)(x), s * f(x)),
            'argument-scaling': ((f * s)(x), f(s * x)),
            'argument-scaling-zero': ((f * 0)(x), f(0 * x)),
            'vector-scaling': ((f * v)(x), f(v * x)),
            'sum': ((f + g)(x), f(x) + g(x)),
            'scalar-sum': ((f + c)(x), f(x) + c),
            'difference': ((f - g)(x), f(x) - g(x)),
            'translation': (f.translated(t)(x), f(x - t)),
            'translation-nested': (f.translated(t).translated(v)(x), f(x - t - v)),
            'composition': ((fA * A.py)(x), fA(A.py(x))),
            'product': (F.FunctionalProduct(f, g)(x), f(x) * g(x)),
            'quotient': (F.FunctionalQuotient(f, g)(x), f(x) / g(x)),
            'quadratic-perturbation': (F.FunctionalQuadraticPerturb(f, a, u, c)(x),
                                       f(x) + a * x.inner(x) + x.inner(u) + c),
            'bregman': (f.bregman(p, sg)(x), f(x) - f(p) - sg.inner(x - p)),
        }
        bad = {k: (float(o), float(e)) for k, (o, e) in checks.items()
               if not abs(float(o) - float(e)) <= 1e-9 * (1 + abs(float(e)))}
        key = 'documented-value-%s' % (sorted(bad)[0] if bad else 'all')
        if sorted(bad) == ['argument-scaling'] and _has_affine_flagged_linear(f):
            key = 'quadraticperturb-linear-flag-constant'
        return (not bad), key, 'documented values of derived functionals on %s' % sk, {'bad': bad}
    if kind == 'qp-linear-flag':
        S = make_space(rng, 'rn')
        c = dy(rng)
        qp = F.FunctionalQuadraticPerturb(F.QuadraticForm(vector=S.elem(vec(rng, S))), linear_term=S.elem(vec(rng, S)),
                                          constant=c)
        x = S.elem(vec(rng, S))
        s = dy(rng)
        o, e = float((qp * s)(x)), float(qp(s * x))
        return abs(o - e) <= 1e-9 * (1 + abs(e)), 'quadraticperturb-linear-flag-constant', \
            '(FunctionalQuadraticPerturb(linear f, constant=c) * s)(x) == qp(s*x)', {'observed': o, 'expected': e, 'c': c}
    if kind == 'numgrad':
        sk, method = arg.split('/')
        S = make_space(rng, sk)
        f = rng.choice([F.L2NormSquared(S.sp), F.L2NormSquared(S.sp).translated(S.elem(vec(rng, S)))])
        x, d = S.elem(vec(rng, S)), S.elem(vec(rng, S))
        ng = F.NumericalGradient(f, method=method)
        weighted = any(abs(w - 1.0) > 1e-12 for w in S.w)
        key = 'numericalgradient-weighted-space' if weighted else 'numericalgradient-%s' % method
        try:
            o, e = float(ng(x).inner(d)), float(f.gradient(x).inner(d))
        except IndexError as exc:
            return False, 'numericalgradient-nd-raises', \
                'NumericalGradient on a multi-dimensional tensor space %s' % sk, {'raised': 'IndexError: %s' % exc}
        return abs(o - e) <= 1e-4 * (1 + abs(e)), key, \
            'NumericalGradient(%s) on %s: inner(grad(x), d) vs the exact directional derivative' % (method, sk), \
            {'observed': o, 'expected': e, 'weights': S.w}
    if kind == 'huber-gamma0':
        S = make_space(rng, 'rn')
        f = F.Huber(S.sp, 0)
        x, d = _away(rng, S, [0.0]), vec(rng, S)
        try:
            ok, det = _grad_check(f, S, x, d)
        except Exception as e:
            ok, det = False, {'raised': '%s: %s' % (type(e).__name__, str(e)[:200])}
        return ok, 'huber-gamma0-gradient-raises', 'Huber(space, 0) (= L1 norm) gradient away from 0', det
    if kind == 'scalingfunctional':
        R = odl.RealNumbers()
        s = dy(rng)
        f = F.ScalingFunctional(R, s) if arg == 'scaling' else F.IdentityFunctional(R)
        x, d = dy(rng), dy(rng)
        try:
            gi = float(f.gradient(x)) * d
            num = (f(x + 1e-3 * d) - f(x - 1e-3 * d)) / 2e-3
            dv = float(f.derivative(x)(d))
            ok = abs(gi - num) <= 1e-8 * (1 + abs(num)) and abs(dv - gi) <= 1e-12 * (1 + abs(gi))
            det = {'grad*d': gi, 'fd': num, 'derivative': dv}
        except Exception as e:
            ok, det = False, {'raised': '%s: %s' % (type(e).__name__, str(e)[:200])}
        return ok, 'scalingfunctional-derivative-raises', '%s on RealNumbers: derivative(x)(d)' % type(f).__name__, det
    if kind == 'rosenbrock':
        from odl.solvers.functional.example_funcs import RosenbrockFunctional
        S = make_space(rng, arg)
        if S.n < 2:
            S = SpaceInfo(arg, odl.rn(3) if arg == 'rn' else odl.rn(3, weighting=2.0))
        f = RosenbrockFunctional(S.sp, scale=rng.choice([1.0, 10.0, 100.0]))
        x, d = [t / 2 for t in vec(rng, S)], vec(rng, S)
        ok, det = _grad_check(f, S, x, d)
        weighted = any(abs(w - 1.0) > 1e-12 for w in S.w)
        return ok, 'rosenbrock-weighted-gradient' if weighted else 'rosenbrock-gradient', \
            'RosenbrockFunctional on %s: gradient vs directional derivative' % arg, det
    if kind == 'moreau':
        sk, which = arg.split('/')
        S = make_space(rng, sk)
        sigma = rng.choice([0.5, 1.0, 2.0])
        base = {'l1': F.L1Norm(S.sp), 'l2sq': F.L2NormSquared(S.sp), 'l2': F.L2Norm(S.sp)}[which]
        f = F.MoreauEnvelope(base, sigma)
        x, d = S.elem(vec(rng, S)), S.elem(vec(rng, S))
        gi = float(f.gradient(x).inner(d))
        best = min(abs((_moreau_value(base, sigma, x + h * d) - _moreau_value(base, sigma, x - h * d)) / (2 * h) - gi)
                   for h in (1e-3, 1e-4, 1e-5))
        return best <= 1e-5 * (1 + abs(gi)), 'moreau-gradient-%s-%s' % (which, sk), \
            'MoreauEnvelope(%s, %s) on %s: gradient vs numerical derivative of min_y f(y)+|x-y|^2/(2 sigma)' \
            % (which, sigma, sk), {'inner(grad,d)': gi, 'fd_abs_err': best}
    if kind == 'sepsum':
        S1, S2 = make_space(rng, rng.choice(['rn', 'rn_cw', 'discr'])), make_space(rng, rng.choice(['rn', 'rn_aw', 'discr_big']))
        f1 = gen_tree(rng, S1, 1, vs_term(measure_variants())).py
        f2 = gen_tree(rng, S2, 1, vs_term(measure_variants())).py
        f = F.SeparableSum(f1, f2)
        x = f.domain.element([S1.elem(vec(rng, S1)), S2.elem(vec(rng, S2))])
        d = f.domain.element([S1.elem(vec(rng, S1)), S2.elem(vec(rng, S2))])
        gi = float(f.gradient(x).inner(d))
        dv = float(f.derivative(x)(d))
        ok, err = _fd_ok(f, x, d, gi)
        return ok and abs(dv - gi) <= 1e-10 * (1 + abs(gi)), 'separablesum-gradient', \
            'SeparableSum of two random depth-1 trees: gradient vs directional derivative', {'fd_rel_err': err}
    if kind == 'quadform-alias':
        # QuadraticForm(operator=A, vector=b) when A(x) returns x itself (RealPart on a real space)
        S = make_space(rng, arg)
        b, xv = vec(rng, S), vec(rng, S)
        c = dy(rng)
        f = F.QuadraticForm(operator=odl.RealPart(S.sp), vector=S.elem(b), constant=c)
        x = S.elem(xv)
        o = float(f(x))
        x0 = S.elem(xv)
        e = float(x0.inner(x0 + S.elem(b)) + c)
        unchanged = S.flat(x) == S.flat(x0)
        return (abs(o - e) <= 1e-9 * (1 + abs(e)) and unchanged), 'quadraticform-call-mutates-operator-result', \
            'QuadraticForm(operator=RealPart(space), vector=b)(x) == <x, x + b> + c and x is left unchanged', \
            {'observed': o, 'expected': e, 'x_unchanged': unchanged}
    if kind == 'simple':
        S = make_space(rng, arg)
        f = odl.solvers.functional.functional.simple_functional(
            S.sp, fcall=lambda x: x.inner(x), grad=lambda x: 2 * x, grad_lip=2)
        t = S.elem(vec(rng, S))
        h = (f * dy(rng)).translated(t) + 3 * f
        ok, det = _grad_check(h, S, vec(rng, S), vec(rng, S))
        if ok:
            ok, det = _lip_check(h, S, rng)
        return ok, 'simple-functional-derived-%s' % arg, 'derived functionals of simple_functional: gradient and Lipschitz', det
    raise ValueError(name)


def _probe_names(rng, tier):
    quick = (tier == 'quick')
    names = []
    for sk in SPACE_KINDS:
        for idx in range(21):
            names.append('class:%s/%d' % (sk, idx))
    ntree = 120 if quick else 900
    for i in range(ntree):
        names.append('tree:%s/%d' % (rng.choice(SPACE_KINDS), rng.choice([1, 2, 2, 3] if quick else [2, 3, 3, 4])))
    for sk in SPACE_KINDS:
        for _ in range(1 if quick else 4):
            names.append('doc:%s' % sk)
    for sk in SPACE_KINDS:
        for _ in range(2 if quick else 8):
            names.append('chain:%s' % sk)
            names.append('reuse:%s' % sk)
    for ctor, ns in (('sepsum', (2, 3, 4)), ('sum', (2, 3, 4)), ('sumr', (3,)), ('infconv', (2,))):
        for n in ns:
            for _ in range(1 if quick else 4):
                names.append('nary:%s/%d' % (ctor, n))
    for sk in SPACE_KINDS:
        for _ in range(2 if quick else 8):
            names.append('alias:%s' % sk)
            names.append('conj:%s' % sk)
    for rule in ALIAS_RULES:
        for _ in range(1 if quick else 4):
            names.append('alias:%s/%s' % (rng.choice(SPACE_KINDS), rule))
    names += ['qp-linear-flag'] * 2
    for sk in ('rn', 'rn1', 'rn_cw', 'rn_aw', 'discr', 'discr_big', 'discr2d'):
        for m in ('forward', 'central', 'backward'):
            names.append('numgrad:%s/%s' % (sk, m))
    names += ['huber-gamma0', 'scalingfunctional:scaling', 'scalingfunctional:identity',
              'rosenbrock:rn', 'rosenbrock:rn_cw', 'rosenbrock:rn_aw']
    for sk in ('rn', 'rn_cw', 'rn_aw', 'discr', 'pspace', 'pspace_w'):
        for which in ('l1', 'l2sq', 'l2'):
            names.append('moreau:%s/%s' % (sk, which))
    names += ['quadform-alias:rn', 'quadform-alias:rn_cw', 'quadform-alias:discr']
    names += ['sepsum'] * (3 if quick else 12)
    names += ['simple:%s' % sk for sk in ('rn', 'rn_cw', 'rn_aw', 'discr', 'pspace_w')]
    return names


ALIAS_RULES = ['Prod', 'Quot', 'Sum', 'Comp', 'LeftScal', 'RightScal', 'RightVec', 'QuadPert', 'Bregman', 'Trans',
               'ov_sub', 'ov_mul', 'ov_comp']


def search(rng, broken):
    """Called by the driver when a proof/correspondence is broken and no probe failed: look for a failing input
    of the property itself with the Lipschitz oracle on n-ary constructors (all argument orders), chains and trees."""
    names = []
    for ctor, ns in (('sepsum', (2, 3, 4)), ('sum', (2, 3, 4)), ('sumr', (3,)), ('infconv', (2,))):
        for n in ns:
            names += ['nary:%s/%d' % (ctor, n)] * 4
    for sk in SPACE_KINDS:
        names += ['chain:%s' % sk] * 4 + ['tree:%s/3' % sk] * 3 + ['reuse:%s' % sk] * 2 + ['doc:%s' % sk]
        names += ['alias:%s' % sk] * 2 + ['conj:%s' % sk] * 4 + ['alias:%s/%s' % (sk, r) for r in ALIAS_RULES]
    for name in names:
        seed = rng.getrandbits(40)
        try:
            ok, key, what, det = run_probe(name, seed)
        except Exception:
            continue
        if not ok:
            replay = ("import sys\nsys.path.insert(0, %r)\nfrom harness import c09\n"
                      "ok, key, what, detail = c09.run_probe(%r, %r)\nobserved = detail\n" % (C.VERIF, name, seed))
            return C.Probe(False, key, what, replay, det)
    return None


def probes(rng, tier):
    out = []
    for m in _MUTATED:
        out.append(C.Probe(False, 'call-mutates-input-%s' % m['tree'][0],
                           'f(x), f.gradient(x) or f.derivative(x)(d) modified its argument', None, m))
    del _MUTATED[:]
    for m in _LIPBAD:
        top = m['object'][0] if isinstance(m['object'], list) else str(m['object'])
        out.append(C.Probe(False, 'lipschitz-violated-%s' % top,
                           'a generated object advertises a finite grad_lipschitz that a sampled pair (x, y) violates',
                           None, m))
    del _LIPBAD[:]
    for m in _RAISED:
        out.append(C.Probe(False, 'call-raises-%s-%s' % (m['tree'][0], m['space']),
                           'f(x), f.gradient(x) or f.derivative(x)(d) raised on a generated tree', None, m))
    del _RAISED[:]
    for name in _probe_names(rng, tier):
        seed = rng.getrandbits(40)
        try:
            ok, key, what, det = run_probe(name, seed)
        except Exception as e:     # an unexpected exception of the implementation is a failed probe, not a crash
            import traceback
            ok, key, what, det = False, 'probe-raises-%s' % name.replace(':', '-').replace('/', '-'), \
                'probe %s raised %s' % (name, type(e).__name__), {'traceback': traceback.format_exc()[-600:]}
        replay = ("import sys\nsys.path.insert(0, %r)\nfrom harness import c09\n"
                  "ok, key, what, detail = c09.run_probe(%r, %r)\nobserved = detail\n" % (C.VERIF, name, seed))
        out.append(C.Probe(ok, key, what, replay, det))
    return out
