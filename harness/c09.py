"""C09 functional values / gradients / Lipschitz constants: correspondence + probes.

The Coq model (coq/C09/Model.v) is hand-written; it is tied to /repo on every run
by executing it at Q inside Coq on random functional expression trees and
comparing with what odl returns (value, gradient, derivative, grad_lipschitz,
is_linear, class of the top-level object)."""
import math
from fractions import Fraction

import numpy as np

from . import common as C

PID = 'C09'
SHARD_SIZE = 120
RULE = ('random functional expression trees (depth 0..3 quick, 0..4 thorough) over 14 space kinds (rn with '
        'no/constant/array weighting, uniform_discr 1-d/2-d incl. nodes_on_bdry, power and non-power product '
        'spaces, sizes 1..6), built from every derived class of functional.py through its constructor AND through '
        'the arithmetic overloads (f*s incl. s=0, s*f incl. 0, f+c, f+g, f-g, -f, f/s, f*op, f*vec, translated, '
        'bregman), leaves L2NormSquared/L2Norm/L1Norm/Constant/Zero/Huber/QuadraticForm (vector, scaling, multiply, '
        'matrix operator), a quarter of the leaves with a user-set grad_lipschitz (finite, inf, nan), operators Scaling/Multiply/Identity/Matrix/PowerOperator(2)/shifted/composed; points, '
        'directions, vectors and scalars are small dyadic rationals so float arithmetic is exact up to the '
        'divisions (tolerance 1e-9 relative). A case is non-trivial when the tree has at least one derived node '
        'or a non-constant leaf; distinct by (space kind, tree structure with parameters, x, d). Two further case sets: '
        'SeparableSum of two random trees on two different spaces, and MoreauEnvelope(L2NormSquared | L1Norm, sigma) '
        'gradients on every space kind.')
ASSUMPTIONS = [
    'exact arithmetic: the theorems are about real numbers; rounding, overflow, NaN payloads are out of scope',
    'complex spaces are not modelled (real spaces only)',
    'every space is represented, after flattening, as a list with one positive weight per entry; the harness '
    'measures the weights as <e_i,e_i> and checks that the Gram matrix of the unit vectors is diagonal '
    '(Coq: such list spaces and their products satisfy SpaceLaws)',
    'the executed (Q) instance uses a rational square root of relative accuracy 1e-12 for norms; the proved (R) '
    'instance uses sqrt',
    'leaves and operators enter the all-trees theorems through explicit soundness premises; the premises are '
    'proved for L2NormSquared, L2Norm (x != 0), Constant/Zero, linear and quadratic forms (scaling, multiply), '
    'L1Norm (no zero entry), Huber, the four Kullback-Leibler functionals, MoreauEnvelope (given a minimising, '
    'non-expansive prox; shown for L2NormSquared), SeparableSum, and for the operators Identity/Scaling/Multiply/'
    'PowerOperator(2)/Matrix (unit weights)/A - t/composition',
    'the Kullback-Leibler leaves use ln/exp and exist at R only: their tie to the code is by probes',
    'MoreauEnvelope has no _call in the code: the modelled value is the envelope min_y f(y)+|x-y|^2/(2 sigma)',
    'GroupL1Norm, Huber on power spaces, simple_functional, NumericalGradient, ScalingFunctional and '
    'RosenbrockFunctional are validated by probes only',
    'MatrixOperator inside FunctionalComp is exercised on unweighted rn only (its adjoint on weighted spaces is '
    'the subject of C05)',
]
TRUSTED = [
    'coq/C09/Model.v hand-written transcription of functional.py / default_functionals.py at /repo >= aef4c15, 7ebf769 (validated by the '
    'correspondence on every run)',
    'harness/c09.py tree generator and flattening of odl elements',
]
LEVEL_TEXT = ('Proof: for the model of functional.py, Coq proves by structural induction over ALL expression trees '
              '(arbitrary depth, any real inner-product space incl. weighted/discretized/product ones) that the '
              'modelled gradient is the Frechet gradient of the modelled value in the space\'s own inner product '
              '(hence inner(grad f(x), d) is the directional derivative and equals derivative(x)(d)), given sound '
              'leaves/operators, and that every finite propagated grad_lipschitz bounds '
              '||grad f(x)-grad f(y)|| / ||x-y||; the overload layer (f*s, s*f, f+c, f-g, translated, bregman) is '
              'proved to produce the documented values. The model is tied to the code by an in-Coq differential '
              'correspondence on random trees.')
LEVEL_NOTE = ('Leaves with log/exp/prox (KL, Moreau envelope), group norms and NumericalGradient are probe-validated '
              'only. Exact arithmetic; classical reals + funext axioms as printed by Print Assumptions.')
TECHNIQUE = ('Coq proof by structural induction on a deep embedding of functional arithmetic over an abstract real '
             'inner-product space (Frechet calculus from std Reals) + in-Coq differential correspondence at Q')


# ------------------------------------------------------------------ spaces
class SpaceInfo(object):
    """An odl space with its flattening and effective per-entry weights."""

    def __init__(self, kind, sp):
        import odl
        self.kind, self.sp = kind, sp
        self.is_pspace = isinstance(sp, odl.ProductSpace)
        self.n = self._size(sp)
        # effective weights: Gram matrix of the unit vectors must be diagonal
        es = [self.elem([1.0 if i == j else 0.0 for i in range(self.n)]) for j in range(self.n)]
        self.w = []
        for i in range(self.n):
            for j in range(self.n):
                g = es[i].inner(es[j])
                if i == j:
                    self.w.append(float(g))
                elif g != 0:
                    raise AssertionError('Gram matrix of %r is not diagonal' % (sp,))
        self.wq = C.qs(self.w)
        self.array_weighted = (kind in ('rn_aw',))

    def _size(self, sp):
        import odl
        if isinstance(sp, odl.ProductSpace):
            return sum(self._size(s) for s in sp)
        return int(np.prod(sp.shape))

    def elem(self, flat):
        return self._elem(self.sp, list(flat))

    def _elem(self, sp, flat):
        import odl
        if isinstance(sp, odl.ProductSpace):
            parts, k = [], 0
            for s in sp:
                m = self._size(s)
                parts.append(self._elem(s, flat[k:k + m]))
                k += m
            return sp.element(parts)
        return sp.element(np.array(flat, dtype=float).reshape(sp.shape))

    def flat(self, el):
        return self._flat(self.sp, el)

    def _flat(self, sp, el):
        import odl
        if isinstance(sp, odl.ProductSpace):
            out = []
            for s, e in zip(sp, el):
                out += self._flat(s, e)
            return out
        return [float(v) for v in np.asarray(el).ravel()]


SPACE_KINDS = ['rn', 'rn1', 'rn_cw', 'rn_cw2', 'rn_aw', 'discr', 'discr_big', 'discr2d', 'discr_nb',
               'pspace', 'pspace_w', 'pspace_cw', 'pspace_mixed', 'pspace_discr']


def make_space(rng, kind):
    import odl
    n = rng.randint(2, 4)
    if kind == 'rn':
        sp = odl.rn(n)
    elif kind == 'rn1':
        sp = odl.rn(1)
    elif kind == 'rn_cw':
        sp = odl.rn(n, weighting=rng.choice([2.0, 0.5, 4.0]))
    elif kind == 'rn_cw2':
        sp = odl.rn(1, weighting=rng.choice([2.0, 0.25]))
    elif kind == 'rn_aw':
        sp = odl.rn(n, weighting=[rng.choice([0.5, 1.0, 2.0, 4.0]) for _ in range(n)])
    elif kind == 'discr':
        sp = odl.uniform_discr(0, n * 0.5, n)             # cell volume 1/2
    elif kind == 'discr_big':
        sp = odl.uniform_discr(0, n * 2.0, n)             # cell volume 2
    elif kind == 'discr2d':
        sp = odl.uniform_discr([0, 0], [1.0, 0.5], [2, rng.choice([1, 2, 3])])
    elif kind == 'discr_nb':
        sp = odl.uniform_discr(0, 3, 4, nodes_on_bdry=True)   # non-dyadic, non-uniform weights
    elif kind == 'pspace':
        sp = odl.ProductSpace(odl.rn(rng.choice([1, 2])), rng.choice([2, 3]))
    elif kind == 'pspace_w':
        sp = odl.ProductSpace(odl.rn(2), 2, weighting=[1.0, rng.choice([2.0, 4.0])])
    elif kind == 'pspace_cw':
        sp = odl.ProductSpace(odl.rn(2), 2, weighting=2.0)
    elif kind == 'pspace_mixed':
        sp = odl.ProductSpace(odl.rn(2), odl.rn(rng.choice([1, 3]), weighting=2.0))
    elif kind == 'pspace_discr':
        sp = odl.ProductSpace(odl.uniform_discr(0, 1, 2), 2)
    else:
        raise ValueError(kind)
    return SpaceInfo(kind, sp)


# ------------------------------------------------------------------ random data
_FLOATS = [False]     # probes draw generic reals (3 decimals) instead of dyadic rationals


def dy(rng, lo=-3, hi=3, nz=False):
    """small dyadic rational (correspondence) / generic 3-decimal real (probes)"""
    while True:
        if _FLOATS[0]:
            v = round(rng.uniform(lo, hi), 3)
            if abs(v) < 0.05:
                continue
            return v
        v = rng.randint(lo * 4, hi * 4) / 4.0
        if not nz or v != 0:
            return v


def vec(rng, S, nz=False, lo=-3, hi=3):
    return [dy(rng, lo, hi, nz) for _ in range(S.n)]


def oqs(v):
    return 'None' if v is None else '(Some %s)' % C.qs(v)


# ------------------------------------------------------------------ operators
class OpNode(object):
    def __init__(self, py, coq, desc, S1, S2, linear):
        self.py, self.coq, self.desc, self.S1, self.S2, self.linear = py, coq, desc, S1, S2, linear


def gen_op(rng, S, depth=1):
    """Random operator with domain S (range may be another space)."""
    import odl
    kinds = ['scal', 'mult', 'id', 'square', 'shift']
    if S.kind in ('rn', 'rn1'):
        kinds += ['matrix', 'matrix']
    if depth > 0:
        kinds += ['comp']
    k = rng.choice(kinds)
    w = S.wq
    if k == 'scal':
        s = dy(rng, nz=True)
        return OpNode(odl.ScalingOperator(S.sp, s), '(Oscal %s %s)' % (w, C.q(s)), ['Scaling', s], S, S, True)
    if k == 'mult':
        v = vec(rng, S)
        return OpNode(odl.MultiplyOperator(S.elem(v)), '(Omult %s %s)' % (w, C.qs(v)), ['Multiply', v], S, S, True)
    if k == 'id':
        return OpNode(odl.IdentityOperator(S.sp), '(Oid %s)' % w, ['Identity'], S, S, True)
    if k == 'square':
        return OpNode(odl.PowerOperator(S.sp, 2), '(Osquare %s)' % w, ['Power2'], S, S, False)
    if k == 'matrix':
        m = rng.randint(1, 3)
        S2 = SpaceInfo('rn', odl.rn(m))
        M = [[dy(rng, -2, 2) for _ in range(S.n)] for _ in range(m)]
        return OpNode(odl.MatrixOperator(np.array(M, dtype=float), domain=S.sp, range=S2.sp),
                      '(Omat %s %s %s)' % (w, S2.wq, C.qss(M)), ['Matrix', M], S, S2, True)
    if k == 'shift':
        A = gen_op(rng, S, 0)
        t = vec(rng, A.S2)
        return OpNode(A.py - A.S2.elem(t), '(Oshift %s %s %s %s)' % (w, A.S2.wq, A.coq, C.qs(t)),
                      ['Shift', A.desc, t], S, A.S2, False)
    B = gen_op(rng, S, depth - 1)
    A = gen_op(rng, B.S2, 0)
    return OpNode(A.py * B.py, '(Ocomp %s %s %s %s %s)' % (w, B.S2.wq, A.S2.wq, A.coq, B.coq),
                  ['Comp', A.desc, B.desc], S, A.S2, A.linear and B.linear)


# ------------------------------------------------------------------ functionals
class Node(object):
    def __init__(self, py, coq, desc, S, derived=True):
        self.py, self.coq, self.desc, self.S, self.derived = py, coq, desc, S, derived


def gen_leaf(rng, S, positive=False):
    """a leaf; in the exact (correspondence) mode a quarter of them get a user-set grad_lipschitz"""
    node = _gen_leaf(rng, S, positive)
    if not _FLOATS[0] and not positive and rng.random() < 0.25:
        c = rng.choice([float('nan'), float('inf'), 0.0, 1.0, 3.5, 0.25])
        node.py.grad_lipschitz = c
        term = 'LNan' if c != c else ('LInf' if c == float('inf') else '(LFin %s)' % C.q(c))
        inner = node.coq[len('(Xleaf %s ' % S.wq):-1]
        node = Node(node.py, '(Xleaf %s (Lsetlip %s %s %s))' % (S.wq, S.wq, inner, term),
                    ['set_grad_lipschitz', node.desc, repr(c)], S, True)
    return node


def _gen_leaf(rng, S, positive=False):
    import odl
    F = odl.solvers
    w = S.wq
    kinds = ['l2sq', 'l2sq', 'l2', 'l1', 'const', 'zero', 'lin', 'quad_scal', 'quad_mult']
    if not S.is_pspace:       # Huber on tensor spaces incl. array weighting (repaired in /repo bec7266)
        kinds += ['huber', 'huber']
    if S.kind in ('rn', 'rn1'):
        kinds += ['quad_mat']
    if positive:
        kinds = ['l2sq', 'l1'] + (['huber'] if 'huber' in kinds else [])
    k = rng.choice(kinds)
    if k == 'l2sq':
        return Node(F.L2NormSquared(S.sp), '(Xleaf %s (Ll2sq %s))' % (w, w), ['L2NormSquared'], S, False)
    if k == 'l2':
        return Node(F.L2Norm(S.sp), '(Xleaf %s (Ll2 %s))' % (w, w), ['L2Norm'], S, False)
    if k == 'l1':
        return Node(F.L1Norm(S.sp), '(Xleaf %s (Ll1 %s))' % (w, w), ['L1Norm'], S, False)
    if k == 'const':
        c = dy(rng)
        return Node(F.ConstantFunctional(S.sp, c), '(Xleaf %s (Lconst %s %s))' % (w, w, C.q(c)), ['Constant', c], S, False)
    if k == 'zero':
        return Node(F.ZeroFunctional(S.sp), '(Xleaf %s (Lconst %s 0))' % (w, w), ['Zero'], S, False)
    if k == 'huber':
        g = rng.choice([0.5, 1.0, 2.0, 0.25, 4.0])
        return Node(F.Huber(S.sp, g), '(Xleaf %s (Lhuber %s %s))' % (w, w, C.q(g)), ['Huber', g], S, False)
    if k == 'lin':
        b = vec(rng, S)
        c = rng.choice([0.0, 0.0, dy(rng)])
        return Node(F.QuadraticForm(vector=S.elem(b), constant=c),
                    '(Xleaf %s (Llin %s %s %s))' % (w, w, C.qs(b), C.q(c)), ['QuadraticForm-vector', b, c], S, False)
    b = rng.choice([None, vec(rng, S)])
    c = rng.choice([0.0, dy(rng)])
    bel = None if b is None else S.elem(b)
    if k == 'quad_scal':
        s = dy(rng, nz=True)
        return Node(F.QuadraticForm(operator=odl.ScalingOperator(S.sp, s), vector=bel, constant=c),
                    '(Xleaf %s (Lquad_scal %s %s %s %s))' % (w, w, C.q(s), oqs(b), C.q(c)),
                    ['QuadraticForm-scaling', s, b, c], S, False)
    if k == 'quad_mult':
        v = vec(rng, S)
        return Node(F.QuadraticForm(operator=odl.MultiplyOperator(S.elem(v)), vector=bel, constant=c),
                    '(Xleaf %s (Lquad_mult %s %s %s %s))' % (w, w, C.qs(v), oqs(b), C.q(c)),
                    ['QuadraticForm-multiply', v, b, c], S, False)
    M = [[dy(rng, -2, 2) for _ in range(S.n)] for _ in range(S.n)]
    return Node(F.QuadraticForm(operator=odl.MatrixOperator(np.array(M, dtype=float), domain=S.sp, range=S.sp),
                                vector=bel, constant=c),
                '(Xleaf %s (Lquad_mat %s %s %s %s))' % (w, w, C.qss(M), oqs(b), C.q(c)),
                ['QuadraticForm-matrix', M, b, c], S, False)


def gen_pos(rng, S):
    """a functional that is >= 1/4 everywhere (divisor of a quotient)"""
    f = gen_leaf(rng, S, positive=True)
    c = rng.choice([0.25, 0.5, 1.0, 2.0])
    w = S.wq
    return Node(f.py + c, '(Xadds %s %s %s)' % (w, f.coq, C.q(c)), ['add_scalar', f.desc, c], S)


DERIVED = ['LeftScal', 'RightScal', 'RightVec', 'Sum', 'ScalarSum', 'Trans', 'Comp', 'QuadPert', 'Prod', 'Quot',
           'Bregman', 'ov_mul', 'ov_mul0', 'ov_rmul', 'ov_rmul0', 'ov_add', 'ov_adds', 'ov_sub', 'ov_neg', 'ov_div',
           'ov_comp', 'ov_vec', 'ov_translated', 'ov_bregman']


def gen_tree(rng, S, depth, vs, force=None):
    import odl
    F = odl.solvers
    if depth <= 0:
        return gen_leaf(rng, S)
    k = force or rng.choice(DERIVED)
    w = S.wq
    sub = lambda: gen_tree(rng, S, depth - 1 if rng.random() < 0.7 else 0, vs)
    if k == 'LeftScal':
        f, s = sub(), dy(rng)
        return Node(F.FunctionalLeftScalarMult(f.py, s), '(Xlscal %s %s %s)' % (w, C.q(s), f.coq), [k, s, f.desc], S)
    if k == 'RightScal':
        f, s = sub(), dy(rng)
        return Node(F.FunctionalRightScalarMult(f.py, s), '(Xrscal %s %s %s)' % (w, f.coq, C.q(s)), [k, f.desc, s], S)
    if k in ('RightVec', 'ov_vec'):
        f, v = sub(), vec(rng, S)
        py = F.FunctionalRightVectorMult(f.py, S.elem(v)) if k == 'RightVec' else f.py * S.elem(v)
        return Node(py, '(Xrvec %s %s %s)' % (w, f.coq, C.qs(v)), [k, f.desc, v], S)
    if k in ('Sum', 'ov_add'):
        f, g = sub(), sub()
        py = F.FunctionalSum(f.py, g.py) if k == 'Sum' else f.py + g.py
        return Node(py, '(Xsum %s %s %s)' % (w, f.coq, g.coq), [k, f.desc, g.desc], S)
    if k in ('ScalarSum', 'ov_adds'):
        f, c = sub(), dy(rng)
        py = F.FunctionalScalarSum(f.py, c) if k == 'ScalarSum' else (f.py + c if rng.random() < 0.5 else c + f.py)
        return Node(py, '(Xadds %s %s %s)' % (w, f.coq, C.q(c)), [k, f.desc, c], S)
    if k in ('Trans', 'ov_translated'):
        f, t = sub(), vec(rng, S)
        if rng.random() < 0.4:     # nested translations are merged by __init__
            t0 = vec(rng, S)
            f = Node(f.py.translated(S.elem(t0)), '(Xtranslated %s %s %s)' % (w, f.coq, C.qs(t0)),
                     ['translated', f.desc, t0], S)
        py = F.FunctionalTranslation(f.py, S.elem(t)) if k == 'Trans' else f.py.translated(S.elem(t))
        return Node(py, '(Xtranslated %s %s %s)' % (w, f.coq, C.qs(t)), [k, f.desc, t], S)
    if k in ('Comp', 'ov_comp'):
        A = gen_op(rng, S, 1)
        f = gen_tree(rng, A.S2, depth - 1 if rng.random() < 0.7 else 0, vs)
        py = F.FunctionalComp(f.py, A.py) if k == 'Comp' else f.py * A.py
        return Node(py, '(Xcomp %s %s %s %s)' % (w, A.S2.wq, f.coq, A.coq), [k, f.desc, A.desc], S)
    if k == 'QuadPert':
        f = sub()
        a = rng.choice([0.0, 0.0, dy(rng)])
        u = rng.choice([None, vec(rng, S)])
        c = rng.choice([0.0, dy(rng)])
        py = F.FunctionalQuadraticPerturb(f.py, quadratic_coeff=a, linear_term=None if u is None else S.elem(u),
                                          constant=c)
        return Node(py, '(Xqp %s %s %s %s %s)' % (w, f.coq, C.q(a), oqs(u), C.q(c)), [k, f.desc, a, u, c], S)
    if k == 'Prod':
        f, g = sub(), sub()
        return Node(F.FunctionalProduct(f.py, g.py), '(Xprod %s %s %s)' % (w, f.coq, g.coq), [k, f.desc, g.desc], S)
    if k == 'Quot':
        f, g = sub(), gen_pos(rng, S)
        return Node(F.FunctionalQuotient(f.py, g.py), '(Xquot %s %s %s)' % (w, f.coq, g.coq), [k, f.desc, g.desc], S)
    if k in ('Bregman', 'ov_bregman'):
        f, p, s = sub(), vec(rng, S), vec(rng, S)
        py = F.BregmanDistance(f.py, S.elem(p), S.elem(s)) if k == 'Bregman' else f.py.bregman(S.elem(p), S.elem(s))
        return Node(py, '(Xbreg %s %s %s %s)' % (w, f.coq, C.qs(p), C.qs(s)), [k, f.desc, p, s], S)
    if k in ('ov_mul', 'ov_mul0'):
        f = sub()
        s = 0.0 if k == 'ov_mul0' else dy(rng, nz=True)
        return Node(f.py * s, '(Xmul %s %s %s)' % (w, f.coq, C.q(s)), [k, f.desc, s], S)
    if k in ('ov_rmul', 'ov_rmul0'):
        f = sub()
        s = 0.0 if k == 'ov_rmul0' else dy(rng, nz=True)
        return Node(s * f.py, '(Xrmul %s %s %s)' % (w, C.q(s), f.coq), [k, s, f.desc], S)
    if k == 'ov_sub':
        f, g = sub(), sub()
        return Node(f.py - g.py, '(Xsub %s %s %s)' % (w, f.coq, g.coq), [k, f.desc, g.desc], S)
    if k == 'ov_neg':
        f = sub()
        return Node(-f.py, '(Xneg %s %s)' % (w, f.coq), [k, f.desc], S)
    if k == 'ov_div':
        f = sub()
        s = rng.choice([2.0, 4.0, -2.0, 0.5, -0.25, 8.0])
        return Node(f.py / s, '(Xdiv %s %s %s)' % (w, f.coq, C.q(s)), [k, f.desc, s], S)
    raise ValueError(k)


KIND = {'FunctionalLeftScalarMult': 'KLeftScal', 'FunctionalRightScalarMult': 'KRightScal',
        'FunctionalRightVectorMult': 'KRightVec', 'FunctionalSum': 'KSum', 'FunctionalScalarSum': 'KSum',
        'FunctionalTranslation': 'KTrans', 'FunctionalComp': 'KComp', 'FunctionalQuadraticPerturb': 'KQuadPert',
        'FunctionalProduct': 'KProd', 'FunctionalQuotient': 'KQuot', 'BregmanDistance': 'KBregman'}


def measure_variants():
    """No behaviour switch is left: the FunctionalQuadraticPerturb linear flag was repaired in /repo aef4c15
    and the model follows the repaired code."""
    return {}


def vs_term(v):
    return None


def ilip(L):
    L = float(L)
    if L != L:
        return 'INan'
    if L in (float('inf'), float('-inf')):
        return 'IInf'
    return '(IFin %s)' % C.q(L)


_MUTATED = []     # inputs modified by f(x) / f.gradient(x) / f.derivative(x)(d), reported by probes()


def case_of(rng, S, node, vs):
    x, d = vec(rng, S), vec(rng, S)
    if rng.random() < 0.06:
        x = [0.0] * S.n          # the origin: L2Norm's `norm == 0` branch, sign(0), Huber's inner zone
    f = node.py
    xe, de = S.elem(x), S.elem(d)
    val = float(f(xe))
    g = S.flat(f.gradient(xe))
    dv = float(f.derivative(xe)(de))
    if S.flat(xe) != x or S.flat(de) != d:
        _MUTATED.append({'tree': node.desc, 'space': S.kind, 'x': x, 'x_after': S.flat(xe), 'd': d,
                         'd_after': S.flat(de)})
    if not (math.isfinite(val) and all(math.isfinite(t) for t in g) and math.isfinite(dv)):
        return None
    term = ('(mkCase %s %s %s %s %s %s %s %s %s %s)'
            % (S.wq, node.coq, C.qs(x), C.qs(d), C.q(val), C.qs(g), C.q(dv), ilip(f.grad_lipschitz),
               C.b(bool(f.is_linear)), KIND.get(type(f).__name__, 'KLeaf')))
    desc = {'space': S.kind, 'weights': S.w, 'tree': node.desc, 'x': x, 'd': d}
    key = (S.kind, repr(node.desc), tuple(x), tuple(d)) if (node.derived or node.desc[0] not in ('Constant', 'Zero')) else None
    return term, desc, key


def correspondence(rng, tier):
    var = measure_variants()
    vs = vs_term(var)
    cs = C.CaseSet('trees', ['Base.Vec', 'C09.Model', 'C09.Corr'], 'check', 'case')
    quick = (tier == 'quick')
    # (a) every leaf kind and every derived class / overload at depth 1 on every space kind
    for kind in SPACE_KINDS:
        for rep in range(1 if quick else 3):
            S = make_space(rng, kind)
            for _ in range(4 if quick else 8):
                _add(cs, rng, S, gen_leaf(rng, S), vs)
            for k in DERIVED:
                _add(cs, rng, S, gen_tree(rng, S, 1, vs, force=k), vs)
    # (b) random deeper trees
    ntree = 250 if quick else 2500
    for i in range(ntree):
        S = make_space(rng, rng.choice(SPACE_KINDS))
        depth = rng.choice([2, 2, 3] if quick else [2, 3, 3, 4])
        _add(cs, rng, S, gen_tree(rng, S, depth, vs), vs)
    return [cs, sepsum_cases(rng, tier, vs), moreau_cases(rng, tier)]


def sepsum_cases(rng, tier, vs):
    """SeparableSum(f1, f2) of two random trees on two (different) spaces"""
    import odl
    cs = C.CaseSet('sepsum', ['Base.Vec', 'C09.Model', 'C09.Corr'], 'check2', 'case2')
    for i in range(40 if tier == 'quick' else 300):
        S1, S2 = make_space(rng, rng.choice(SPACE_KINDS)), make_space(rng, rng.choice(SPACE_KINDS))
        f1 = gen_tree(rng, S1, rng.choice([0, 1, 2]), vs)
        f2 = gen_tree(rng, S2, rng.choice([0, 1, 2]), vs)
        f = odl.solvers.SeparableSum(f1.py, f2.py)
        x1, x2, d1, d2 = vec(rng, S1), vec(rng, S2), vec(rng, S1), vec(rng, S2)
        xe = f.domain.element([S1.elem(x1), S2.elem(x2)])
        de = f.domain.element([S1.elem(d1), S2.elem(d2)])
        val = float(f(xe))
        g = f.gradient(xe)
        g1, g2 = S1.flat(g[0]), S2.flat(g[1])
        dv = float(f.derivative(xe)(de))
        if not (math.isfinite(val) and math.isfinite(dv) and all(math.isfinite(t) for t in g1 + g2)):
            continue
        term = ('(mkCase2 %s %s %s %s %s %s %s %s %s %s %s %s %s %s)'
                % (S1.wq, S2.wq, f1.coq, f2.coq, C.qs(x1), C.qs(x2), C.qs(d1), C.qs(d2), C.q(val),
                   C.qs(g1), C.qs(g2), C.q(dv), ilip(f.grad_lipschitz), C.b(bool(f.is_linear))))
        cs.add(term, {'spaces': [S1.kind, S2.kind], 'f1': f1.desc, 'f2': f2.desc, 'x': [x1, x2], 'd': [d1, d2]},
               (S1.kind, S2.kind, repr(f1.desc), repr(f2.desc), tuple(x1), tuple(x2)))
    return cs


def moreau_cases(rng, tier):
    """MoreauEnvelope(L2NormSquared | L1Norm, sigma): gradient, derivative, constants"""
    import odl
    cs = C.CaseSet('moreau', ['Base.Vec', 'C09.Model', 'C09.Corr'], 'check3', 'case3')
    for kind in SPACE_KINDS:
        for which in ('l2sq', 'l1'):
            for _ in range(1 if tier == 'quick' else 6):
                S = make_space(rng, kind)
                sigma = rng.choice([0.5, 1.0, 2.0, 0.25, 1.5])
                base = odl.solvers.L2NormSquared(S.sp) if which == 'l2sq' else odl.solvers.L1Norm(S.sp)
                f = odl.solvers.MoreauEnvelope(base, sigma)
                x, d = vec(rng, S), vec(rng, S)
                xe, de = S.elem(x), S.elem(d)
                g = S.flat(f.gradient(xe))
                dv = float(f.derivative(xe)(de))
                term = ('(mkCase3 %s (%s %s %s) %s %s %s %s %s %s)'
                        % (S.wq, 'Lmoreau_l2sq' if which == 'l2sq' else 'Lmoreau_l1', S.wq, C.q(sigma),
                           C.qs(x), C.qs(d), C.qs(g), C.q(dv), ilip(f.grad_lipschitz), C.b(bool(f.is_linear))))
                cs.add(term, {'space': S.kind, 'functional': which, 'sigma': sigma, 'x': x, 'd': d},
                       (S.kind, which, sigma, tuple(x), tuple(d)))
    return cs


_RAISED = []      # trees on which f(x) / f.gradient(x) / f.derivative(x)(d) raised, reported by probes()


def _add(cs, rng, S, node, vs):
    try:
        r = case_of(rng, S, node, vs)
    except Exception as e:       # keep the rest of the correspondence running; the exception becomes a failed probe
        _RAISED.append({'tree': node.desc, 'space': S.kind, 'weights': S.w,
                        'raised': '%s: %s' % (type(e).__name__, str(e)[:200])})
        return
    if r is not None:
        cs.add(*r)



# ------------------------------------------------------------------ probes
# Each probe evaluates the PROPERTY on the implementation (no model involved).
# run_probe(name, seed) is deterministic in (name, seed); the replay snippet
# calls it again.

def _fd_ok(f, x, d, gi, tol=2e-6):
    """central differences at several steps; a true gradient matches one of them to ~h^2"""
    best = None
    for h in (1e-3, 1e-4, 1e-5, 1e-6):
        num = (f(x + h * d) - f(x - h * d)) / (2 * h)
        err = abs(num - gi) / (1.0 + abs(gi))
        best = err if best is None else min(best, err)
    return best <= tol, best


def _grad_check(f, S, x, d):
    """(ok, detail) for: inner(grad f(x), d) == directional derivative == derivative(x)(d)"""
    xe, de = S.elem(x), S.elem(d)
    g = f.gradient(xe)
    gi = float(g.inner(de))
    dv = float(f.derivative(xe)(de))
    ok1, err = _fd_ok(f, xe, de, gi)
    ok2 = abs(dv - gi) <= 1e-10 * (1 + abs(gi))
    return (ok1 and ok2), {'inner(grad,d)': gi, 'derivative(x)(d)': dv, 'fd_rel_err': err}


def _lip_check(f, S, rng, npairs=12):
    L = float(f.grad_lipschitz)
    if not math.isfinite(L):
        return True, {'L': repr(L)}
    worst = 0.0
    for i in range(npairs):
        scale = [1.0, 1.0, 0.05, 10.0][i % 4]
        y = S.elem([scale * t for t in vec(rng, S)])
        z = y + S.elem([0.01 * t for t in vec(rng, S)]) if i % 3 == 2 else S.elem([scale * t for t in vec(rng, S)])
        den = float((y - z).norm())
        if den == 0:
            continue
        worst = max(worst, float((f.gradient(y) - f.gradient(z)).norm()) / den)
    return worst <= L * (1 + 1e-9) + 1e-12, {'L': L, 'worst_ratio': worst}


def _pos_vec(rng, S, lo=0.3, hi=3.0):
    return [round(rng.uniform(lo, hi), 3) for _ in range(S.n)]


def _away(rng, S, kinks, margin=0.05):
    """a point whose entries keep a margin from the given absolute values"""
    out = []
    for _ in range(S.n):
        while True:
            v = round(rng.uniform(-3, 3), 3)
            if all(abs(abs(v) - k) > margin for k in kinks):
                out.append(v)
                break
    return out


def _class_cases(rng, S):
    """(label, key-suffix, functional, point) for every built-in class with a gradient on S"""
    import odl
    F = odl.solvers
    sp = S.sp
    out = []
    out.append(('L2NormSquared', F.L2NormSquared(sp), vec(rng, S)))
    out.append(('L2Norm', F.L2Norm(sp), vec(rng, S)))
    out.append(('L1Norm', F.L1Norm(sp), _away(rng, S, [0.0])))
    out.append(('ConstantFunctional', F.ConstantFunctional(sp, dy(rng)), vec(rng, S)))
    out.append(('ZeroFunctional', F.ZeroFunctional(sp), vec(rng, S)))
    g = rng.choice([0.5, 1.0, 2.0])
    if S.is_pspace and not sp.is_power_space:
        pass        # Huber needs a power space (PointwiseNorm) -- documented restriction
    else:
        out.append(('Huber', F.Huber(sp, g), _away(rng, S, [g]) if not S.is_pspace else vec(rng, S)))
    out.append(('QuadraticForm-vector', F.QuadraticForm(vector=S.elem(vec(rng, S)), constant=dy(rng)), vec(rng, S)))
    out.append(('QuadraticForm-scaling', F.QuadraticForm(operator=odl.ScalingOperator(sp, dy(rng)),
                                                         vector=S.elem(vec(rng, S))), vec(rng, S)))
    out.append(('QuadraticForm-multiply', F.QuadraticForm(operator=odl.MultiplyOperator(S.elem(vec(rng, S))),
                                                          constant=dy(rng)), vec(rng, S)))
    if not S.is_pspace or sp.is_power_space:
        pr = S.elem(_pos_vec(rng, S))
        out.append(('KullbackLeibler', F.KullbackLeibler(sp), _pos_vec(rng, S)))
        out.append(('KullbackLeibler-prior', F.KullbackLeibler(sp, pr), _pos_vec(rng, S)))
        out.append(('KullbackLeiblerConvexConj', F.KullbackLeibler(sp).convex_conj,
                    [round(rng.uniform(-2, 0.7), 3) for _ in range(S.n)]))
        out.append(('KullbackLeiblerConvexConj-prior', F.KullbackLeibler(sp, pr).convex_conj,
                    [round(rng.uniform(-2, 0.7), 3) for _ in range(S.n)]))
        out.append(('KullbackLeiblerCrossEntropy', F.KullbackLeiblerCrossEntropy(sp), _pos_vec(rng, S)))
        out.append(('KullbackLeiblerCrossEntropy-prior', F.KullbackLeiblerCrossEntropy(sp, pr), _pos_vec(rng, S)))
        out.append(('KullbackLeiblerCrossEntropyConvexConj', F.KullbackLeiblerCrossEntropy(sp).convex_conj,
                    [round(rng.uniform(-1.5, 1.5), 3) for _ in range(S.n)]))
        out.append(('KullbackLeiblerCrossEntropyConvexConj-prior',
                    F.KullbackLeiblerCrossEntropy(sp, pr).convex_conj,
                    [round(rng.uniform(-1.5, 1.5), 3) for _ in range(S.n)]))
    if S.is_pspace and sp.is_power_space:
        for ex in (None, 1, 2, 3):
            out.append(('GroupL1Norm-%s' % ex, F.GroupL1Norm(sp, ex), _away(rng, S, [0.0])))
    return out


def _has_affine_flagged_linear(f):
    """does f contain a FunctionalQuadraticPerturb flagged linear although its constant is non-zero?"""
    import odl
    F = odl.solvers
    if isinstance(f, F.FunctionalQuadraticPerturb) and f.is_linear and f.constant != 0:
        return True
    for attr in ('functional', 'left', 'right', 'operator'):
        g = getattr(f, attr, None)
        if isinstance(g, F.Functional) and g is not f and _has_affine_flagged_linear(g):
            return True
    return False


def _moreau_value(f, sigma, x):
    p = f.proximal(sigma)(x)
    return float(f(p) + (x - p).inner(x - p) / (2 * sigma))


def run_probe(name, seed):
    """Deterministic evaluation of one probe; returns (ok, key, what, detail)."""
    import random
    import odl
    F = odl.solvers
    rng = random.Random('%s-%s' % (name, seed))
    _FLOATS[0] = True
    try:
        return _run_probe(name, rng, odl, F)
    finally:
        _FLOATS[0] = False


def _run_probe(name, rng, odl, F):
    kind, _, arg = name.partition(':')
    if kind == 'class':
        # arg = "<space kind>/<index in _class_cases>"
        sk, idx = arg.split('/')
        S = make_space(rng, sk)
        if S.array_weighted and False:
            pass
        cases = _class_cases(rng, S)
        label, f, x = cases[int(idx) % len(cases)]
        d = vec(rng, S)
        key = 'grad-%s-%s' % (label, sk)
        what = '%s on %s: inner(gradient(x), d) vs directional derivative vs derivative(x)(d)' % (label, sk)
        if label == 'Huber' and S.array_weighted:
            key = 'huber-array-weighting-raises'      # fixed finding: must stay silent, alarms if it returns
        try:
            ok, det = _grad_check(f, S, x, d)
            if ok:
                ok, det2 = _lip_check(f, S, rng)
                det.update(det2)
        except Exception as e:
            ok, det = False, {'raised': '%s: %s' % (type(e).__name__, str(e)[:200])}
        det.update({'x': x, 'd': d, 'space': repr(S.sp)})
        return ok, key, what, det
    if kind == 'tree':
        sk, depth = arg.split('/')
        S = make_space(rng, sk)
        node = gen_tree(rng, S, int(depth), vs_term(measure_variants()))
        x, d = vec(rng, S), vec(rng, S)
        top = node.desc[0]
        try:
            ok, det = _grad_check(node.py, S, x, d)
            key = 'tree-grad-%s' % top
            if ok:
                ok, det2 = _lip_check(node.py, S, rng)
                det.update(det2)
                if not ok:
                    key = 'tree-lipschitz-%s' % top
        except Exception as e:
            ok, key, det = False, 'tree-raises-%s' % top, {'raised': '%s: %s' % (type(e).__name__, str(e)[:200])}
        det.update({'tree': node.desc, 'x': x, 'd': d, 'space': repr(S.sp)})
        return ok, key, 'random tree (top %s) on %s: gradient vs directional derivative; Lipschitz ratio' % (top, sk), det
    if kind == 'doc':
        # documented values of the derived functionals
        sk = arg
        S = make_space(rng, sk)
        f = gen_tree(rng, S, 1, vs_term(measure_variants())).py
        g = gen_pos(rng, S).py
        x = S.elem(vec(rng, S))
        t, v, u, p, sg = (S.elem(vec(rng, S)) for _ in range(5))
        s, a, c = dy(rng), dy(rng), dy(rng)
        A = gen_op(rng, S, 1)
        fA = gen_tree(rng, A.S2, 1, vs_term(measure_variants())).py
        checks = {
            'scalar-left': ((s * f)(x), s * f(x)),
            'argument-scaling': ((f * s)(x), f(s * x)),
            'argument-scaling-zero': ((f * 0)(x), f(0 * x)),
            'vector-scaling': ((f * v)(x), f(v * x)),
            'sum': ((f + g)(x), f(x) + g(x)),
            'scalar-sum': ((f + c)(x), f(x) + c),
            'difference': ((f - g)(x), f(x) - g(x)),
            'translation': (f.translated(t)(x), f(x - t)),
            'translation-nested': (f.translated(t).translated(v)(x), f(x - t - v)),
            'composition': ((fA * A.py)(x), fA(A.py(x))),
            'product': (F.FunctionalProduct(f, g)(x), f(x) * g(x)),
            'quotient': (F.FunctionalQuotient(f, g)(x), f(x) / g(x)),
            'quadratic-perturbation': (F.FunctionalQuadraticPerturb(f, a, u, c)(x),
                                       f(x) + a * x.inner(x) + x.inner(u) + c),
            'bregman': (f.bregman(p, sg)(x), f(x) - f(p) - sg.inner(x - p)),
        }
        bad = {k: (float(o), float(e)) for k, (o, e) in checks.items()
               if not abs(float(o) - float(e)) <= 1e-9 * (1 + abs(float(e)))}
        key = 'documented-value-%s' % (sorted(bad)[0] if bad else 'all')
        if sorted(bad) == ['argument-scaling'] and _has_affine_flagged_linear(f):
            key = 'quadraticperturb-linear-flag-constant'
        return (not bad), key, 'documented values of derived functionals on %s' % sk, {'bad': bad}
    if kind == 'qp-linear-flag':
        S = make_space(rng, 'rn')
        c = dy(rng)
        qp = F.FunctionalQuadraticPerturb(F.QuadraticForm(vector=S.elem(vec(rng, S))), linear_term=S.elem(vec(rng, S)),
                                          constant=c)
        x = S.elem(vec(rng, S))
        s = dy(rng)
        o, e = float((qp * s)(x)), float(qp(s * x))
        return abs(o - e) <= 1e-9 * (1 + abs(e)), 'quadraticperturb-linear-flag-constant', \
            '(FunctionalQuadraticPerturb(linear f, constant=c) * s)(x) == qp(s*x)', {'observed': o, 'expected': e, 'c': c}
    if kind == 'numgrad':
        sk, method = arg.split('/')
        S = make_space(rng, sk)
        f = rng.choice([F.L2NormSquared(S.sp), F.L2NormSquared(S.sp).translated(S.elem(vec(rng, S)))])
        x, d = S.elem(vec(rng, S)), S.elem(vec(rng, S))
        ng = F.NumericalGradient(f, method=method)
        weighted = any(abs(w - 1.0) > 1e-12 for w in S.w)
        key = 'numericalgradient-weighted-space' if weighted else 'numericalgradient-%s' % method
        try:
            o, e = float(ng(x).inner(d)), float(f.gradient(x).inner(d))
        except IndexError as exc:
            return False, 'numericalgradient-nd-raises', \
                'NumericalGradient on a multi-dimensional tensor space %s' % sk, {'raised': 'IndexError: %s' % exc}
        return abs(o - e) <= 1e-4 * (1 + abs(e)), key, \
            'NumericalGradient(%s) on %s: inner(grad(x), d) vs the exact directional derivative' % (method, sk), \
            {'observed': o, 'expected': e, 'weights': S.w}
    if kind == 'huber-gamma0':
        S = make_space(rng, 'rn')
        f = F.Huber(S.sp, 0)
        x, d = _away(rng, S, [0.0]), vec(rng, S)
        try:
            ok, det = _grad_check(f, S, x, d)
        except Exception as e:
            ok, det = False, {'raised': '%s: %s' % (type(e).__name__, str(e)[:200])}
        return ok, 'huber-gamma0-gradient-raises', 'Huber(space, 0) (= L1 norm) gradient away from 0', det
    if kind == 'scalingfunctional':
        R = odl.RealNumbers()
        s = dy(rng)
        f = F.ScalingFunctional(R, s) if arg == 'scaling' else F.IdentityFunctional(R)
        x, d = dy(rng), dy(rng)
        try:
            gi = float(f.gradient(x)) * d
            num = (f(x + 1e-3 * d) - f(x - 1e-3 * d)) / 2e-3
            dv = float(f.derivative(x)(d))
            ok = abs(gi - num) <= 1e-8 * (1 + abs(num)) and abs(dv - gi) <= 1e-12 * (1 + abs(gi))
            det = {'grad*d': gi, 'fd': num, 'derivative': dv}
        except Exception as e:
            ok, det = False, {'raised': '%s: %s' % (type(e).__name__, str(e)[:200])}
        return ok, 'scalingfunctional-derivative-raises', '%s on RealNumbers: derivative(x)(d)' % type(f).__name__, det
    if kind == 'rosenbrock':
        from odl.solvers.functional.example_funcs import RosenbrockFunctional
        S = make_space(rng, arg)
        if S.n < 2:
            S = SpaceInfo(arg, odl.rn(3) if arg == 'rn' else odl.rn(3, weighting=2.0))
        f = RosenbrockFunctional(S.sp, scale=rng.choice([1.0, 10.0, 100.0]))
        x, d = [t / 2 for t in vec(rng, S)], vec(rng, S)
        ok, det = _grad_check(f, S, x, d)
        weighted = any(abs(w - 1.0) > 1e-12 for w in S.w)
        return ok, 'rosenbrock-weighted-gradient' if weighted else 'rosenbrock-gradient', \
            'RosenbrockFunctional on %s: gradient vs directional derivative' % arg, det
    if kind == 'moreau':
        sk, which = arg.split('/')
        S = make_space(rng, sk)
        sigma = rng.choice([0.5, 1.0, 2.0])
        base = {'l1': F.L1Norm(S.sp), 'l2sq': F.L2NormSquared(S.sp), 'l2': F.L2Norm(S.sp)}[which]
        f = F.MoreauEnvelope(base, sigma)
        x, d = S.elem(vec(rng, S)), S.elem(vec(rng, S))
        gi = float(f.gradient(x).inner(d))
        best = min(abs((_moreau_value(base, sigma, x + h * d) - _moreau_value(base, sigma, x - h * d)) / (2 * h) - gi)
                   for h in (1e-3, 1e-4, 1e-5))
        return best <= 1e-5 * (1 + abs(gi)), 'moreau-gradient-%s-%s' % (which, sk), \
            'MoreauEnvelope(%s, %s) on %s: gradient vs numerical derivative of min_y f(y)+|x-y|^2/(2 sigma)' \
            % (which, sigma, sk), {'inner(grad,d)': gi, 'fd_abs_err': best}
    if kind == 'sepsum':
        S1, S2 = make_space(rng, rng.choice(['rn', 'rn_cw', 'discr'])), make_space(rng, rng.choice(['rn', 'rn_aw', 'discr_big']))
        f1 = gen_tree(rng, S1, 1, vs_term(measure_variants())).py
        f2 = gen_tree(rng, S2, 1, vs_term(measure_variants())).py
        f = F.SeparableSum(f1, f2)
        x = f.domain.element([S1.elem(vec(rng, S1)), S2.elem(vec(rng, S2))])
        d = f.domain.element([S1.elem(vec(rng, S1)), S2.elem(vec(rng, S2))])
        gi = float(f.gradient(x).inner(d))
        dv = float(f.derivative(x)(d))
        ok, err = _fd_ok(f, x, d, gi)
        return ok and abs(dv - gi) <= 1e-10 * (1 + abs(gi)), 'separablesum-gradient', \
            'SeparableSum of two random depth-1 trees: gradient vs directional derivative', {'fd_rel_err': err}
    if kind == 'quadform-alias':
        # QuadraticForm(operator=A, vector=b) when A(x) returns x itself (RealPart on a real space)
        S = make_space(rng, arg)
        b, xv = vec(rng, S), vec(rng, S)
        c = dy(rng)
        f = F.QuadraticForm(operator=odl.RealPart(S.sp), vector=S.elem(b), constant=c)
        x = S.elem(xv)
        o = float(f(x))
        x0 = S.elem(xv)
        e = float(x0.inner(x0 + S.elem(b)) + c)
        unchanged = S.flat(x) == S.flat(x0)
        return (abs(o - e) <= 1e-9 * (1 + abs(e)) and unchanged), 'quadraticform-call-mutates-operator-result', \
            'QuadraticForm(operator=RealPart(space), vector=b)(x) == <x, x + b> + c and x is left unchanged', \
            {'observed': o, 'expected': e, 'x_unchanged': unchanged}
    if kind == 'simple':
        S = make_space(rng, arg)
        f = odl.solvers.functional.functional.simple_functional(
            S.sp, fcall=lambda x: x.inner(x), grad=lambda x: 2 * x, grad_lip=2)
        t = S.elem(vec(rng, S))
        h = (f * dy(rng)).translated(t) + 3 * f
        ok, det = _grad_check(h, S, vec(rng, S), vec(rng, S))
        if ok:
            ok, det = _lip_check(h, S, rng)
        return ok, 'simple-functional-derived-%s' % arg, 'derived functionals of simple_functional: gradient and Lipschitz', det
    raise ValueError(name)


def _probe_names(rng, tier):
    quick = (tier == 'quick')
    names = []
    for sk in SPACE_KINDS:
        for idx in range(21):
            names.append('class:%s/%d' % (sk, idx))
    ntree = 120 if quick else 900
    for i in range(ntree):
        names.append('tree:%s/%d' % (rng.choice(SPACE_KINDS), rng.choice([1, 2, 2, 3] if quick else [2, 3, 3, 4])))
    for sk in SPACE_KINDS:
        for _ in range(1 if quick else 4):
            names.append('doc:%s' % sk)
    names += ['qp-linear-flag'] * 2
    for sk in ('rn', 'rn1', 'rn_cw', 'rn_aw', 'discr', 'discr_big', 'discr2d'):
        for m in ('forward', 'central', 'backward'):
            names.append('numgrad:%s/%s' % (sk, m))
    names += ['huber-gamma0', 'scalingfunctional:scaling', 'scalingfunctional:identity',
              'rosenbrock:rn', 'rosenbrock:rn_cw', 'rosenbrock:rn_aw']
    for sk in ('rn', 'rn_cw', 'rn_aw', 'discr', 'pspace', 'pspace_w'):
        for which in ('l1', 'l2sq', 'l2'):
            names.append('moreau:%s/%s' % (sk, which))
    names += ['quadform-alias:rn', 'quadform-alias:rn_cw', 'quadform-alias:discr']
    names += ['sepsum'] * (3 if quick else 12)
    names += ['simple:%s' % sk for sk in ('rn', 'rn_cw', 'rn_aw', 'discr', 'pspace_w')]
    return names


def probes(rng, tier):
    out = []
    for m in _MUTATED:
        out.append(C.Probe(False, 'call-mutates-input-%s' % m['tree'][0],
                           'f(x), f.gradient(x) or f.derivative(x)(d) modified its argument', None, m))
    del _MUTATED[:]
    for m in _RAISED:
        out.append(C.Probe(False, 'call-raises-%s-%s' % (m['tree'][0], m['space']),
                           'f(x), f.gradient(x) or f.derivative(x)(d) raised on a generated tree', None, m))
    del _RAISED[:]
    for name in _probe_names(rng, tier):
        seed = rng.getrandbits(40)
        try:
            ok, key, what, det = run_probe(name, seed)
        except Exception as e:     # an unexpected exception of the implementation is a failed probe, not a crash
            import traceback
            ok, key, what, det = False, 'probe-raises-%s' % name.replace(':', '-').replace('/', '-'), \
                'probe %s raised %s' % (name, type(e).__name__), {'traceback': traceback.format_exc()[-600:]}
        replay = ("import sys\nsys.path.insert(0, %r)\nfrom harness import c09\n"
                  "ok, key, what, detail = c09.run_probe(%r, %r)\nobserved = detail\n" % (C.VERIF, name, seed))
        out.append(C.Probe(ok, key, what, replay, det))
    return out
