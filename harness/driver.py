"""Pipeline of one check:  translate -> prove -> correspond -> probe -> search.
See DESIGN.md section 2.2."""
import importlib
import json
import os
import sys
import time
import traceback

from . import common as C


def _load(pid):
    return importlib.import_module('harness.%s' % pid.lower())


def replay(pid, path):
    C.setup_impl_path()
    data = json.load(open(path))
    snippet = data.get('python')
    if not snippet:
        print('replay %s names a broken obligation, not an input: %s' % (path, data.get('broken')))
        return 1
    env = {}
    try:
        exec(snippet, env)
    except Exception:
        traceback.print_exc()
        print('REPLAY: raised (counts as reproducing the failure)')
        return 1
    ok = bool(env.get('ok'))
    print('REPLAY: property %s %s on this input' % (pid, 'HOLDS' if ok else 'FAILS'))
    for k in ('observed', 'expected'):
        if k in env:
            print('  %s = %r' % (k, env[k]))
    return 0 if ok else 1


def run(pid, tier, seed):
    t0 = time.time()
    mod = _load(pid)
    rng = C.rng_for(pid, seed)
    known = C.load_findings(pid)
    broken = []          # (kind, what, detail)
    lines = []           # output lines
    obligations = discharged = 0
    cov = {}

    # ---- 1. translate
    gen = getattr(mod, 'translate', None)
    gen_files = {}
    if gen is not None:
        try:
            gen_files = gen()
            for rel, text in gen_files.items():
                C.write_if_changed(os.path.join(C.COQ, rel), text)
            obligations += len(gen_files)
            discharged += len(gen_files)
        except C.TranslateError as e:
            obligations += 1
            broken.append(('translator', 'source outside the translator grammar', str(e)))
        except Exception as e:
            obligations += 1
            broken.append(('translator', 'translator crashed', traceback.format_exc()[-800:]))
    cov['generated_files'] = sorted(gen_files)

    # ---- 2. prove
    bad = C.forbidden_scan() + C.section_scan()
    if bad:
        broken.append(('hygiene', 'escape hatch in the development', '; '.join(bad[:5])))
    translator_failed = any(b[0] == 'translator' for b in broken)
    if translator_failed:
        # the Gen file on disk is stale: theorems and shards over it would say nothing about the
        # current source, so they are counted as not discharged and not attempted
        thms = C.theorems_in(os.path.join(C.COQ, pid, 'Props.v'))
        res = {'ok': False, 'theorems': thms, 'log': '', 'wall': 0.0, 'assumptions': [],
               'failed_at': 'not attempted: the translator failed, the generated model is stale', 'closed': 0}
        obligations += max(1, len(thms))
    else:
        res = C.build_props(pid)
        obligations += max(1, len(res['theorems']))
        if res['ok'] and not bad:
            discharged += max(1, len(res['theorems']))
        else:
            if not res['ok']:
                broken.append(('proof', 'no longer checks: %s' % res['failed_at'], res['log'][-1500:]))
    cov['theorems'] = res['theorems']
    cov['print_assumptions_axioms'] = res['assumptions']
    cov['print_assumptions_closed'] = res['closed']
    cov['props_build_s'] = round(res['wall'], 1)

    # ---- 3. correspond
    C.setup_impl_path()
    evaluations = 0
    distinct = set()
    samples = []
    dist = {}
    corr = {'shards': 0, 'ok_shards': 0, 'failures': [], 'cases': 0}
    try:
        if translator_failed:
            raise C.TranslateError('correspondence not attempted: the generated model is stale')
        casesets = mod.correspondence(rng, tier)
        for cs in casesets:
            dist[cs.name] = len(cs.cases)
            for term, desc, key in cs.cases:
                evaluations += 1
                if key is not None:
                    distinct.add(C.digest([cs.name, key]))
            if cs.cases:
                samples.append({'caseset': cs.name, 'case': cs.cases[len(cs.cases) // 2][1]})
        corr = C.run_shards(pid, casesets, shard_size=getattr(mod, 'SHARD_SIZE', 300))
        obligations += corr['shards']
        discharged += corr['ok_shards']
        for name, idx, desc, why in corr['failures'][:20]:
            broken.append(('correspondence', '%s[%d]: %s' % (name, idx, why), desc))
    except C.TranslateError:
        obligations += 1
    except Exception:
        obligations += 1
        broken.append(('correspondence', 'harness crashed while running the implementation',
                       traceback.format_exc()[-1500:]))
    cov['correspondence'] = {'shards': corr['shards'], 'ok_shards': corr['ok_shards'],
                             'cases': corr['cases'], 'failing_cases': len(corr['failures'])}
    cov['input_distribution'] = dist

    # ---- 4. probes (the property evaluated directly on the implementation)
    probe_n = 0
    viol = []            # failing, unlisted probes
    known_seen = []
    pfun = getattr(mod, 'probes', None)
    if pfun is not None:
        try:
            for p in pfun(rng, tier):
                probe_n += 1
                if p.ok:
                    continue
                if p.key in known:
                    if p.key not in known_seen:
                        known_seen.append(p.key)
                else:
                    viol.append(p)
        except Exception:
            broken.append(('probe', 'probe harness crashed', traceback.format_exc()[-1500:]))
    cov['probe_evaluations'] = probe_n
    cov['known_findings_seen'] = known_seen

    # ---- 5. search when something is broken and no probe has a concrete input yet
    if broken and not viol:
        sfun = getattr(mod, 'search', None)
        try:
            found = sfun(rng, broken) if sfun is not None else None
        except Exception:
            found = None
            broken.append(('search', 'search crashed', traceback.format_exc()[-800:]))
        if found is None and pfun is not None and tier != 'thorough':
            try:
                for p in pfun(C.rng_for(pid, seed + 1), 'thorough'):
                    if not p.ok and p.key not in known:
                        found = p
                        break
            except Exception:
                pass
        if found is not None:
            viol.append(found)

    for k in known_seen:
        lines.append('KNOWN-FINDING: property=%s %s' % (pid, known[k]['what']))
    nviol = 0
    seen_keys = set()
    for p in viol:
        if p.key in seen_keys:
            continue
        seen_keys.add(p.key)
        nviol += 1
        path = C.write_replay(pid, 'v%d' % nviol, {
            'property': pid, 'key': p.key, 'what': p.what, 'python': p.replay,
            'detail': p.detail, 'broken': [b[:2] for b in broken]})
        lines.append('VIOLATION property=%s replay=%s' % (pid, path))
        if nviol >= 5:
            break
    if broken and not viol:
        nviol += 1
        path = C.write_replay(pid, 'broken', {
            'property': pid, 'python': None,
            'broken': [{'kind': k, 'what': w, 'detail': d} for k, w, d in broken]})
        lines.append('VIOLATION property=%s replay=%s no-failing-input-found' % (pid, path))

    cov.update({
        'obligations': obligations, 'discharged': discharged,
        'checker_cmd': 'make -C coq %s/Props.vo (coqc 8.16.1, full .vo) ; coqc build/cases/%s/cases_*.v' % (pid, pid),
        'trusted_base': list(getattr(mod, 'TRUSTED', [])) + [
            'Coq 8.16.1 kernel incl. vm_compute (no native_compute)',
            'axioms reported by Print Assumptions on this run: ' + (', '.join(res['assumptions']) or 'none (closed)'),
            'harness/common.py literal printing (float.as_integer_ratio) and parsing of a list nat'],
        'evaluations': evaluations, 'distinct_nontrivial': len(distinct),
        'rule': getattr(mod, 'RULE', ''), 'samples': samples[:6],
        'broken': [{'kind': k, 'what': w} for k, w, _ in broken],
    })
    # optional per-property measurements (anchored-function coverage, generator statistics, ...)
    extra = getattr(mod, 'extra_coverage', None)
    if extra is not None:
        try:
            cov['extra'] = extra()
        except Exception:
            cov['extra'] = {'error': traceback.format_exc()[-400:]}
    C.write_evidence(pid, {
        'property_id': pid, 'tier': tier, 'seed': seed, 'level': 'proof', 'coverage': cov,
        'assumptions': list(getattr(mod, 'ASSUMPTIONS', [])),
        'wall_s': round(time.time() - t0, 2), 'violations': nviol})
    for ln in lines:
        print(ln)
    for k, w, d in broken:
        print('BROKEN[%s] %s' % (k, w))
        if os.environ.get('VERIF_VERBOSE'):
            print(d)
    print('%s tier=%s seed=%d obligations=%d discharged=%d cases=%d probes=%d known=%d violations=%d wall=%.1fs'
          % (pid, tier, seed, obligations, discharged, evaluations, probe_n, len(known_seen), nviol,
             time.time() - t0))
    return 1 if nviol else 0
