"""C20 equality / hashing / membership / element creation: correspondence + probes.

Descriptors (nested Python tuples) are the common input language: `build` makes the real
ODL object, `coq_obj` prints the Gallina term of C20/Syntax.v, `describe` reads a
descriptor back from a real object (used for derived spaces)."""
import itertools

import numpy as np

from . import common as C
from translate import c20_tables as TAB

PID = 'C20'
SHARD_SIZE = 150
INF = float('inf')

DTYPES = {'bool': 'DBool', 'int8': 'DInt8', 'int16': 'DInt16', 'int32': 'DInt32', 'int64': 'DInt64',
          'uint8': 'DUInt8', 'uint16': 'DUInt16', 'uint32': 'DUInt32', 'uint64': 'DUInt64',
          'float16': 'DFloat16', 'float32': 'DFloat32', 'float64': 'DFloat64',
          'complex64': 'DComplex64', 'complex128': 'DComplex128', 'U': 'DStr', 'O': 'DObj',
          'float128': 'DFloat128', 'complex256': 'DComplex256'}


def dtype_name(dt):
    dt = np.dtype(dt)
    if dt.kind in 'US':
        return 'U'
    if dt.kind == 'O':
        return 'O'
    return dt.name


# --------------------------------------------------------------------- identity pools
class Ctx(object):
    """Objects compared by identity in the code: weighting arrays and user callables."""

    def __init__(self):
        self.arrays = {}     # aid -> ndarray
        self.by_id = {}      # id(ndarray) -> aid
        self.funcs = {}      # fid -> callable
        self.func_by_id = {}

    def array(self, aid, shape=None):
        if aid not in self.arrays:
            n = int(np.prod(shape)) if shape != () else 1
            # contents depend on aid % 2 only: different objects with equal bytes exist
            arr = (np.arange(n, dtype=float) % 3 + 1 + (aid % 2)).reshape(shape)
            self.arrays[aid] = arr
            self.by_id[id(arr)] = aid
        return self.arrays[aid]

    def aid_of(self, arr):
        k = id(arr)
        if k not in self.by_id:
            aid = 1000 + len(self.arrays)
            self.arrays[aid] = arr
            self.by_id[k] = aid
        return self.by_id[k]

    def func(self, fid):
        if fid not in self.funcs:
            def f(*args, _fid=fid):
                return 0.0
            self.funcs[fid] = f
            self.func_by_id[id(f)] = fid
        return self.funcs[fid]

    def fid_of(self, f):
        k = id(f)
        if k not in self.func_by_id:
            fid = 1000 + len(self.funcs)
            self.funcs[fid] = f
            self.func_by_id[k] = fid
        return self.func_by_id[k]


# --------------------------------------------------------------------- Coq printers
def zs(xs):
    return C.zs(xs) + '%Z'


def zl(n):
    return '(%d)%%Z' % int(n)


def coq_ext(x):
    if x == INF:
        return 'PInf'
    if x == -INF:
        return 'NInf'
    return '(Fin %s)' % C.q(x)


def coq_expo(e):
    return 'EInf' if e == INF else '(EFin %s)' % C.q(e)


def coq_w(w):
    k = w[0]
    if k == 'const':
        return '(WConst %s %s %s)' % (w[1], C.q(w[2]), coq_expo(w[3]))
    if k == 'array':
        return '(WArray %s %s %s)' % (w[1], zl(w[2]), coq_expo(w[3]))
    if k == 'matrix':
        return '(WMatrix %s %s)' % (zl(w[2]), coq_expo(w[3]))
    return '(%s %s %s)' % ({'inner': 'WInner', 'norm': 'WNorm', 'dist': 'WDist'}[k], w[1], zl(w[2]))


def coq_tsp(t):
    shape, dt, w = t
    return '{| ts_shape := %s; ts_dtype := %s; ts_w := %s |}' % (zs(shape), DTYPES[dt], coq_w(w))


def coq_intv(ends):
    return C.lst(['(%s, %s)' % (coq_ext(a), coq_ext(b)) for a, b in ends])


def coq_part(p):
    ends, grid = p
    return '{| p_intv := %s; p_grid := %s |}' % (coq_intv(ends), C.qss(grid))


def coq_atom(a):
    k = a[0]
    if k == 'num':
        return '(ANum %s)' % C.q(a[1])
    if k == 'str':
        return '(AStr %s)' % zl(a[1])
    if k == 'none':
        return 'ANone'
    return '(AList %s)' % C.qs(a[1])


def coq_obj(d):
    k = d[0]
    if k in ('empty', 'univ', 'complex', 'real', 'int'):
        return {'empty': 'OEmpty', 'univ': 'OUniv', 'complex': 'OComplex', 'real': 'OReal', 'int': 'OInt'}[k]
    if k == 'strings':
        return '(OStrings %s)' % zl(d[1])
    if k in ('cart', 'union', 'inter'):
        return '(%s %s)' % ({'cart': 'OCart', 'union': 'OUnion', 'inter': 'OInter'}[k],
                            C.lst([coq_obj(x) for x in d[1]]))
    if k == 'finite':
        return '(OFinite %s)' % C.lst([coq_atom(a) for a in d[1]])
    if k == 'intv':
        return '(OIntv %s)' % coq_intv(d[1])
    if k == 'grid':
        return '(OGrid %s)' % C.qss(d[1])
    if k == 'tensor':
        return '(OTensor %s)' % coq_tsp(d[1])
    if k == 'discr':
        return '(ODiscr %s %s)' % (coq_part(d[1]), coq_tsp(d[2]))
    if k == 'prod':
        return '(OProd %s %s %s)' % (C.lst([coq_obj(x) for x in d[1]]), coq_w(d[2]),
                                     {'real': 'FReal', 'complex': 'FComplex', None: 'FNone'}[d[3]])
    raise ValueError(d)


def coq_thing(t):
    if t[0] == 'W':
        return '(TW %s)' % coq_w(t[1])
    if t[0] == 'P':
        return '(TPart %s)' % coq_part(t[1])
    return '(TObj %s)' % coq_obj(t)


def coq_variants(v):
    return '{| v_intv_guard := %s; v_arrw_hash_type := %s |}' % (C.b(v['intv_guard']), C.b(v['arrw_hash_type']))


# --------------------------------------------------------------------- building real objects
STRS = ['a', 'b', 'hello', '']


def build_w(w, ctx, shape=None):
    from odl.space import npy_tensors as NT, pspace as PS
    k, kind = w[0], w[1]
    if k == 'const':
        cls = NT.NumpyTensorSpaceConstWeighting if kind == 'KNpy' else PS.ProductSpaceConstWeighting
        return cls(w[2], exponent=w[3])
    if k == 'array':
        cls = NT.NumpyTensorSpaceArrayWeighting if kind == 'KNpy' else PS.ProductSpaceArrayWeighting
        return cls(ctx.array(w[2], shape), exponent=w[3])
    if k == 'matrix':
        from odl.space.weighting import MatrixWeighting
        return MatrixWeighting(ctx.array(w[2], (2, 2)), impl='numpy', exponent=w[3])
    name = {'inner': 'CustomInner', 'norm': 'CustomNorm', 'dist': 'CustomDist'}[k]
    cls = getattr(NT, 'NumpyTensorSpace' + name) if kind == 'KNpy' else getattr(PS, 'ProductSpace' + name)
    return cls(ctx.func(w[2]))


def is_default_w(w):
    return w[0] == 'const' and w[1] == 'KNpy' and w[2] == 1.0 and w[3] == 2.0


def build_tsp(t, ctx, how=0):
    import odl
    shape, dt, w = t
    npdt = {'U': 'U1', 'O': object}.get(dt, dt)
    shp = tuple(shape)
    if is_default_w(w):
        if how == 1 and dt == 'float64':
            return odl.rn(shp if len(shp) != 1 else shp[0])
        if how == 1 and dt == 'complex128':
            return odl.cn(shp)
        if how == 2:
            return odl.tensor_space(shp, dtype=npdt)
        return odl.NumpyTensorSpace(shp, npdt)
    if how == 1 and w[1] == 'KNpy':
        # the keyword spelling of the same weighting
        if w[0] == 'const':
            return odl.NumpyTensorSpace(shp, npdt, weighting=w[2], exponent=w[3])
        if w[0] == 'array':
            return odl.NumpyTensorSpace(shp, npdt, weighting=ctx.array(w[2], shp), exponent=w[3])
        if w[0] in ('inner', 'norm', 'dist'):
            return odl.NumpyTensorSpace(shp, npdt, **{w[0]: ctx.func(w[2])})
    return odl.NumpyTensorSpace(shp, npdt, weighting=build_w(w, ctx, shp))


def build_intv(ends):
    import odl
    return odl.IntervalProd([a for a, _ in ends], [b for _, b in ends])


def build_part(p):
    import odl
    ends, grid = p
    return odl.RectPartition(build_intv(ends), odl.RectGrid(*[np.array(g, dtype=float) for g in grid]))


def build_atom(a):
    if a[0] == 'num':
        x = a[1]
        if a[2] == 'int':
            return int(x)
        if a[2] == 'bool':
            return bool(x)
        return float(x)
    if a[0] == 'str':
        return STRS[a[1]]
    if a[0] == 'none':
        return None
    return [float(x) for x in a[1]]


def build(d, ctx, how=0):
    import odl
    k = d[0]
    if k == 'empty':
        return odl.EmptySet()
    if k == 'univ':
        return odl.UniversalSet()
    if k == 'strings':
        return odl.Strings(d[1])
    if k == 'complex':
        return odl.ComplexNumbers()
    if k == 'real':
        return odl.RealNumbers()
    if k == 'int':
        return odl.Integers()
    if k in ('cart', 'union', 'inter'):
        cls = {'cart': odl.CartesianProduct, 'union': odl.SetUnion, 'inter': odl.SetIntersection}[k]
        return cls(*[build(x, ctx, how) for x in d[1]])
    if k == 'finite':
        return odl.FiniteSet(*[build_atom(a) for a in d[1]])
    if k == 'intv':
        return build_intv(d[1])
    if k == 'grid':
        return odl.RectGrid(*[np.array(g, dtype=float) for g in d[1]])
    if k == 'tensor':
        return build_tsp(d[1], ctx, how)
    if k == 'discr':
        return odl.DiscretizedSpace(build_part(d[1]), build_tsp(d[2], ctx, how))
    if k == 'prod':
        spaces = [build(x, ctx, how) for x in d[1]]
        fld = {'real': odl.RealNumbers(), 'complex': odl.ComplexNumbers(), None: None}[d[3]]
        w = d[2]
        kw = {}
        if not (w[0] == 'const' and w[1] == 'KPs' and w[2] == 1.0 and w[3] == 2.0):
            if how == 1 and w[1] == 'KPs' and w[0] == 'const':
                kw = dict(weighting=w[2], exponent=w[3])
            elif how == 1 and w[1] == 'KPs' and w[0] in ('inner', 'norm', 'dist'):
                kw = {w[0]: ctx.func(w[2])}
            else:
                kw = dict(weighting=build_w(w, ctx, (len(spaces),)))
        elif how == 1:
            kw = dict(exponent=2.0)
        if not spaces:
            kw['field'] = fld
        return odl.ProductSpace(*spaces, **kw)
    raise ValueError(d)


def build_thing(t, ctx, how=0):
    if t[0] == 'W':
        return build_w(t[1], ctx, t[2])
    if t[0] == 'P':
        return build_part(t[1])
    return build(t, ctx, how)


# --------------------------------------------------------------------- reading descriptors back
def describe_w(w, ctx):
    from odl.space import weighting as W, npy_tensors as NT
    kind = 'KNpy' if type(w).__module__.endswith('npy_tensors') else 'KPs'
    if isinstance(w, W.ConstWeighting):
        return ('const', kind, float(w.const), float(w.exponent))
    if isinstance(w, W.ArrayWeighting):
        return ('array', kind, ctx.aid_of(w.array), float(w.exponent))
    if isinstance(w, W.MatrixWeighting):
        return ('matrix', 'KNpy', ctx.aid_of(w.matrix), float(w.exponent))
    if isinstance(w, W.CustomInner):
        return ('inner', kind, ctx.fid_of(w.inner))
    if isinstance(w, W.CustomNorm):
        return ('norm', kind, ctx.fid_of(w.norm))
    if isinstance(w, W.CustomDist):
        return ('dist', kind, ctx.fid_of(w.dist))
    raise ValueError(w)


def describe_tsp(s, ctx):
    return (tuple(int(n) for n in s.shape), dtype_name(s.dtype), describe_w(s.weighting, ctx))


def describe_part(p):
    ends = tuple((float(a), float(b)) for a, b in zip(p.set.min_pt, p.set.max_pt))
    grid = tuple(tuple(float(x) for x in vec) for vec in p.grid.coord_vectors)
    return (ends, grid)


def describe(o, ctx):
    import odl
    if type(o) is odl.NumpyTensorSpace:
        return ('tensor', describe_tsp(o, ctx))
    if type(o) is odl.DiscretizedSpace:
        return ('discr', describe_part(o.partition), describe_tsp(o.tspace, ctx))
    if type(o) is odl.ProductSpace:
        f = o.field
        fld = 'real' if isinstance(f, odl.RealNumbers) else 'complex' if isinstance(f, odl.ComplexNumbers) else None
        return ('prod', tuple(describe(s, ctx) for s in o.spaces), describe_w(o.weighting, ctx), fld)
    if type(o) is odl.IntervalProd:
        return ('intv', tuple((float(a), float(b)) for a, b in zip(o.min_pt, o.max_pt)))
    if type(o) is odl.RectGrid:
        return ('grid', tuple(tuple(float(x) for x in vec) for vec in o.coord_vectors))
    if type(o) is odl.RealNumbers:
        return ('real',)
    if type(o) is odl.ComplexNumbers:
        return ('complex',)
    raise ValueError('cannot describe %r' % (o,))


# --------------------------------------------------------------------- generators
VALS = [0.0, 1.0, 2.0, 3.0, 0.5, -1.0, -0.5, 4.0, 1.5, -3.0]
EXPOS = [2.0, 2.0, 2.0, 1.0, INF, 1.5]
NUM_DTYPES = ['float64', 'float64', 'float64', 'float32', 'complex128', 'complex64', 'int64', 'int32', 'uint8',
              'float16', 'int8', 'int16', 'uint16', 'uint32', 'uint64', 'float16', 'float128', 'complex256']
NONNUM_DTYPES = ['bool', 'U', 'O']


def gen_expo(rng):
    return rng.choice(EXPOS)


def gen_w(rng, kind=None, allow_array=True, narr=4):
    kind = kind or rng.choice(['KNpy', 'KNpy', 'KPs'])
    r = rng.random()
    if r < 0.45:
        return ('const', kind, rng.choice([1.0, 1.0, 2.0, 0.5, 0.25, 3.0]), gen_expo(rng))
    if r < 0.7 and allow_array:
        return ('array', kind, rng.randrange(narr), gen_expo(rng))
    if r < 0.76:
        # a dense MatrixWeighting; matrix objects 9000..9003 are 2x2 (exponents that need no eigen-decomposition)
        return ('matrix', 'KNpy', 9000 + rng.randrange(4), rng.choice([2.0, 1.0, INF]))
    return (rng.choice(['inner', 'norm', 'dist']), kind, rng.randrange(3))


def gen_shape(rng, maxdim=3):
    nd = rng.choice([0, 1, 1, 1, 2, 2, 3][:2 + 2 * maxdim - 1] if maxdim < 3 else [0, 1, 1, 1, 2, 2, 3])
    return tuple(rng.choice([1, 2, 2, 3, 4, 0] if rng.random() < 0.1 else [1, 2, 3, 4]) for _ in range(nd))


def gen_tsp(rng, shape=None):
    shape = gen_shape(rng) if shape is None else tuple(shape)
    r = rng.random()
    if r < 0.12:
        return (shape, rng.choice(NONNUM_DTYPES), ('const', 'KNpy', 1.0, 2.0))
    dt = rng.choice(NUM_DTYPES)
    if rng.random() < 0.35:
        return (shape, dt, ('const', 'KNpy', 1.0, 2.0))
    w = gen_w(rng, allow_array=dt in ('float64', 'complex128'))
    if w[0] == 'array':
        # an array object is tied to one shape: aid encodes the shape
        w = ('array', w[1], array_id(shape, w[2]), w[3])
    return (shape, dt, w)


_SHAPE_IDS = {}


def array_id(shape, j):
    """Array identities are per shape (the same array object cannot have two shapes)."""
    k = _SHAPE_IDS.setdefault(tuple(shape), len(_SHAPE_IDS))
    return 10 * k + j


def gen_axis(rng):
    """One axis of a partition: (min, max, grid vector) with the grid inside [min, max]."""
    n = rng.choice([1, 2, 2, 3, 4])
    lo = rng.choice([0.0, -1.0, 0.0, -0.0, 1.0, -2.0])
    step = rng.choice([0.5, 1.0, 0.25, 2.0])
    if rng.random() < 0.7:
        # uniform, cell centred or nodes on boundary
        mode = rng.randrange(3)
        if mode == 0 or n == 1:
            g = [lo + step * (i + 0.5) for i in range(n)]
            hi = lo + step * n
        elif mode == 1:
            g = [lo + step * i for i in range(n)]
            hi = lo + step * (n - 1)
        else:
            g = [lo + step * i for i in range(n)]
            hi = lo + step * (n - 0.5)
    else:
        g = sorted(rng.sample([lo + 0.25 * i for i in range(12)], n))
        hi = g[-1] + rng.choice([0.0, 0.5])
        lo = g[0] - rng.choice([0.0, 0.5]) if lo != 0 or g[0] != 0 else g[0]
    return (min(lo, g[0]), hi, tuple(g))


def gen_part(rng, nd=None):
    nd = rng.choice([1, 1, 2, 2, 3, 0]) if nd is None else nd
    axes = [gen_axis(rng) for _ in range(nd)]
    return (tuple((a[0], a[1]) for a in axes), tuple(a[2] for a in axes))


def gen_intv(rng):
    nd = rng.choice([0, 1, 1, 2, 2, 3])
    ends = []
    for _ in range(nd):
        a = rng.choice(VALS + [-INF, 0.0, 0.0, -0.0])
        b = rng.choice([x for x in VALS + [INF, INF] if x >= a])
        ends.append((a, b))
    return ('intv', tuple(ends))


def gen_grid(rng):
    nd = rng.choice([0, 1, 1, 2, 2, 3])
    return ('grid', tuple(tuple(sorted(rng.sample(VALS + [-0.0 + 0.25], rng.choice([1, 2, 3])))) for _ in range(nd)))


def gen_atom(rng):
    r = rng.random()
    if r < 0.55:
        x = rng.choice([0, 1, 2, 3, -1, 0.5, 1.5])
        ty = rng.choice(['int', 'float', 'bool']) if x in (0, 1) else ('float' if x != int(x) else rng.choice(['int', 'float']))
        return ('num', float(x), ty)
    if r < 0.8:
        return ('str', rng.randrange(len(STRS)))
    if r < 0.9:
        return ('none',)
    return ('list', tuple(rng.choice([0.0, 1.0, 2.0]) for _ in range(rng.choice([0, 1, 2]))))


def gen_space(rng, depth, field=None):
    """A LinearSpace descriptor with the given field ('real'/'complex'/None = any)."""
    r = rng.random()
    if depth > 0 and r < 0.35:
        return gen_prod(rng, depth, field)
    if r < 0.6:
        t = gen_tsp(rng)
    else:
        p = gen_part(rng)
        t = gen_tsp(rng, shape=[len(g) for g in p[1]])
    if field is not None:
        ok = {'real': [d for d in NUM_DTYPES if not d.startswith('complex')],
              'complex': ['complex128', 'complex64', 'complex256']}[field]
        if t[1] not in ok:
            dt = rng.choice(ok)
            w = t[2] if (t[2][0] != 'array' or dt in ('float64', 'complex128')) else ('const', 'KNpy', 1.0, 2.0)
            t = (t[0], dt, w)
    return ('tensor', t) if r < 0.6 else ('discr', p, t)


def field_of(d):
    if d[0] == 'prod':
        return d[3]
    t = d[1] if d[0] == 'tensor' else d[2]
    if t[1].startswith('complex'):
        return 'complex'
    if t[1] in ('bool', 'U', 'O'):
        return None
    return 'real'


def gen_prod(rng, depth, field=None):
    n = rng.choice([0, 1, 2, 2, 3])
    fld = field or rng.choice(['real', 'real', 'complex'])
    if rng.random() < 0.4 and n > 0:
        s = gen_space(rng, depth - 1, fld)
        spaces = [s] * n          # power space
    else:
        spaces = [gen_space(rng, depth - 1, fld) for _ in range(n)]
    w = gen_w(rng, kind=rng.choice(['KPs', 'KPs', 'KPs', 'KNpy']))
    if w[0] == 'array':
        w = ('array', w[1], array_id((n,), w[2]), w[3])
    return ('prod', tuple(spaces), w, fld)


def gen_obj(rng, depth=2):
    r = rng.random()
    if r < 0.12:
        return rng.choice([('empty',), ('univ',), ('complex',), ('real',), ('int',), ('strings', rng.choice([1, 2, 3]))])
    if r < 0.3 and depth > 0:
        k = rng.choice(['cart', 'union', 'inter'])
        return (k, tuple(gen_obj(rng, depth - 1) for _ in range(rng.choice([0, 1, 2, 2, 3]))))
    if r < 0.38:
        return ('finite', tuple(gen_atom(rng) for _ in range(rng.choice([0, 1, 2, 3]))))
    if r < 0.5:
        return gen_intv(rng)
    if r < 0.6:
        return gen_grid(rng)
    return gen_space(rng, depth)


def perturb_num(rng, x):
    if x in (INF, -INF):
        return rng.choice([x, 1.0])
    return rng.choice([x + 1.0, x, -x if x != 0 else -0.0, x + 0.5])


def mutate_w(rng, w):
    r = rng.random()
    kind = w[1]
    if r < 0.3:
        kind = 'KPs' if kind == 'KNpy' else 'KNpy'    # same data, other class family
        return (w[0], kind) + tuple(w[2:])
    if w[0] == 'matrix':
        return ('matrix', 'KNpy', 9000 + rng.randrange(4), w[3]) if r < 0.65 else ('matrix', 'KNpy', w[2], rng.choice([2.0, 1.0, INF]))
    if w[0] in ('const', 'array'):
        if r < 0.55:
            return (w[0], kind, w[2], rng.choice(EXPOS))
        if w[0] == 'const':
            return ('const', kind, rng.choice([1.0, 2.0, 0.5]), w[3])
        return ('array', kind, w[2] - w[2] % 10 + rng.randrange(4), w[3])
    if r < 0.6:
        return (rng.choice(['inner', 'norm', 'dist']), kind, w[2])
    return (w[0], kind, rng.randrange(3))


def mutate_tsp(rng, t):
    shape, dt, w = t
    r = rng.random()
    if dt in NONNUM_DTYPES:
        return (shape, rng.choice(NONNUM_DTYPES + ['float64']), w)
    if r < 0.25 and shape:
        i = rng.randrange(len(shape))
        return (shape[:i] + (shape[i] + 1,) + shape[i + 1:], dt, w if w[0] != 'array' else ('const', 'KNpy', 1.0, 2.0))
    if r < 0.5:
        dt2 = rng.choice(NUM_DTYPES)
        return (shape, dt2, w if (w[0] != 'array' or dt2 in ('float64', 'complex128')) else ('const', 'KNpy', 1.0, 2.0))
    w2 = mutate_w(rng, w)
    if w2[0] == 'array' and dt not in ('float64', 'complex128') and w2[1] == 'KNpy':
        w2 = w
    return (shape, dt, w2)


def mutate_part(rng, p):
    ends, grid = p
    if not ends:
        return gen_part(rng, 1)
    i = rng.randrange(len(ends))
    r = rng.random()
    if r < 0.4:
        a, b = ends[i]
        if rng.random() < 0.5:
            a2 = a - rng.choice([0.5, 0.0])
            e = (a2 if a2 != 0 else rng.choice([0.0, -0.0]), b)
        else:
            e = (a, b + rng.choice([0.5, 0.0]))
        return (ends[:i] + (e,) + ends[i + 1:], grid)
    if r < 0.6 and len(grid[i]) > 1:
        # shift one interior-compatible node
        g = list(grid[i])
        j = rng.randrange(len(g))
        lo = g[j - 1] if j > 0 else ends[i][0]
        hi = g[j + 1] if j + 1 < len(g) else ends[i][1]
        mid = (lo + hi) / 2.0
        if lo < mid < hi and mid != g[j]:
            g[j] = mid
        return (ends, grid[:i] + (tuple(g),) + grid[i + 1:])
    if r < 0.8:
        return (ends + (ends[i],), grid + (grid[i],))     # one more axis
    return (ends[:i] + ends[i + 1:], grid[:i] + grid[i + 1:])


def mutate(rng, d, ctx_depth=0):
    k = d[0]
    if k in ('empty', 'univ', 'complex', 'real', 'int'):
        return rng.choice([('empty',), ('univ',), ('complex',), ('real',), ('int',)])
    if k == 'strings':
        return ('strings', d[1] + rng.choice([0, 1]))
    if k in ('cart', 'union', 'inter'):
        l = list(d[1])
        r = rng.random()
        if r < 0.15:
            return (rng.choice(['cart', 'union', 'inter']), d[1])
        if r < 0.35 and l:
            rng.shuffle(l)
            return (k, tuple(l))
        if r < 0.5 and l:
            return (k, tuple(l + [rng.choice(l)]))          # duplicate
        if r < 0.65 and l:
            del l[rng.randrange(len(l))]
            return (k, tuple(l))
        if r < 0.8:
            return (k, tuple(l + [gen_obj(rng, 0)]))
        if l:
            i = rng.randrange(len(l))
            l[i] = mutate(rng, l[i])
        return (k, tuple(l))
    if k == 'finite':
        l = list(d[1])
        r = rng.random()
        if r < 0.3 and l:
            rng.shuffle(l)
            return (k, tuple(l))
        if r < 0.5 and l:
            return (k, tuple(l + [rng.choice(l)]))
        if r < 0.7 and l:
            i = rng.randrange(len(l))
            a = l[i]
            if a[0] == 'num' and a[1] in (0.0, 1.0):
                l[i] = ('num', a[1], rng.choice(['int', 'float', 'bool']))    # 1 == 1.0 == True
            else:
                l[i] = gen_atom(rng)
            return (k, tuple(l))
        return (k, tuple(l + [gen_atom(rng)]))
    if k == 'intv':
        ends = list(d[1])
        r = rng.random()
        if r < 0.3 and ends:
            i = rng.randrange(len(ends))
            a, b = ends[i]
            if rng.random() < 0.5:
                b2 = perturb_num(rng, b)
                ends[i] = (a, b2 if b2 >= a else b)
            else:
                a2 = perturb_num(rng, a)
                ends[i] = (a2 if a2 <= b else a, b)
            return (k, tuple(ends))
        if r < 0.6 and ends:
            # broadcasting candidates: repeat one axis / keep one axis
            if rng.random() < 0.5:
                return (k, tuple([ends[0]] * rng.choice([2, 3])))
            return (k, (rng.choice(ends),))
        if r < 0.8 and ends:
            return (k, tuple(ends + [rng.choice(ends)]))
        return gen_intv(rng)
    if k == 'grid':
        vecs = list(d[1])
        r = rng.random()
        if r < 0.4 and vecs:
            i = rng.randrange(len(vecs))
            v = list(vecs[i])
            j = rng.randrange(len(v))
            v[j] = -0.0 if v[j] == 0 else v[j]
            if rng.random() < 0.5:
                v = sorted(set(v + [rng.choice(VALS)]))
            vecs[i] = tuple(v)
            return (k, tuple(vecs))
        if r < 0.6 and vecs:
            return (k, tuple(vecs + [vecs[0]]))
        if r < 0.8 and vecs:
            return (k, tuple(vecs[1:]))
        return gen_grid(rng)
    if k == 'tensor':
        if rng.random() < 0.1:
            p = gen_part(rng, len(d[1][0]))
            t = (tuple(len(g) for g in p[1]),) + tuple(d[1][1:])
            if t[2][0] == 'array':
                t = (t[0], t[1], ('const', 'KNpy', 1.0, 2.0))
            return ('discr', p, t)
        return ('tensor', mutate_tsp(rng, d[1]))
    if k == 'discr':
        r = rng.random()
        if r < 0.1:
            return ('tensor', d[2])
        if r < 0.55:
            t = mutate_tsp(rng, d[2])
            if t[0] != d[2][0]:
                t = (d[2][0], t[1], t[2])
            return ('discr', d[1], t)
        p = mutate_part(rng, d[1])
        shape = tuple(len(g) for g in p[1])
        t = d[2]
        if shape != t[0]:
            t = (shape, t[1], t[2] if t[2][0] != 'array' else ('const', 'KNpy', 1.0, 2.0))
        return ('discr', p, t)
    if k == 'prod':
        l = list(d[1])
        r = rng.random()
        if r < 0.3:
            w = mutate_w(rng, d[2])
            return ('prod', d[1], w, d[3])
        if r < 0.45 and l:
            return ('prod', tuple(l + [l[-1]]), d[2] if d[2][0] != 'array' else ('const', 'KPs', 1.0, 2.0), d[3])
        if r < 0.6 and l:
            return ('prod', tuple(l[:-1]), d[2] if d[2][0] != 'array' else ('const', 'KPs', 1.0, 2.0), d[3])
        if r < 0.7 and not l:
            return ('prod', (), d[2], 'complex' if d[3] == 'real' else 'real')
        if l:
            i = rng.randrange(len(l))
            m = mutate(rng, l[i])
            if field_of(m) == d[3] and m[0] in ('tensor', 'discr', 'prod'):
                l[i] = m
        return ('prod', tuple(l), d[2], d[3])
    return d


def gen_thing(rng):
    r = rng.random()
    if r < 0.12:
        w = gen_w(rng)
        shape = (2,)
        if w[0] == 'array':
            w = ('array', w[1], array_id(shape, w[2]), w[3])
        return ('W', w, shape)
    if r < 0.2:
        return ('P', gen_part(rng))
    return gen_obj(rng)


def mutate_thing(rng, t):
    if t[0] == 'W':
        return ('W', mutate_w(rng, t[1]), t[2])
    if t[0] == 'P':
        return ('P', mutate_part(rng, t[1]))
    return mutate(rng, t)



# --------------------------------------------------------------------- near-equal floats
# Every float that enters an equality test (weighting constants, exponents, interval end points,
# grid coordinates, FiniteSet numbers) is compared EXACTLY by the code and by the model (Q).
# These helpers rewrite one such float of a descriptor, so that pairs / triples differ by a
# relative 1e-16 ... 1e-4 or are both tiny; a tolerance-based comparison then disagrees with the model.
NEAR_RELS = [1e-16, 1e-12, 1e-9, 1e-6, 8e-6, 1e-5, 1e-4]
TINY = [1e-9, 8e-9, 1e-12, 3e-9]


def _finite(x):
    return x not in (INF, -INF)


def map_floats(d, fn):
    """Apply fn(kind, x) to every finite float slot of a thing/obj descriptor (fixed traversal order)."""
    def mw(w):
        if w[0] == 'const':
            return ('const', w[1], fn('const', w[2]), fn('expo', w[3]) if _finite(w[3]) else w[3])
        if w[0] in ('array', 'matrix'):
            return (w[0], w[1], w[2], fn('expo', w[3]) if _finite(w[3]) else w[3])
        return w

    def mt(t):
        return (t[0], t[1], mw(t[2]))

    def mi(ends):
        return tuple((fn('lo', a) if _finite(a) else a, fn('hi', b) if _finite(b) else b) for a, b in ends)

    def mg(grid):
        return tuple(tuple(fn('grid', x) for x in vec) for vec in grid)

    k = d[0]
    if k == 'W':
        return ('W', mw(d[1]), d[2])
    if k == 'P':
        return ('P', (mi(d[1][0]), mg(d[1][1])))
    if k in ('cart', 'union', 'inter'):
        return (k, tuple(map_floats(x, fn) for x in d[1]))
    if k == 'finite':
        return (k, tuple(('num', fn('atom', a[1]), 'float') if a[0] == 'num' else a for a in d[1]))
    if k == 'intv':
        return (k, mi(d[1]))
    if k == 'grid':
        return (k, mg(d[1]))
    if k == 'tensor':
        return (k, mt(d[1]))
    if k == 'discr':
        return (k, (mi(d[1][0]), mg(d[1][1])), mt(d[2]))
    if k == 'prod':
        return (k, tuple(map_floats(x, fn) for x in d[1]), mw(d[2]), d[3])
    return d


def count_floats(d):
    n = [0]

    def fn(kind, x):
        n[0] += 1
        return x
    map_floats(d, fn)
    return n[0]


def rewrite_slot(d, slot, op):
    """Apply op(kind, x) to the slot-th float of d only."""
    i = [0]

    def fn(kind, x):
        j = i[0]
        i[0] += 1
        return op(kind, x) if j == slot else x
    return map_floats(d, fn)


def _scale(rel):
    def op(kind, x):
        if x == 0:
            # no relative neighbour: a tiny absolute one (outward for interval ends)
            return -1e-12 if kind == 'lo' else 1e-12
        y = x * (1.0 + rel)
        if kind == 'lo':                     # keep grids inside their interval: move ends outward
            y = x * (1.0 + rel) if x < 0 else x / (1.0 + rel)
        elif kind == 'hi':
            y = x * (1.0 + rel) if x > 0 else x / (1.0 + rel)
        return y
    return op


def near_chain(rng, a, length=3):
    """[a0, a1, ...]: the same descriptor with ONE float slot rewritten to near-equal values
    (a relative step per link, or all tiny).  None if a has no float slot."""
    n = count_floats(a)
    if n == 0:
        return None
    slot = rng.randrange(n)
    if rng.random() < 0.25:
        vals = rng.sample(TINY, min(length, len(TINY)))
        return [rewrite_slot(a, slot, (lambda kind, x, v=v: (-v if kind == 'lo' else v))) for v in vals]
    rel = rng.choice(NEAR_RELS)
    out = [a]
    for _ in range(length - 1):
        out.append(rewrite_slot(out[-1], slot, _scale(rel)))
    return out


# --------------------------------------------------------------------- observing the implementation
def obs_eq(a, b):
    try:
        r = (a == b)
        return 'TT' if bool(r) else 'FF'
    except Exception:
        return 'EE'


def obs_hash(a):
    try:
        return hash(a)
    except TypeError:
        return None


def measure_variants():
    """The two variant switches of C20/Model.v are no longer measured: both defects are fixed in
    /repo (dd669fb, 99fe16d) and the shards run against live_variants; a regression breaks the
    correspondence (and Tables.v for the hash)."""
    return {'intv_guard': True, 'arrw_hash_type': False}


RULE = ('eqhash: pairs (a, b) of descriptors of sets / fields / interval products / grids / partitions / weightings / '
        'tensor, discretized and nested weighted product spaces: a random, b = the same object, an independent '
        'rebuild (also through the other constructor spelling), a one-field mutation at a random depth, the same '
        'descriptor with ONE float (weighting constant, exponent, interval end, grid coordinate, FiniteSet number) moved '
        'by a relative 1e-16..1e-4 or both tiny (1e-9 vs 8e-9) -- floats are compared exactly by the model --, or '
        'independent; observed: a == b, b == a (True/False/raises), hash success and hash equality; a case is '
        'non-trivial when a and b have the same class; distinct by descriptor pair. member: (space, space of x) pairs '
        'built the same way. derived: a random (nested / power / weighted) space and one of astype(16 dtypes), real_space, '
        'complex_space, pspace[int | slice | list | tuple of int/slice], byaxis[int | slice | list]; result descriptor or '
        'error class compared exactly; distinct by (space, operation)')
ASSUMPTIONS = ['coordinates, constants and exponents are finite floats (taken as exact rationals) or +-inf and every equality '
               'of floats in the model is exact ==, as in the code (near-equal pairs are generated on purpose); NaN is '
               'outside the model (rejected by IntervalProd/RectGrid/ConstWeighting constructors)',
               'objects are immutable while observed (the hash of an array weighting reads the array bytes)',
               'equal hash keys give equal Python hashes (hash is a function of the tuple structure and leaf values)',
               'DiscretizedSpace.tspace is a NumpyTensorSpace; float128/complex256 dtypes left out; MatrixWeighting dense only',
               'element(): inputs are elements, ndarrays, regular nested lists, scalars with exactly representable '
               'real values that survive conversion to the target dtype unchanged (integers for integer targets); '
               'data_ptr= and callables are probed only, not modelled']
TRUSTED = ['harness/c20.py build/describe (descriptor <-> real object), checked against each other on every case',
           'translate/c20_tables.py: fail-closed AST reader of every __eq__/__hash__/__contains__ (C20/EqTables.v and '
           'C20/Tables.v prove the interpreted tables equal to the model for every object of each class)',
           'C20/Model.v eqt uses self-first argument order in the nested membership tests of SetUnion/SetIntersection '
           '(immaterial because eqt is proved symmetric)']


def eq_cases(rng, tier, v):
    cs = C.CaseSet('eqhash', ['C20.Syntax', 'C20.Model', 'C20.Corr'], 'checkEq', 'caseEq')
    n = 700 if tier == 'quick' else 4000
    ctx = Ctx()
    vv = coq_variants(v)
    for i in range(n):
        a = gen_thing(rng)
        r = rng.random()
        how_b = 0
        if r < 0.1:
            b, mode = a, 'same'
        elif r < 0.3:
            b, mode = a, 'rebuild'
            how_b = rng.choice([0, 1, 2])
        elif r < 0.7:
            b, mode = mutate_thing(rng, a), 'mutate'
            if rng.random() < 0.3:
                b = mutate_thing(rng, b)
        elif r < 0.88:
            # one float differs by a relative 1e-16 .. 1e-4, or both are tiny: exact comparison decides
            ch = near_chain(rng, a, 2)
            if ch is None:
                b, mode = mutate_thing(rng, a), 'mutate'
            else:
                (a, b), mode = ch, 'near'
        else:
            b, mode = gen_thing(rng), 'other'
        try:
            oa = build_thing(a, ctx)
            ob = oa if mode == 'same' else build_thing(b, ctx, how_b)
        except Exception as e:      # generator produced something the constructors reject
            continue
        ha, hb = obs_hash(oa), obs_hash(ob)
        term = ('{| e_v := %s; e_a := %s; e_b := %s; e_same := %s; e_ab := %s; e_ba := %s; e_ha := %s; e_hb := %s; e_hh := %s |}'
                % (vv, coq_thing(a), coq_thing(b), C.b(mode == 'same'), obs_eq(oa, ob), obs_eq(ob, oa),
                   C.b(ha is not None), C.b(hb is not None), C.b(ha is not None and ha == hb)))
        key = (repr(a), repr(b)) if a[0] == b[0] else None
        cs.add(term, {'a': repr(a)[:300], 'b': repr(b)[:300], 'mode': mode}, key)
    return cs


def in_cases(rng, tier, v):
    cs = C.CaseSet('member', ['C20.Syntax', 'C20.Model', 'C20.Corr'], 'checkIn', 'caseIn')
    n = 150 if tier == 'quick' else 800
    ctx = Ctx()
    vv = coq_variants(v)
    for i in range(n):
        S = gen_space(rng, 2)
        r = rng.random()
        if r < 0.1:
            other = rng.choice([None, 1.0, np.zeros(2), 'x'])
            try:
                oS = build(S, ctx)
                res = obs_eq_in(other, oS)
            except Exception:
                continue
            term = '{| m_v := %s; m_S := %s; m_xs := None; m_res := %s |}' % (vv, coq_obj(S), res)
            cs.add(term, {'S': repr(S)[:300], 'x': repr(other)}, None)
            continue
        xs = S if r < 0.4 else mutate(rng, S)
        if 0.4 <= r < 0.6:
            ch = near_chain(rng, S, 2)
            if ch is not None:
                S, xs = ch
        try:
            oS = build(S, ctx)
            oX = build(xs, ctx, rng.choice([0, 1]))
            x = oX.element()
        except Exception:
            continue
        res = obs_eq_in(x, oS)
        term = '{| m_v := %s; m_S := %s; m_xs := Some %s; m_res := %s |}' % (vv, coq_obj(S), coq_obj(xs), res)
        cs.add(term, {'S': repr(S)[:300], 'x.space': repr(xs)[:300]}, (repr(S), repr(xs)))
    return cs


def obs_eq_in(x, S):
    try:
        return 'TT' if (x in S) else 'FF'
    except Exception:
        return 'EE'


def translate():
    return {'Gen/C20Tables.v': TAB.translate()}



# --------------------------------------------------------------------- derived spaces
def measure_dvariants():
    import odl
    dv = {}
    dv['astype_num_keeps_w'] = odl.rn(2, weighting=2.0).astype(int).weighting.const == 2.0
    ps = odl.ProductSpace(odl.rn(2), 3, weighting=2.0)
    dv['ps_astype_keeps_w'] = ps.astype('float32').weighting.const == 2.0
    dv['ps_getitem_keeps_w'] = ps[0:2].weighting.const == 2.0
    dv['byaxis_nonnum_ok'] = True      # fixed in /repo (b5df34c): no longer measured
    return dv


def coq_dvariants(dv):
    return ('{| dv_astype_num_keeps_w := %s; dv_ps_astype_keeps_w := %s; dv_ps_getitem_keeps_w := %s; '
            'dv_byaxis_nonnum_ok := %s |}'
            % (C.b(dv['astype_num_keeps_w']), C.b(dv['ps_astype_keeps_w']), C.b(dv['ps_getitem_keeps_w']),
               C.b(dv['byaxis_nonnum_ok'])))


def oz(x):
    return 'None' if x is None else '(Some %s)' % zl(x)


def coq_slice(sl):
    return '{| sl_start := %s; sl_stop := %s; sl_step := %s |}' % (oz(sl.start), oz(sl.stop), oz(sl.step))


def coq_idx1(i):
    if isinstance(i, slice):
        return '(XSlice %s)' % coq_slice(i)
    if isinstance(i, (list, float, str)):
        return 'XBad'
    return '(XInt %s)' % zl(i)


def coq_pidx(i):
    if isinstance(i, (float, str)):
        return 'PBad'
    if isinstance(i, slice):
        return '(PSlice %s)' % coq_slice(i)
    if isinstance(i, list):
        return '(PList %s)' % zs(i)
    if isinstance(i, tuple):
        return '(PTuple %s)' % C.lst([coq_idx1(j) for j in i])
    return '(PInt %s)' % zl(i)


def coq_aidx(i):
    if isinstance(i, slice):
        return '(ASlice %s)' % coq_slice(i)
    if isinstance(i, list):
        return '(AList %s)' % zs(i)
    return '(AInt %s)' % zl(i)


def gen_slice(rng, n):
    def e():
        return rng.choice([None, None, 0, 1, 2, -1, -2, n, n + 1, -n - 1, 3])
    return slice(e(), e(), rng.choice([None, None, 1, 2, -1, -2, 3]))


def gen_int_index(rng, n):
    return rng.choice([0, 0, 1, -1, n - 1, n, -n, -n - 1, 2])


def gen_pidx(rng, n):
    r = rng.random()
    if r < 0.25:
        return gen_int_index(rng, n)
    if r < 0.5:
        return gen_slice(rng, n)
    if r < 0.65:
        return [gen_int_index(rng, n) if rng.random() < 0.2 else rng.randrange(-n, n) if n else 0
                for _ in range(rng.choice([0, 1, 2, 3]))]
    if r < 0.7:
        return rng.choice([1.0, 'a'])
    return tuple((gen_slice(rng, n) if rng.random() < 0.45 else [0] if rng.random() < 0.06 else gen_int_index(rng, n))
                 for _ in range(rng.choice([0, 1, 2, 2, 3])))


def obs_res(f, ctx):
    try:
        r = f()
    except ValueError:
        return 'ErrValue'
    except IndexError:
        return 'ErrIndex'
    except TypeError:
        return 'ErrType'
    return '(Ok %s)' % coq_obj(describe(r, ctx))


def gen_nested_prod(rng):
    """product spaces whose components are themselves product spaces (tuple indexing)"""
    fld = rng.choice(['real', 'complex'])
    inner = [gen_prod(rng, 1, fld) for _ in range(rng.choice([1, 2, 3]))]
    if rng.random() < 0.5:
        inner = [inner[0]] * len(inner)
    if rng.random() < 0.3:
        inner.append(gen_space(rng, 0, fld))
    w = gen_w(rng, kind='KPs', allow_array=False)
    return ('prod', tuple(inner), w, fld)


def gen_dop(rng, D, chain=False):
    """One derived-space operation applicable to a space with descriptor D:
    (Coq term of type dop, function taking the real object, label)."""
    r = rng.random()
    if chain:
        r = 0.5 + r / 2 if rng.random() < 0.6 else r      # chains: mostly dtype derivations (they use the caches)
    if D[0] == 'prod' and r < 0.6:
        idx = gen_pidx(rng, len(D[1]))
        return '(DGetitem %s)' % coq_pidx(idx), (lambda o: o[idx]), ('getitem', repr(idx))
    if D[0] == 'tensor' and r < 0.4:
        nd = len(D[1][0])
        k = rng.random()
        idx = (gen_int_index(rng, nd) if k < 0.4 else gen_slice(rng, nd) if k < 0.7 else
               [rng.randrange(-nd, nd) if nd else 0 for _ in range(rng.choice([0, 1, 2, 3]))])
        return '(DByaxis %s)' % coq_aidx(idx), (lambda o: o.byaxis[idx]), ('byaxis', repr(idx))
    if D[0] == 'discr' and r < 0.45:
        nd = len(D[1][1])
        k = rng.random()
        idx = (gen_int_index(rng, nd) if k < 0.35 else gen_slice(rng, nd) if k < 0.7 else
               [rng.randrange(-nd, nd) if nd else 0 for _ in range(rng.choice([0, 1, 2, 3]))])
        return '(DByaxisIn %s)' % coq_aidx(idx), (lambda o: o.byaxis_in[idx]), ('byaxis_in', repr(idx))
    if r < 0.75:
        dt = rng.choice(list(DTYPES) + ['float64', 'float32', 'complex128', 'int64', 'float16', 'complex64'])
        npdt = {'U': 'U1', 'O': object}.get(dt, dt)
        return '(DAstype %s)' % DTYPES[dt], (lambda o: o.astype(npdt)), ('astype', dt)
    if r < 0.88:
        return 'DReal', (lambda o: o.real_space), ('real_space',)
    return 'DComplex', (lambda o: o.complex_space), ('complex_space',)


def derived_cases(rng, tier, dv):
    """Chains of derivations: every step is applied either to the previous result or again to the
    SOURCE object, so that whatever one derivation caches on an object is read by the next
    (the model has no cache: it must be transparent)."""
    cs = C.CaseSet('derived', ['C20.Syntax', 'C20.Model', 'C20.Derived', 'C20.Corr'], 'checkD', 'caseD')
    n = 600 if tier == 'quick' else 3600
    ctx = Ctx()
    dvs = coq_dvariants(dv)
    for i in range(n):
        r = rng.random()
        S = gen_nested_prod(rng) if r < 0.2 else gen_prod(rng, 2) if r < 0.45 else gen_space(rng, 2)
        try:
            oS = build(S, ctx)
        except Exception:
            continue
        nsteps = 1 if rng.random() < 0.4 else rng.choice([2, 2, 3, 3, 4])
        steps, whats = [], []
        cur, curD, out = oS, S, None
        for k in range(nsteps):
            from_src = k > 0 and rng.random() < 0.35
            tgt, tgtD = (oS, S) if from_src else (cur, curD)
            op, f, what = gen_dop(rng, tgtD, chain=nsteps > 1)
            steps.append('(%s, %s)' % (C.b(from_src), op))
            whats.append(('src' if from_src else 'cur',) + what)
            try:
                cur = f(tgt)
                curD = describe(cur, ctx)
                out = '(Ok %s)' % coq_obj(curD)
            except ValueError:
                out = 'ErrValue'
            except IndexError:
                out = 'ErrIndex'
            except TypeError:
                out = 'ErrType'
            except Exception as e:
                out = 'ErrType'
                whats.append('unexpected %s' % type(e).__name__)
            if not out.startswith('(Ok'):
                break
        term = '{| d_dv := %s; d_a := %s; d_steps := %s; d_out := %s |}' % (dvs, coq_obj(S), C.lst(steps), out)
        cs.add(term, {'S': repr(S)[:400], 'steps': whats, 'out': out[:200]}, (repr(S), repr(whats)))
    # heterogeneous nested product spaces (depth 2-3, unequal components) x every index form
    for _ in range(150 if tier == 'quick' else 900):
        t = _gen_tree(rng, rng.choice([2, 2, 3]), hetero=rng.random() < 0.85)
        if isinstance(t, int):
            continue
        S = _tree_desc(t)
        if rng.random() < 0.3:
            S = ('prod', S[1], gen_w(rng, kind='KPs', allow_array=False), S[3])
        idx = _gen_tree_index(rng, t)
        try:
            oS = build(S, ctx)
        except Exception:
            continue
        try:
            out = obs_res(lambda: oS[idx], ctx)
        except Exception:
            out = 'ErrType'
        term = ('{| d_dv := %s; d_a := %s; d_steps := [(false, (DGetitem %s))]; d_out := %s |}'
                % (dvs, coq_obj(S), coq_pidx(idx), out))
        cs.add(term, {'tree': repr(t), 'idx': repr(idx), 'out': out[:200]}, ('hetero', repr(t), repr(idx)))
    # the full dtype table x space kinds x counterpart chains (caches of real/complex spaces)
    ALLDT = [d for d in DTYPES if d not in ('O',)]
    PATTERNS = [[(False, 'C'), (False, 'R')], [(False, 'R'), (False, 'C')], [(False, 'C'), (True, 'R'), (False, 'C')],
                [(False, 'C'), (False, 'R'), (False, 'C'), (False, 'R')], [(False, 'R'), (True, 'C'), (True, 'R')],
                [(False, 'C'), (False, 'C')], [(False, 'A'), (False, 'R')], [(False, 'A'), (False, 'C'), (False, 'R')]]
    for dt in ALLDT:
        for kind in ('tensor', 'discr', 'prod'):
            pats = PATTERNS if tier != 'quick' else rng.sample(PATTERNS, 3)
            for pat in pats:
                w = ('const', 'KNpy', 1.0, 2.0) if dt in NONNUM_DTYPES or rng.random() < 0.5 else ('const', 'KNpy', 2.0, 1.0)
                t = ((2,), dt, w)
                S = (('tensor', t) if kind == 'tensor' else ('discr', (((0.0, 1.0),), ((0.25, 0.75),)), t) if kind == 'discr'
                     else ('prod', (('tensor', t), ('tensor', t)), ('const', 'KPs', 1.0, 2.0), field_of(('tensor', t))))
                try:
                    oS = build(S, ctx)
                except Exception:
                    continue
                steps, whats, cur, out = [], [], oS, None
                for from_src, o in pat:
                    tgt = oS if from_src else cur
                    if o == 'A':
                        adt = rng.choice(['float16', 'float32', 'float64', 'float128', 'complex64', 'complex128', 'complex256', 'int32'])
                        op, f = '(DAstype %s)' % DTYPES[adt], (lambda x, adt=adt: x.astype(adt))
                    elif o == 'R':
                        op, f = 'DReal', (lambda x: x.real_space)
                    else:
                        op, f = 'DComplex', (lambda x: x.complex_space)
                    steps.append('(%s, %s)' % (C.b(from_src), op))
                    whats.append(('src' if from_src else 'cur', op))
                    try:
                        cur = f(tgt)
                        out = '(Ok %s)' % coq_obj(describe(cur, ctx))
                    except ValueError:
                        out = 'ErrValue'
                    except IndexError:
                        out = 'ErrIndex'
                    except Exception:
                        out = 'ErrType'
                    if not out.startswith('(Ok'):
                        break
                term = '{| d_dv := %s; d_a := %s; d_steps := %s; d_out := %s |}' % (dvs, coq_obj(S), C.lst(steps), out)
                cs.add(term, {'S': repr(S)[:300], 'steps': whats, 'out': out[:200]}, (repr(S), repr(whats)))
    return cs



# --------------------------------------------------------------------- element()
class _Ids(object):
    def __init__(self):
        self.n = 0

    def new(self):
        self.n += 1
        return self.n


_FORCE_DT = [None]


def _leaf_values(rng, shape, dt):
    # values must survive conversion to every leaf dtype of the target space unchanged
    return _rand_data(rng, tuple(shape), _FORCE_DT[0] or dt)


def _strictest_dtype(S):
    dts = [leaf_tsp(l)[1] for l in _leaf_descs(S)]
    if any(d == 'bool' for d in dts):
        return 'bool'
    if any(d.startswith('uint') or d.startswith('int') for d in dts):
        return 'uint8'
    return None


def _leaf_descs(S):
    if S[0] == 'prod':
        return [l for x in S[1] for l in _leaf_descs(x)]
    return [S]


def make_element(rng, X, ctx, ids, how=0):
    """(python element of a freshly built space X, Coq term of type elem Q)."""
    oX = build(X, ctx, how)
    return _make_element_in(rng, X, oX, ids)


def _make_element_in(rng, X, oX, ids):
    if X[0] == 'prod':
        parts = [_make_element_in(rng, Xi, oXi, ids) for Xi, oXi in zip(X[1], oX.spaces)]
        x = oX.element([p[0] for p in parts])
        # the parts of x are the very part objects (they are members of the component spaces)
        return x, '(EProd %s %s %s)' % (coq_obj(X), zl(ids.new()), C.lst([p[1] for p in parts]))
    shape, dt, _ = leaf_tsp(X)
    arr = np.array(_leaf_values(rng, shape, dt), dtype={'U': 'U1'}.get(dt, dt))
    x = oX.element(arr)
    data = np.asarray(x).real.astype(float).ravel().tolist()
    return x, '(ETens %s %s %s)' % (coq_obj(X), zl(ids.new()), C.qs(data))


def variant_space(rng, S):
    """a space with the structure and leaf shapes of S but possibly other dtype / weightings"""
    if S[0] == 'prod':
        w = mutate_w(rng, S[2]) if rng.random() < 0.5 else S[2]
        if w[0] == 'array':
            w = ('const', 'KPs', 2.0, 2.0)
        return ('prod', tuple(variant_space(rng, x) for x in S[1]), w, S[3])
    t = leaf_tsp(S)
    r = rng.random()
    if r < 0.3:
        t2 = t
    elif r < 0.6:
        fam = ['float64', 'float32', 'int64', 'int32'] if not t[1].startswith('complex') else ['complex128', 'complex64']
        t2 = (t[0], rng.choice(fam), t[2] if t[2][0] != 'array' else ('const', 'KNpy', 1.0, 2.0))
    else:
        w = mutate_w(rng, t[2])
        if w[0] == 'array':
            w = ('const', 'KNpy', 3.0, 2.0)
        t2 = (t[0], t[1], w)
    if S[0] == 'discr' and rng.random() < 0.7:
        return ('discr', S[1], t2)
    return ('tensor', t2)


def gen_input(rng, S, ctx, ids, depth=0):
    """(python input, Coq term of type inp Q) for space descriptor S."""
    if S[0] == 'prod':
        r = rng.random()
        if r < 0.2:
            x, term = make_element(rng, S, ctx, ids, rng.choice([0, 1]))
            return x, '(IElem %s)' % term
        if r < 0.4:
            X = variant_space(rng, S)
            x, term = make_element(rng, X, ctx, ids)
            return x, '(IElem %s)' % term
        if r < 0.47:
            return 1.5, '(IScalar %s)' % C.q(1.5)
        kids = [gen_input(rng, x, ctx, ids, depth + 1) for x in S[1]]
        if rng.random() < 0.15:
            if kids and rng.random() < 0.5:
                kids = kids[:-1]
            else:
                kids = kids + [(1.0, '(IScalar %s)' % C.q(1.0))]
        return [k[0] for k in kids], '(IList %s)' % C.lst([k[1] for k in kids])
    shape, dt, w = leaf_tsp(S)
    shape = tuple(shape)
    r = rng.random()
    if r < 0.15:
        x, term = make_element(rng, S, ctx, ids, rng.choice([0, 1, 2]))
        return x, '(IElem %s)' % term
    if r < 0.4:
        X = variant_space(rng, S)
        if rng.random() < 0.25 and S[0] == 'discr':
            X = ('tensor', S[2])                      # an element of the tspace itself
        if rng.random() < 0.2 and shape:
            t = leaf_tsp(X)
            sh2 = shape[1:] if (shape[0] == 1 and rng.random() < 0.5) else (shape[0] + 1,) + shape[1:]
            X = ('tensor', (sh2, t[1], t[2] if t[2][0] != 'array' else ('const', 'KNpy', 1.0, 2.0)))
        x, term = make_element(rng, X, ctx, ids)
        return x, '(IElem %s)' % term
    # raw data
    sh = shape
    k = rng.random()
    if k < 0.2 and shape and shape[0] == 1:
        sh = shape[1:]                                # ndmin pads it back
    elif k < 0.35:
        sh = shape + (2,) if rng.random() < 0.5 or not shape else (shape[0] + 1,) + shape[1:]
    arr = _leaf_values(rng, sh, dt)
    if r < 0.7 or arr.size == 0:
        adt = rng.choice([dt, dt, 'float64', 'float32']) if dt not in ('bool',) else 'bool'
        if dt.startswith('complex') and adt == dt:
            arr = arr.astype(adt)
        elif dt.startswith('uint') or dt.startswith('int'):
            arr = arr.astype(rng.choice([dt, 'int64', 'float64']))
        else:
            arr = arr.astype(adt)
        aid = ids.new()
        data = np.asarray(arr).real.astype(float).ravel().tolist()
        return arr, '(IArr %s %s %s %s)' % (zl(aid), DTYPES[dtype_name(arr.dtype)], zs(arr.shape), C.qs(data))
    if arr.ndim == 0:
        return float(arr), '(IScalar %s)' % C.q(float(arr))

    def lst(a):
        if a.ndim == 1:
            return [float(x) for x in a], '(IList %s)' % C.lst(['(IScalar %s)' % C.q(float(x)) for x in a])
        subs = [lst(b) for b in a]
        return [u[0] for u in subs], '(IList %s)' % C.lst([u[1] for u in subs])
    return lst(arr)


def _buffer(inp):
    import odl
    if isinstance(inp, np.ndarray):
        return inp
    if isinstance(inp, odl.set.space.LinearSpaceElement) and not isinstance(inp, odl.space.pspace.ProductSpaceElement):
        return np.asarray(inp)
    return None


def observe_element(r, inp):
    import odl
    if r is inp:
        return 'BSame'
    if isinstance(r, odl.space.pspace.ProductSpaceElement):
        items = list(inp.parts) if isinstance(inp, odl.space.pspace.ProductSpaceElement) else list(inp)
        return '(BProd %s)' % C.lst([observe_element(p, it) for p, it in zip(r.parts, items)])
    arr = np.asarray(r)
    buf = _buffer(inp)
    shares = buf is not None and buf.size > 0 and bool(np.shares_memory(arr, buf))
    if buf is not None and buf.size == 0:
        shares = (buf.dtype == arr.dtype)            # nothing to share: follow the no-copy rule
    return '(BTens %s %s)' % (C.qs(arr.real.astype(float).ravel().tolist()), C.b(shares))


def element_cases(rng, tier, v):
    cs = C.CaseSet('element', ['C20.Syntax', 'C20.Model', 'C20.Element', 'C20.Corr'], 'checkE', 'caseE')
    n = 400 if tier == 'quick' else 2500
    ctx = Ctx()
    vv = coq_variants(v)
    ids = _Ids()
    for _ in range(n):
        S = gen_space(rng, 2)
        if not numeric_only(S) or _has_zero_axis(S):
            continue
        _FORCE_DT[0] = _strictest_dtype(S)
        try:
            oS = build(S, ctx)
            inp, term = gen_input(rng, S, ctx, ids)
        except Exception:
            continue
        finally:
            _FORCE_DT[0] = None
        # options: order= for tensor-like spaces, cast= for product spaces
        kw, o_term, c_term = {}, 'None', 'true'
        if S[0] != 'prod' and rng.random() < 0.4:
            o = rng.choice(['C', 'F'])
            kw, o_term = {'order': o}, '(Some Ord%s)' % o
        elif S[0] == 'prod' and rng.random() < 0.35:
            kw, c_term = {'cast': False}, 'false'
        try:
            out = observe_element(oS.element(inp, **kw), inp)
        except ValueError:
            out = 'BValueErr'
        except Exception:          # TypeError, or anything else (then it shows up as a mismatch)
            out = 'BTypeErr'
        t = ('{| x_v := %s; x_S := %s; x_ord := %s; x_cast := %s; x_inp := %s; x_out := %s |}'
             % (vv, coq_obj(S), o_term, c_term, term, out))
        cs.add(t, {'S': repr(S)[:300], 'opts': kw, 'inp': term[:300], 'out': out[:200]}, (repr(S), term, repr(kw)))
    return cs


def _has_zero_axis(d):
    if d[0] == 'prod':
        return any(_has_zero_axis(x) for x in d[1])
    return 0 in tuple(leaf_tsp(d)[0])



# --------------------------------------------------------------------- element indexing (basic indices)
def index_cases(rng, tier):
    cs = C.CaseSet('eindex', ['C20.Syntax', 'C20.Model', 'C20.Derived', 'C20.Indexing', 'C20.Corr'], 'checkG', 'caseG')
    n = 350 if tier == 'quick' else 2500
    ctx = Ctx()
    for _ in range(n):
        t = gen_tsp(rng, shape=[rng.choice([1, 2, 3, 4]) for _ in range(rng.choice([0, 1, 1, 2, 2, 3]))])
        if t[1] in ('U', 'O'):
            continue
        use_discr = rng.random() < 0.35 and t[2][0] != 'array'
        try:
            if use_discr:
                p = gen_part(rng, len(t[0]))
                t = (tuple(len(g) for g in p[1]), t[1], t[2])
                oS = build(('discr', p, t), ctx)
            else:
                oS = build(('tensor', t), ctx)
        except Exception:
            continue
        shape = tuple(t[0])
        size = int(np.prod(shape)) if shape else 1
        if t[1] == 'bool':
            vals = np.array([(i * 7) % 3 == 0 for i in range(size)]).reshape(shape)
        else:
            vals = (np.arange(size, dtype=float) + 1).reshape(shape)
        x = oS.element(vals.astype(oS.dtype))
        nidx = min(rng.choice([0, 1, 1, 2, 2, 3]), len(shape)) if rng.random() < 0.92 else len(shape) + 1
        idx = []
        for k in range(nidx):
            m = shape[k] if k < len(shape) else 2
            idx.append(gen_slice(rng, m) if rng.random() < 0.5 else
                       gen_int_index(rng, m) if rng.random() < 0.15 else rng.randrange(-m, m))
        idx = tuple(idx)
        pyidx = idx[0] if (len(idx) == 1 and rng.random() < 0.5) else idx
        try:
            r = x[pyidx]
            if isinstance(r, odl_element_types()):
                sp = r.space
                out = '(Ok (GTens %s %s))' % (coq_tsp(describe_tsp(sp, ctx)),
                                              C.qs(np.asarray(r).real.astype(float).ravel().tolist()))
            else:
                out = '(Ok (GScalar %s))' % C.q(float(np.real(r)))
        except IndexError:
            out = 'ErrIndex'
        except ValueError:
            out = 'ErrValue'
        except Exception:
            out = 'ErrType'
        data = np.asarray(x).real.astype(float).ravel().tolist()
        term = ('{| g_t := %s; g_data := %s; g_idx := %s; g_out := %s |}'
                % (coq_tsp(t), C.qs(data), C.lst([coq_idx1(i) for i in idx]), out))
        cs.add(term, {'space': ('discr' if use_discr else 'tensor', repr(t)), 'idx': repr(pyidx), 'out': out[:160]},
               (repr(t), repr(idx)))
    return cs


def odl_element_types():
    import odl
    return (odl.set.space.LinearSpaceElement,)


def variant_cases(v):
    cs = C.CaseSet('variants', ['C20.Syntax', 'C20.Model', 'C20.Corr'], 'checkV', 'caseV')
    cs.add('{| cv_v := %s |}' % coq_variants(v), {'variants': v}, None)
    return cs


def correspondence(rng, tier):
    v = measure_variants()
    dv = measure_dvariants()
    return [eq_cases(rng, tier, v), in_cases(rng, tier, v), derived_cases(rng, tier, dv), element_cases(rng, tier, v),
            index_cases(rng, tier), variant_cases(v)]


# --------------------------------------------------------------------- probes (property oracles, no model)
_RP_HEAD = ("import sys, numpy as np, warnings\nwarnings.simplefilter('ignore')\nsys.path.insert(0, %r)\n"
            "import odl\nfrom harness import c20 as H\nctx = H.Ctx()\ninf = float('inf')\n" % C.VERIF)


def intv_ndims(d, acc=None):
    """ndims of every IntervalProd inside a descriptor (to attribute failures to the ndim finding)"""
    acc = set() if acc is None else acc
    if not isinstance(d, tuple) or not d:
        return acc
    if d[0] == 'intv':
        acc.add(len(d[1]))
    elif d[0] == 'P':
        acc.add(len(d[1][0]))
    elif d[0] == 'discr':
        acc.add(len(d[1][0]))
    elif d[0] in ('cart', 'union', 'inter', 'prod'):
        for x in d[1]:
            intv_ndims(x, acc)
    return acc


def has_cross_array_w(a, b):
    ra, rb = repr(a), repr(b)
    return ("'array', 'KNpy'" in ra + rb) and ("'array', 'KPs'" in ra + rb)


def cls_of(t):
    return {'W': 'weighting', 'P': 'partition'}.get(t[0], t[0])


def law_key(law, things):
    return 'eq-%s-%s' % (law, cls_of(things[0]))


def probe_laws(rng, tier, out):
    n = 250 if tier == 'quick' else 1500
    ctx = Ctx()
    for _ in range(n):
        a = gen_thing(rng)
        b = a if rng.random() < 0.25 else mutate_thing(rng, a)
        c = b if rng.random() < 0.4 else mutate_thing(rng, b)
        if rng.random() < 0.3:
            c = a
        try:
            oa, ob, oc = build_thing(a, ctx), build_thing(b, ctx, 1), build_thing(c, ctx)
        except Exception:
            continue
        head = _RP_HEAD + "a, b, c = %r, %r, %r\noa, ob, oc = H.build_thing(a, ctx), H.build_thing(b, ctx, 1), H.build_thing(c, ctx)\n" % (a, b, c)
        # reflexive: the object itself and an independent rebuild
        r1, r2 = obs_eq(oa, oa), obs_eq(oa, build_thing(a, ctx, 2))
        out.append(C.Probe(r1 == 'TT' and r2 == 'TT', law_key('refl', [a]),
                           'a == a and a == rebuild(a) for %s' % cls_of(a),
                           head + "ok = bool(oa == oa) and bool(oa == H.build_thing(a, ctx, 2))\n"))
        ab, ba = obs_eq(oa, ob), obs_eq(ob, oa)
        out.append(C.Probe(ab == ba and ab != 'EE', law_key('sym', [a, b]),
                           'a == b and b == a agree and do not raise (%s)' % cls_of(a),
                           head + "observed = (H.obs_eq(oa, ob), H.obs_eq(ob, oa)); ok = observed[0] == observed[1] != 'EE'\n"))
        if ab == 'TT':
            ha, hb = obs_hash(oa), obs_hash(ob)
            out.append(C.Probe(ha == hb, law_key('hash', [a, b]),
                               'a == b implies hash(a) == hash(b) (%s)' % cls_of(a),
                               head + "observed = (H.obs_hash(oa), H.obs_hash(ob)); ok = (not (oa == ob)) or observed[0] == observed[1]\n"))
        bc = obs_eq(ob, oc)
        if ab == 'TT' and bc == 'TT':
            ac = obs_eq(oa, oc)
            out.append(C.Probe(ac == 'TT', law_key('trans', [a, b, c]),
                               'a == b and b == c imply a == c (%s)' % cls_of(a),
                               head + "observed = H.obs_eq(oa, oc); ok = not (oa == ob and ob == oc) or observed == 'TT'\n"))
    # the recorded witnesses themselves
    import odl
    I1, I2, I3 = odl.IntervalProd(0, 1), odl.IntervalProd([0, 0], [1, 1]), odl.IntervalProd([0, 0, 0], [1, 1, 1])
    out.append(C.Probe(not (I1 == I3) or hash(I1) == hash(I3), 'intervalprod-eq-ndim-broadcast',
                       'IntervalProd(0,1) == IntervalProd([0,0,0],[1,1,1]) must not hold with different hashes',
                       "import odl\na, b = odl.IntervalProd(0, 1), odl.IntervalProd([0, 0, 0], [1, 1, 1])\n"
                       "observed = (a == b, hash(a) == hash(b)); ok = (not observed[0]) or observed[1]\n"))
    out.append(C.Probe(obs_eq(I2, I3) != 'EE', 'intervalprod-eq-ndim-broadcast',
                       'IntervalProd ndim 2 == ndim 3 must not raise',
                       "import odl\ntry:\n    observed = odl.IntervalProd([0, 0], [1, 1]) == odl.IntervalProd([0, 0, 0], [1, 1, 1]); ok = True\n"
                       "except ValueError as e:\n    observed = repr(e); ok = False\n"))
    from odl.space.npy_tensors import NumpyTensorSpaceArrayWeighting as NA
    from odl.space.pspace import ProductSpaceArrayWeighting as PA
    w = np.array([1.0, 2.0])
    out.append(C.Probe(not (NA(w) == PA(w)) or hash(NA(w)) == hash(PA(w)), 'arrayweighting-hash-crossclass',
                       'array weightings of the two class families on one array: equal, so hashes must agree',
                       "import numpy as np\nfrom odl.space.npy_tensors import NumpyTensorSpaceArrayWeighting as NA\n"
                       "from odl.space.pspace import ProductSpaceArrayWeighting as PA\nw = np.array([1.0, 2.0])\n"
                       "observed = (NA(w) == PA(w), hash(NA(w)) == hash(PA(w))); ok = (not observed[0]) or observed[1]\n"))


def probe_membership(rng, tier, out):
    n = 60 if tier == 'quick' else 400
    ctx = Ctx()
    for _ in range(n):
        S = gen_space(rng, 2)
        X = S if rng.random() < 0.4 else mutate(rng, S)
        try:
            oS, oX = build(S, ctx), build(X, ctx, 1)
            x = oX.element()
        except Exception:
            continue
        try:
            ok = (x in oS) == bool(x.space == oS) == bool(oS == x.space)
        except Exception:
            ok = False
        nd = intv_ndims(S) | intv_ndims(X)
        key = 'intervalprod-eq-ndim-broadcast' if len(nd) > 1 else 'membership-%s' % S[0]
        out.append(C.Probe(ok, key, 'x in S exactly when x.space == S (%s)' % S[0],
                           _RP_HEAD + "S, X = %r, %r\noS, oX = H.build(S, ctx), H.build(X, ctx, 1)\nx = oX.element()\n"
                           "ok = (x in oS) == bool(x.space == oS) == bool(oS == x.space)\n" % (S, X)))


def _flat(el):
    import odl
    if isinstance(el, odl.space.pspace.ProductSpaceElement):
        parts = [_flat(p) for p in el]
        return np.concatenate(parts) if parts else np.zeros(0)
    return np.asarray(el).ravel()


def _rand_data(rng, shape, dt):
    n = int(np.prod(shape)) if shape else 1
    if dt == 'bool':
        vals = [rng.choice([0, 1]) for _ in range(n)]
    elif dt.startswith('uint'):
        vals = [rng.randint(0, 5) for _ in range(n)]
    elif dt.startswith('int'):
        vals = [rng.randint(-5, 5) for _ in range(n)]
    else:
        vals = [rng.choice([0.0, 1.0, -2.0, 0.5, 3.0, -0.25]) for _ in range(n)]
    return np.array(vals, dtype=float).reshape(shape)


def leaf_tsp(d):
    return d[1] if d[0] == 'tensor' else d[2]


def _input_for(rng, d, good=True):
    """nested Python input (lists / arrays) for space descriptor d; good=False: wrong shape somewhere"""
    if d[0] == 'prod':
        n = len(d[1])
        if not good and (n == 0 or rng.random() < 0.4):
            return [_input_for(rng, x) for x in d[1]] + [[1.0]]
        bad = rng.randrange(n) if (not good and n) else -1
        return [_input_for(rng, x, good=(i != bad)) for i, x in enumerate(d[1])]
    shape, dt, _ = leaf_tsp(d)
    if not good:
        shape = tuple(shape) + (2,) if rng.random() < 0.5 or not shape else (shape[0] + 1,) + tuple(shape[1:])
    arr = _rand_data(rng, tuple(shape), dt)
    if not good and arr.shape == tuple(leaf_tsp(d)[0]):
        arr = np.zeros(tuple(leaf_tsp(d)[0]) + (2,))
    k = rng.random()
    if k < 0.4 and arr.size > 0:
        return arr.tolist()      # (an empty nested list has lost its shape)
    if k < 0.7:
        return arr
    return arr.astype('float32') if dt not in ('bool',) else arr


def _expected_flat(inp, d):
    if d[0] == 'prod':
        parts = [_expected_flat(i, x) for i, x in zip(inp, d[1])]
        return np.concatenate(parts) if parts else np.zeros(0)
    dt = leaf_tsp(d)[1]
    return np.asarray(inp).astype(dt).ravel()


def numeric_only(d):
    if d[0] == 'prod':
        return all(numeric_only(x) for x in d[1])
    return leaf_tsp(d)[1] not in ('U', 'O')


def probe_element(rng, tier, out):
    import odl
    n = 120 if tier == 'quick' else 700
    ctx = Ctx()
    for _ in range(n):
        S = gen_space(rng, 2)
        if not numeric_only(S):
            continue
        try:
            oS = build(S, ctx)
        except Exception:
            continue
        kind = S[0]
        head = _RP_HEAD + "S = %r\noS = H.build(S, ctx)\n" % (S,)
        # (1) x in S  ->  element(x) is x
        try:
            x = oS.element(_input_for(rng, S))
            r = oS.element(x)
            oS2 = build(S, ctx, 1)
            x2 = oS2.element(_input_for(rng, S))
            r2 = oS.element(x2)
        except Exception:
            x, r, x2, r2 = 0, 1, 0, 1
        out.append(C.Probe(r is x, 'element-identity-%s' % kind, 'S.element(x) is x for x in S (%s)' % kind,
                           head + "import random\nx = oS.element(H._input_for(random.Random(1), S))\nok = oS.element(x) is x\n"))
        # an element of an equal but distinct space object is also returned as is
        out.append(C.Probe(r2 is x2, 'element-identity-%s' % kind,
                           'S.element(x) is x for x in an equal space (%s)' % kind,
                           head + "import random\nx = H.build(S, ctx, 1).element(H._input_for(random.Random(1), S))\nok = oS.element(x) is x\n"))
        # (2) otherwise: values = input converted to the dtype
        inp = _input_for(rng, S)
        try:
            el = oS.element(inp)
            ok = (el in oS) and np.array_equal(_flat(el), _expected_flat(inp, S))
        except Exception as e:
            ok = False
        out.append(C.Probe(ok, 'element-values-%s' % kind,
                           'S.element(inp) is in S and holds inp converted to the dtype (%s)' % kind,
                           head + "inp = %s\nel = oS.element(inp)\nok = (el in oS) and np.array_equal(H._flat(el), H._expected_flat(inp, S))\n"
                           % _py_repr(inp)))
        # an element of a differently weighted / typed space is converted, not returned
        X = mutate(rng, S)
        if X[0] == S[0] and numeric_only(X):
            try:
                oX = build(X, ctx)
                same_shape = _shapes(X) == _shapes(S)
                if same_shape and not (oX == oS):
                    xo = oX.element(_input_for(rng, X))
                    el = oS.element(xo)
                    ok = (el is not xo) and (el in oS) and np.array_equal(_flat(el), _expected_flat_el(xo, S))
                    out.append(C.Probe(ok, 'element-cast-%s' % kind,
                                       'an element of another space with the same shape is converted (%s)' % kind,
                                       head + "X = %r\noX = H.build(X, ctx)\nimport random\nxo = oX.element(H._input_for(random.Random(1), X))\n"
                                       "el = oS.element(xo)\nok = (el is not xo) and (el in oS) and np.array_equal(H._flat(el), H._expected_flat_el(xo, S))\n" % (X,)))
            except Exception:
                pass
        # no-copy fast paths (docstrings: "a copy is avoided whenever possible"): an array of the right
        # dtype and shape is wrapped; an element of the tspace is wrapped by a discretized space
        if kind in ('tensor', 'discr') and oS.size > 0:
            arr = np.zeros(oS.shape, dtype=oS.dtype)
            ok = _safe(lambda: np.shares_memory(np.asarray(oS.element(arr)), arr))
            out.append(C.Probe(ok, 'element-nocopy-array-%s' % kind, 'S.element(array of the right dtype) shares its memory',
                               head + "arr = np.zeros(oS.shape, dtype=oS.dtype)\nok = bool(np.shares_memory(np.asarray(oS.element(arr)), arr))\n"))
        if kind == 'discr' and oS.size > 0:
            te = oS.tspace.zero()
            ok = _safe(lambda: np.shares_memory(np.asarray(oS.element(te)), np.asarray(te)))
            out.append(C.Probe(ok, 'element-nocopy-discr-tspace', 'discr.element(tspace element) wraps it without copying',
                               head + "te = oS.tspace.zero()\nok = bool(np.shares_memory(np.asarray(oS.element(te)), np.asarray(te)))\n"))
        # data_ptr= / invalid option combinations (NumpyTensorSpace.element)
        if kind == 'tensor' and oS.size > 0:
            src = np.ascontiguousarray(_rand_data(rng, oS.shape, leaf_tsp(S)[1]).astype(oS.dtype))
            def _dp():
                e = oS.element(data_ptr=src.ctypes.data, order='C')
                return (e in oS) and np.array_equal(np.asarray(e), src) and np.shares_memory(np.asarray(e), src) or \
                    (np.array_equal(np.asarray(e), src) and np.asarray(e).ctypes.data == src.ctypes.data)
            out.append(C.Probe(_safe(_dp), 'element-data_ptr', 'S.element(data_ptr=p, order="C") wraps the memory at p',
                               head + "src = np.ascontiguousarray(np.arange(oS.size).reshape(oS.shape).astype(oS.dtype))\n"
                               "e = oS.element(data_ptr=src.ctypes.data, order='C')\nok = (e in oS) and np.array_equal(np.asarray(e), src) and np.asarray(e).ctypes.data == src.ctypes.data\n"))
            def _raises(f, exc):
                try:
                    f()
                except exc:
                    return True
                except Exception:
                    return False
                return False
            ok = (_raises(lambda: oS.element(src, data_ptr=src.ctypes.data), TypeError)
                  and _raises(lambda: oS.element(data_ptr=src.ctypes.data), ValueError)
                  and _raises(lambda: oS.element(src, order='X'), ValueError))
            out.append(C.Probe(ok, 'element-option-errors', 'inp together with data_ptr: TypeError; data_ptr without order, unknown order: ValueError',
                               head + "src = np.zeros(oS.shape, dtype=oS.dtype)\nok = True\n"
                               "for f, exc in [(lambda: oS.element(src, data_ptr=src.ctypes.data), TypeError), (lambda: oS.element(data_ptr=src.ctypes.data), ValueError), (lambda: oS.element(src, order='X'), ValueError)]:\n"
                               "    try:\n        f(); ok = False\n    except exc:\n        pass\n    except Exception:\n        ok = False\n"))
        # (3) incompatible shapes raise (ValueError)
        bad = _input_for(rng, S, good=False)
        try:
            oS.element(bad)
            ok = False
        except ValueError:
            ok = True
        except Exception:
            ok = False
        out.append(C.Probe(ok, 'element-shape-error-%s' % kind, 'S.element(wrongly shaped input) raises ValueError (%s)' % kind,
                           head + "bad = %s\ntry:\n    oS.element(bad); ok = False\nexcept ValueError:\n    ok = True\n" % _py_repr(bad)))


def _shapes(d):
    if d[0] == 'prod':
        return tuple(_shapes(x) for x in d[1])
    return tuple(leaf_tsp(d)[0])


def _expected_flat_el(el, d):
    import odl
    if d[0] == 'prod':
        parts = [_expected_flat_el(p, x) for p, x in zip(el, d[1])]
        return np.concatenate(parts) if parts else np.zeros(0)
    return np.asarray(el).astype(leaf_tsp(d)[1]).ravel()


def _py_repr(x):
    if isinstance(x, np.ndarray):
        return 'np.array(%r, dtype=%r)' % (x.tolist(), x.dtype.name)
    if isinstance(x, list):
        return '[' + ', '.join(_py_repr(i) for i in x) + ']'
    return repr(x)


def w_same(w1, w2):
    """weighting preserved: the same object or an equal descriptor"""
    return w1 is w2 or (w1 == w2 and type(w1) is type(w2))


def _check_derived_leafwise(src, res, dt, keyprefix, problems):
    """shape/dtype/field/weighting of res are those of src with dtype dt (recursively)."""
    import odl
    if isinstance(src, odl.ProductSpace):
        if not isinstance(res, odl.ProductSpace) or len(res) != len(src):
            problems.append(keyprefix + '-structure')
            return
        if not w_same(src.weighting, res.weighting):
            problems.append('pspace-astype-drops-weighting')
        for s, r in zip(src.spaces, res.spaces):
            _check_derived_leafwise(s, r, dt, keyprefix, problems)
        return
    if type(res) is not type(src) or res.shape != src.shape:
        problems.append(keyprefix + '-shape')
        return
    want = np.dtype(dt(src) if callable(dt) else dt)
    if res.dtype != want:
        problems.append(keyprefix + '-dtype')
    from odl.util import is_real_dtype, is_complex_floating_dtype, is_floating_dtype, is_numeric_dtype
    f = res.field
    okf = (isinstance(f, odl.RealNumbers) if is_real_dtype(want) else
           isinstance(f, odl.ComplexNumbers) if is_complex_floating_dtype(want) else f is None)
    if not okf:
        problems.append(keyprefix + '-field')
    if is_numeric_dtype(want) and is_numeric_dtype(src.dtype) and not w_same(src.weighting, res.weighting):
        problems.append('tensorspace-astype-nonfloat-drops-weighting' if not is_floating_dtype(want)
                        else keyprefix + '-weighting')
    if isinstance(src, odl.DiscretizedSpace) and res.partition != src.partition:
        problems.append(keyprefix + '-partition')


def probe_derived(rng, tier, out):
    import odl
    from odl.util import is_numeric_dtype
    n = 150 if tier == 'quick' else 900
    ctx = Ctx()
    for _ in range(n):
        S = gen_prod(rng, 2) if rng.random() < 0.5 else gen_space(rng, 2)
        try:
            oS = build(S, ctx)
        except Exception:
            continue
        head = _RP_HEAD + "S = %r\noS = H.build(S, ctx)\n" % (S,)
        r = rng.random()
        if r < 0.5:
            dt = rng.choice(['float64', 'float32', 'complex128', 'complex64', 'int64', 'int32', 'uint8', 'float16'])
            name, call, want = 'astype', "oS.astype(%r)" % dt, dt
        elif r < 0.75:
            name, call = 'real_space', "oS.real_space"
            want = lambda s: s.real_dtype
        else:
            name, call = 'complex_space', "oS.complex_space"
            want = lambda s: s.complex_dtype
        problems = []
        arrw_cast = False
        try:
            res = eval(call)
            _check_derived_leafwise(oS, res, want, name, problems)
        except Exception as e:
            # raising is acceptable only where the target is undefined: non-numeric source for real/complex
            # counterparts, no complex counterpart of an integer type, float64 weighting array not castable
            leaves = _leaves(oS)
            if name == 'astype':
                arrw_cast = any(isinstance(l.weighting, odl.space.weighting.ArrayWeighting) and
                                not np.can_cast(l.weighting.array.dtype, np.dtype(want)) for l in leaves)
                undefined = arrw_cast
            else:
                undefined = any((not is_numeric_dtype(l.dtype)) or (name == 'complex_space' and l.complex_dtype is None)
                                or (isinstance(l.weighting, odl.space.weighting.ArrayWeighting) and l.dtype != np.dtype('float64')
                                    and l.dtype != np.dtype('complex128') and False) for l in leaves)
                undefined = undefined or any(isinstance(l.weighting, odl.space.weighting.ArrayWeighting) for l in leaves)
            if isinstance(oS, odl.ProductSpace) and _has_empty(oS):
                problems.append('pspace-empty-astype-raises')
            elif not undefined:
                problems.append('%s-raises-%s' % (name, type(e).__name__))
        for k in sorted(set(problems)) or [None]:
            out.append(C.Probe(k is None, k or ('derived-%s-%s' % (name, S[0])),
                               '%s of %s: shape, dtype, field and weighting carried over' % (name, S[0]),
                               head + "probs = []\ntry:\n    res = %s\n    H._check_derived_leafwise(oS, res, %s, %r, probs)\n"
                               "except Exception as e:\n    probs.append(repr(e))\nobserved = probs; ok = not probs\n"
                               % (call, repr(want) if isinstance(want, str) else
                                  ('(lambda s: s.real_dtype)' if name == 'real_space' else '(lambda s: s.complex_dtype)'), name)))


def _leaves(s):
    import odl
    if isinstance(s, odl.ProductSpace):
        return [l for x in s.spaces for l in _leaves(x)]
    return [s]


def _has_empty(s):
    import odl
    return isinstance(s, odl.ProductSpace) and (len(s) == 0 or any(_has_empty(x) for x in s.spaces))


def _safe(f):
    try:
        return bool(f())
    except Exception:
        return False


def probe_indexing(rng, tier, out):
    import odl
    n = 120 if tier == 'quick' else 700
    ctx = Ctx()
    for _ in range(n):
        # ---- product-space indexing: int / slice / list select the components and keep the weighting
        S = gen_prod(rng, 1)
        try:
            oS = build(S, ctx)
        except Exception:
            continue
        m = len(S[1])
        idx = gen_slice(rng, m) if rng.random() < 0.5 else [rng.randrange(-m, m) for _ in range(rng.choice([1, 2, 3]))] if m else slice(None)
        head = _RP_HEAD + "S = %r\noS = H.build(S, ctx)\nidx = %r\n" % (S, idx)
        try:
            sub = oS[idx]
            want = [oS.spaces[i] for i in (range(m)[idx] if isinstance(idx, slice) else idx)]
            ok_sel = isinstance(sub, odl.ProductSpace) and len(sub) == len(want) and all(a is b for a, b in zip(sub.spaces, want))
            ok_fld = sub.field == oS.field
            w = oS.weighting
            if isinstance(w, odl.space.weighting.ConstWeighting):
                ok_w = (sub.weighting == w)
            else:
                ok_w = True        # array / custom weightings have no canonical restriction
        except ValueError:
            ok_sel = ok_fld = ok_w = (isinstance(idx, slice) and idx.step == 0)
        except Exception:
            ok_sel = ok_fld = ok_w = False
        out.append(C.Probe(ok_sel and ok_fld, 'pspace-getitem-selection', 'pspace[idx] consists of the selected components, same field',
                           head + "sub = oS[idx]\nwant = [oS.spaces[i] for i in (range(len(oS))[idx] if isinstance(idx, slice) else idx)]\n"
                           "ok = len(sub) == len(want) and all(a is b for a, b in zip(sub.spaces, want)) and sub.field == oS.field\n"))
        out.append(C.Probe(ok_w, 'pspace-getitem-drops-weighting', 'pspace[idx] keeps a constant product weighting (and exponent)',
                           head + "sub = oS[idx]\nobserved = (oS.weighting, sub.weighting); ok = sub.weighting == oS.weighting\n"))
        # integer index (also negative): the component object itself
        if m:
            k = rng.randrange(-m, m)
            out.append(C.Probe(_safe(lambda: oS[k] is oS.spaces[k] and oS[k, ] is oS.spaces[k]), 'pspace-getitem-int',
                               'pspace[k] and pspace[k,] are the k-th component',
                               _RP_HEAD + "S = %r\noS = H.build(S, ctx)\nk = %r\nok = oS[k] is oS.spaces[k] and oS[k,] is oS.spaces[k]\n" % (S, k)))
    # ---- element indexing commutes with asarray: tensors
    for _ in range(n):
        t = gen_tsp(rng, shape=[rng.choice([1, 2, 3]) for _ in range(rng.choice([1, 2, 3]))])
        if t[1] in ('U', 'O'):
            continue
        S = ('tensor', t) if rng.random() < 0.6 else None
        if S is None:
            p = gen_part(rng, len(t[0]))
            S = ('discr', p, (tuple(len(g) for g in p[1]), t[1], t[2] if t[2][0] != 'array' else ('const', 'KNpy', 1.0, 2.0)))
        try:
            oS = build(S, ctx)
        except Exception:
            continue
        shape = oS.shape
        x = oS.element(_rand_data(rng, shape, leaf_tsp(S)[1]))
        idx = tuple((rng.randrange(-k, k) if rng.random() < 0.4 else gen_slice(rng, k)) for k in shape[:rng.randint(1, len(shape))])
        idx = tuple(i if not (isinstance(i, slice) and i.step == 0) else slice(None) for i in idx)
        if len(idx) == 1 and rng.random() < 0.5:
            idx = idx[0]
        arr = np.asarray(x)[idx]
        isarrw = leaf_tsp(S)[2][0] == 'array'
        try:
            sub = x[idx]
            ok = np.array_equal(np.asarray(sub), arr)
            if not np.isscalar(arr):
                ok = ok and sub.shape == arr.shape and sub.dtype == arr.dtype
                w = oS.weighting if S[0] == 'tensor' else oS.tspace.weighting
                if leaf_tsp(S)[1] == 'bool':
                    okw = True
                elif isarrw:       # the weights of the selected entries
                    sw = sub.space.weighting
                    okw = (isinstance(sw, odl.space.weighting.ArrayWeighting) and sw.exponent == w.exponent
                           and np.array_equal(np.asarray(sw.array), np.asarray(w.array)[idx]))
                else:
                    okw = w_same(sub.space.weighting, w)
            else:
                okw = True
        except Exception:
            ok, okw = False, True
        key = 'tensor-getitem-array-weighting' if isarrw else 'tensor-getitem-%s' % S[0]
        head = _RP_HEAD + "S = %r\noS = H.build(S, ctx)\nidx = %r\nx = oS.element(np.arange(oS.size, dtype=float).reshape(oS.shape) %% 2)\n" % (S, idx)
        out.append(C.Probe(ok, key, 'x[idx] has the entries, shape and dtype of x.asarray()[idx] (%s)' % S[0],
                           head + "sub = x[idx]; arr = np.asarray(x)[idx]\nok = np.array_equal(np.asarray(sub), arr)\n"))
        out.append(C.Probe(okw, key if isarrw else key + '-weighting',
                           'x[idx].space carries the weighting of the selection (same constant / custom object, '
                           'selected entries of a weighting array)',
                           head + "sub = x[idx]; w = (oS.weighting if %r == 'tensor' else oS.tspace.weighting)\n"
                           "ok = np.isscalar(sub) or sub.space.weighting == w or np.array_equal(np.asarray(sub.space.weighting.array), np.asarray(w.array)[idx])\n" % S[0]))
        # byaxis: shape of the selection, same dtype and (non-array) weighting
        if S[0] == 'tensor':
            nd = len(shape)
            bi = rng.randrange(-nd, nd) if rng.random() < 0.4 else gen_slice(rng, nd) if rng.random() < 0.5 else [rng.randrange(-nd, nd) for _ in range(rng.choice([1, 2]))]
            if isinstance(bi, slice) and bi.step == 0:
                bi = slice(None)
            want_shape = (shape[bi],) if isinstance(bi, int) else tuple(shape[bi]) if isinstance(bi, slice) else tuple(shape[i] for i in bi)
            try:
                sub = oS.byaxis[bi]
                ok = sub.shape == want_shape and sub.dtype == oS.dtype and (isarrw or w_same(sub.weighting, oS.weighting))
            except Exception:
                ok = False
            key = ('byaxis-array-weighting' if isarrw else 'byaxis-nonnumeric-dtype' if leaf_tsp(S)[1] == 'bool' else 'byaxis-tensor')
            out.append(C.Probe(ok, key, 'space.byaxis[idx] has the selected axes, same dtype and weighting',
                               _RP_HEAD + "S = %r\noS = H.build(S, ctx)\nsub = oS.byaxis[%r]\nok = sub.shape == %r and sub.dtype == oS.dtype\n" % (S, bi, want_shape)))
    # ---- element indexing commutes with asarray: power spaces (possibly nested)
    for _ in range(n):
        base_n = rng.choice([1, 2, 3])
        m1, m2 = rng.choice([1, 2, 3]), rng.choice([1, 2])
        depth = rng.choice([1, 1, 2])
        sp = odl.rn(base_n)
        ps = odl.ProductSpace(sp, m1) if depth == 1 else odl.ProductSpace(odl.ProductSpace(sp, m1), m2)
        shape = ps.shape
        data = np.arange(int(np.prod(shape)), dtype=float).reshape(shape)
        x = ps.element(data)
        r = rng.random()
        if r < 0.35:
            idx = rng.randrange(-shape[0], shape[0]) if rng.random() < 0.5 else gen_slice(rng, shape[0])
            if isinstance(idx, slice) and idx.step == 0:
                idx = slice(None)
            simple = True
        else:
            idx = tuple((rng.randrange(-k, k) if rng.random() < 0.5 else gen_slice(rng, k)) for k in shape[:rng.randint(2, len(shape))])
            idx = tuple(i if not (isinstance(i, slice) and i.step == 0) else slice(None) for i in idx)
            simple = all(isinstance(i, int) for i in idx)
        arr = data[idx]
        try:
            sub = x[idx]
            ok = np.array_equal(np.asarray(sub), arr) and np.shape(np.asarray(sub)) == np.shape(arr)
        except Exception:
            ok = False
        key = 'pspace-element-getitem-%s' % ('empty-selection' if np.size(arr) == 0 else 'simple' if simple else 'tuple')
        out.append(C.Probe(ok, key, 'x[idx].asarray() equals x.asarray()[idx] on a power space of shape %s' % (shape,),
                           "import odl, numpy as np\nsp = odl.rn(%d)\nps = %s\ndata = np.arange(%d, dtype=float).reshape(%r)\nx = ps.element(data)\nidx = %r\n"
                           "try:\n    sub = np.asarray(x[idx]); observed = sub.shape; expected = data[idx].shape\n    ok = np.array_equal(sub, data[idx]) and sub.shape == data[idx].shape\n"
                           "except Exception as e:\n    observed = repr(e); ok = False\n"
                           % (base_n, 'odl.ProductSpace(sp, %d)' % m1 if depth == 1 else 'odl.ProductSpace(odl.ProductSpace(sp, %d), %d)' % (m1, m2),
                              int(np.prod(shape)), shape, idx)))



def probe_near(rng, tier, out):
    """Equality laws on triples whose only difference is ONE float at near-equal values
    (relative 1e-16 .. 1e-4 per link, or all tiny): a tolerance in any __eq__ breaks transitivity,
    hash consistency or set/dict behaviour here."""
    n = 300 if tier == 'quick' else 2000
    ctx = Ctx()
    for _ in range(n):
        base = gen_thing(rng) if rng.random() < 0.6 else gen_space(rng, 1)
        ch = near_chain(rng, base, 3)
        if ch is None:
            continue
        try:
            objs = [build_thing(t, ctx) for t in ch]
        except Exception:
            continue
        cls = cls_of(ch[0])
        head = _RP_HEAD + "ch = %r\nobjs = [H.build_thing(t, ctx) for t in ch]\n" % (ch,)
        E = [[obs_eq(x, y) for y in objs] for x in objs]
        ok_total = all(e != 'EE' for row in E for e in row)
        ok_sym = all(E[i][j] == E[j][i] for i in range(3) for j in range(3))
        ok_trans = all(not (E[i][j] == 'TT' and E[j][k] == 'TT') or E[i][k] == 'TT'
                       for i in range(3) for j in range(3) for k in range(3))
        H_ = [obs_hash(x) for x in objs]
        ok_hash = all(E[i][j] != 'TT' or H_[i] == H_[j] for i in range(3) for j in range(3))
        # the floats of the three descriptors decide: equal descriptors <=> equal objects
        ok_exact = all((E[i][j] == 'TT') == (_desc_equal(ch[i], ch[j])) for i in range(3) for j in range(3))
        # set / dict behaviour: the number of distinct keys is the number of equivalence classes
        if all(h is not None for h in H_) and ok_total:
            classes = []
            for i in range(3):
                if not any(E[i][j] == 'TT' for j in classes):
                    classes.append(i)
            ok_set = _safe(lambda: len(set(objs)) == len(classes) and len({o: 1 for o in objs}) == len(classes)
                           and all(objs[j] in {objs[i]} for i in range(3) for j in range(3) if E[i][j] == 'TT'))
        else:
            ok_set = True
        for ok, law, what, snippet in [
            (ok_total and ok_sym, 'sym', 'never raises, symmetric',
             "E = [[H.obs_eq(x, y) for y in objs] for x in objs]\nobserved = E\nok = all(e != 'EE' for r in E for e in r) and all(E[i][j] == E[j][i] for i in range(3) for j in range(3))\n"),
            (ok_trans, 'trans', 'transitive',
             "E = [[H.obs_eq(x, y) for y in objs] for x in objs]\nobserved = E\nok = all(not (E[i][j] == 'TT' and E[j][k] == 'TT') or E[i][k] == 'TT' for i in range(3) for j in range(3) for k in range(3))\n"),
            (ok_hash, 'hash', 'equal objects hash equal',
             "observed = [(H.obs_eq(x, y), H.obs_hash(x) == H.obs_hash(y)) for x in objs for y in objs]\nok = all(h or e != 'TT' for e, h in observed)\n"),
            (ok_set, 'setdict', 'set/dict keys = equivalence classes',
             "E = [[H.obs_eq(x, y) for y in objs] for x in objs]\ncl = []\nfor i in range(3):\n    if not any(E[i][j] == 'TT' for j in cl):\n        cl.append(i)\nobserved = (len(set(objs)), len(cl)); ok = observed[0] == observed[1]\n"),
            (ok_exact, 'exact', 'objects are equal exactly when all their float parameters are',
             "observed = [[H.obs_eq(x, y) for y in objs] for x in objs]\nok = all((observed[i][j] == 'TT') == H._desc_equal(ch[i], ch[j]) for i in range(3) for j in range(3))\n"),
        ]:
            out.append(C.Probe(ok, law_key('near-' + law, ch), 'near-equal float parameters: %s (%s)' % (what, cls),
                               head + snippet))
        # membership agrees with space equality
        if ch[0][0] in ('tensor', 'discr', 'prod'):
            try:
                xs = [o.element() for o in objs]
                ok = all((xs[i] in objs[j]) == (E[i][j] == 'TT') for i in range(3) for j in range(3))
            except Exception:
                ok = False
            out.append(C.Probe(ok, law_key('near-membership', ch), 'near-equal float parameters: x in S iff x.space == S (%s)' % cls,
                               head + "xs = [o.element() for o in objs]\nok = all((xs[i] in objs[j]) == bool(objs[i] == objs[j]) for i in range(3) for j in range(3))\n"))


def _desc_equal(a, b):
    """Descriptors denote equal objects as far as the floats go: same after erasing weighting class
    families and numeric types of FiniteSet atoms (only called on chains that differ in one float)."""
    fa, fb = [], []
    map_floats(a, lambda k, x: fa.append(x) or x)
    map_floats(b, lambda k, x: fb.append(x) or x)
    return fa == fb



def probe_byaxis_in(rng, tier, out):
    """discr.byaxis_in[idx]: the discretization of the selected axes (in selection order), same dtype,
    and for spaces weighted by their cell volume the cell volume of the selection."""
    import odl
    n = 80 if tier == 'quick' else 500
    ctx = Ctx()
    for _ in range(n):
        nd = rng.choice([1, 2, 2, 3])
        uniform = rng.random() < 0.85
        shape = [rng.choice([1, 2, 3, 4]) for _ in range(nd)]
        mins = [rng.choice([0.0, -1.0, 1.0]) for _ in range(nd)]
        sides = [rng.choice([0.5, 1.0, 0.25, 2.0]) for _ in range(nd)]
        maxs = [a + k * h for a, k, h in zip(mins, shape, sides)]
        dt = rng.choice(['float64', 'float32', 'complex128', 'int64'])
        if uniform:
            mk = "odl.uniform_discr(%r, %r, %r, dtype=%r)" % (mins, maxs, shape, dt)
        else:
            vecs = [sorted(rng.sample([a + 0.125 * j for j in range(1, 12)], k)) for a, k in zip(mins, shape)]
            maxs = [v[-1] + 0.5 for v in vecs]
            mk = ("odl.DiscretizedSpace(odl.RectPartition(odl.IntervalProd(%r, %r), odl.RectGrid(*%r)), odl.rn(%r, dtype=%r))"
                  % (mins, maxs, vecs, tuple(shape), 'float64'))
        k = rng.random()
        idx = (rng.randrange(-nd, nd) if k < 0.35 else gen_slice(rng, nd) if k < 0.7 else
               [rng.randrange(-nd, nd) for _ in range(rng.choice([0, 1, 2, 3]))])
        if isinstance(idx, slice) and idx.step == 0:
            idx = slice(None)
        sel = [idx % nd] if isinstance(idx, int) else list(range(nd)[idx]) if isinstance(idx, slice) else [i % nd for i in idx]
        rp = ("import odl, numpy as np\nd = %s\nidx = %r; sel = %r\n"
              "try:\n    s = d.byaxis_in[idx]\n"
              "    ok = (s.shape == tuple(d.shape[i] for i in sel) and s.dtype == d.dtype\n"
              "          and np.array_equal(s.min_pt, d.min_pt[sel]) and np.array_equal(s.max_pt, d.max_pt[sel])\n"
              "          and all(np.array_equal(u, d.grid.coord_vectors[i]) for u, i in zip(s.grid.coord_vectors, sel)))\n"
              "    if ok and d.partition.is_uniform and d.is_weighted:\n"
              "        ok = bool(np.isclose(s.weighting.const, np.prod(d.cell_sides[sel])))\n"
              "except Exception as e:\n    observed = repr(e); ok = False\n" % (mk, idx, sel))
        env = {}
        try:
            exec(rp, env)
            ok = bool(env['ok'])
        except Exception:
            ok = False
        key = ('byaxis_in-empty-selection' if not sel else
               'byaxis_in-nonuniform-grid' if not uniform else
               'byaxis_in-negative-step-slice' if isinstance(idx, slice) and (idx.step or 1) < 0 and len(sel) > 1 else
               'byaxis_in-selection')
        out.append(C.Probe(ok, key, 'byaxis_in[idx] discretizes the selected axes, same dtype, cell-volume weighting', rp))



def probe_chains(rng, tier, out):
    """Derived spaces depend only on the VALUE of the space they are derived from: a derivation on an
    object that other derivations have already been applied to (caches!) gives a space equal -- same
    class, shape, dtype, weighting -- to the derivation on a freshly built equal object.  Also the dtype
    rules of the counterparts over the full dtype table: complex_space.real_space has the real dtype of
    the complex dtype (NumPy's), real_space.complex_space the complex dtype, x.real / x.imag live there."""
    import odl
    ctx = Ctx()
    n = 120 if tier == 'quick' else 700
    for _ in range(n):
        S = gen_space(rng, 1) if rng.random() < 0.7 else gen_prod(rng, 1)
        try:
            oS = build(S, ctx)
        except Exception:
            continue
        ops = [gen_dop(rng, S, chain=True) for _ in range(rng.choice([2, 3, 4]))]
        # only dtype derivations are applicable to every space kind
        ops = [o for o in ops if o[2][0] in ('astype', 'real_space', 'complex_space')]
        if len(ops) < 2:
            continue
        labels = [o[2] for o in ops]
        rp = (_RP_HEAD + "S = %r\nlabels = %r\n"
              "def ap(o, l):\n    return o.astype({'U': 'U1'}.get(l[1], l[1])) if l[0] == 'astype' else getattr(o, l[0])\n"
              "def same(a, b):\n    return H.describe(a, ctx) == H.describe(b, ctx)\n"
              "used = H.build(S, ctx); ok = True; observed = []\n"
              "for i, l in enumerate(labels):\n"
              "    for m in labels[:i]:\n"
              "        try: ap(used, m)\n        except Exception: pass\n"
              "    try: r1 = ap(used, l)\n    except Exception as e: r1 = type(e)\n"
              "    try: r2 = ap(H.build(S, ctx), l)\n    except Exception as e: r2 = type(e)\n"
              "    good = (r1 is r2) if isinstance(r1, type) or isinstance(r2, type) else same(r1, r2)\n"
              "    observed.append((l, good)); ok = ok and good\n"
              "    if not isinstance(r1, type) and not isinstance(r2, type):\n"
              "        for m in labels:\n"
              "            try: q1 = ap(r1, m)\n            except Exception as e: q1 = type(e)\n"
              "            try: q2 = ap(r2, m)\n            except Exception as e: q2 = type(e)\n"
              "            g2 = (q1 is q2) if isinstance(q1, type) or isinstance(q2, type) else same(q1, q2)\n"
              "            observed.append((l, m, g2)); ok = ok and g2\n" % (S, labels))
        env = {}
        try:
            exec(rp, env)
            ok = bool(env['ok'])
        except Exception:
            ok = False
        out.append(C.Probe(ok, 'derived-chain-cache-%s' % S[0],
                           'derivations after other derivations equal derivations on a fresh equal space (%s)' % S[0], rp))
    # counterpart dtype rules over the full table
    for name in [d for d in DTYPES if d not in ('O', 'U', 'bool')]:
        for kind in ('tensor', 'discr', 'prod'):
            mk = {'tensor': "odl.tensor_space(3, dtype=%r)" % name,
                  'discr': "odl.uniform_discr(0, 1, 3, dtype=%r)" % name,
                  'prod': "odl.ProductSpace(odl.tensor_space(3, dtype=%r), 2)" % name}[kind]
            rp = ("import odl, numpy as np\nS = %s\ndt = np.dtype(%r)\nok = True; observed = []\n"
                  "def leaf(s):\n    return s[0] if isinstance(s, odl.ProductSpace) else s\n"
                  "if dt.kind == 'c':\n    C_ = S\nelse:\n"
                  "    try: C_ = S.complex_space\n    except ValueError: C_ = None     # no complex counterpart of an integer type\n"
                  "if C_ is not None:\n"
                  "    cdt = leaf(C_).dtype; rdt = np.empty(0, cdt).real.dtype\n"
                  "    observed.append((str(cdt), str(leaf(C_.real_space).dtype), str(rdt)))\n"
                  "    ok = ok and cdt.kind == 'c' and leaf(C_.real_space).dtype == rdt and leaf(C_.real_space.complex_space).dtype == cdt\n"
                  "    x = C_.one()\n"
                  "    ok = ok and leaf(x.real.space).dtype == rdt and leaf(x.imag.space).dtype == rdt\n"
                  "    ok = ok and leaf(C_.real_space).dtype == rdt      # asked again, after x.real used the cache\n"
                  "if dt.kind != 'c':\n    ok = ok and leaf(S.real_space).dtype == dt\n" % (mk, name))
            env = {}
            try:
                exec(rp, env)
                ok = bool(env['ok'])
            except Exception:
                ok = False
            out.append(C.Probe(ok, 'counterpart-dtype-%s-%s' % (kind, name),
                               'real/complex counterparts of %s (%s): dtypes follow the NumPy real/complex pairing' % (name, kind), rp))



# --------------------------------------------------------------------- ndarray attributes entering __eq__/__hash__
_AV_SRC = r"""
import numpy as np, odl, warnings
warnings.simplefilter('ignore')
from odl.space.npy_tensors import NumpyTensorSpaceArrayWeighting as NA
from odl.space.pspace import ProductSpaceArrayWeighting as PA
from odl.space.weighting import MatrixWeighting

def variants(shape):
    # name -> array of the given shape: the same memory seen in different ways, copies, other memory
    n = int(np.prod(shape))
    nd = len(shape)
    B = (np.arange(8 * n * 2, dtype=float) % 7 + 1.0)
    if nd == 1:
        base = B[:n]
        out = {'same': base, 'copy': base.copy(), 'strided': B[::2][:n], 'shifted': B[1:n + 1],
               'reversed': base[::-1], 'fullview': base[:],
               'bytes_as_int': base.view(np.int64), 'broadcast': np.broadcast_to(B[0], (n,)),
               'equal_other_memory': np.array(base.tolist()), 'same_values_int': base.astype(np.int64)}
    else:
        A = B[:4 * n].reshape((2 * shape[0], 2 * shape[1]))
        base = A[:shape[0], :shape[1]]
        out = {'same': base, 'copy': base.copy(), 'strided': A[::2, ::2], 'shifted': A[1:shape[0] + 1, :shape[1]],
               'reversed': base[::-1, ::-1], 'fullview': base[:, :], 'transposed': A[:shape[1], :shape[0]].T,
               'broadcast': np.broadcast_to(A[0, :shape[1]], shape), 'equal_other_memory': np.array(base.tolist()),
               'same_values_int': base.astype(np.int64)}
    ro = base[...]
    ro.flags.writeable = False
    out['readonly'] = ro
    return out

def make(kind, arr):
    if kind == 'NA':
        return NA(arr)
    if kind == 'PA':
        return PA(arr)
    if kind == 'matrix':
        return MatrixWeighting(arr, impl='numpy')
    if kind == 'tensor':
        return odl.rn(arr.shape, weighting=arr)
    if kind == 'tensor-NAobj':
        return odl.rn(arr.shape, weighting=NA(arr))
    if kind == 'cn':
        return odl.cn(arr.shape, weighting=arr)
    if kind == 'discr':
        part = odl.uniform_partition([0.0] * arr.ndim, [1.0] * arr.ndim, arr.shape)
        return odl.DiscretizedSpace(part, odl.rn(arr.shape, weighting=arr))
    if kind == 'prod':
        return odl.ProductSpace(odl.rn(2), len(arr), weighting=arr)
    if kind == 'prod-of-weighted':
        return odl.ProductSpace(odl.rn(arr.shape, weighting=arr), 2)
    raise ValueError(kind)

def indexed_spaces():
    # spaces of elements obtained by indexing elements of array-weighted spaces
    W = np.array([1.0, 2.0, 3.0, 4.0, 5.0, 6.0])
    x = odl.rn(6, weighting=W).one()
    out = {'x[:3]': x[:3].space, 'x[:3] again': x[:3].space, 'x[::2]': x[::2].space, 'x[[0,2,4]]': x[[0, 2, 4]].space,
           'x[1:4]': x[1:4].space, 'x[2::-1]': x[2::-1].space, 'x[:3][:]': x[:3][:].space}
    y = odl.uniform_discr(0, 1, 6, weighting=W).one()
    out.update({'y[:3]': y[:3].space, 'y[::2]': y[::2].space})
    A = np.arange(16, dtype=float).reshape(4, 4) + 1
    z = odl.rn((4, 4), weighting=A).one()
    out.update({'z[:2,:2]': z[:2, :2].space, 'z[::2,::2]': z[::2, ::2].space, 'z[:2,:2] again': z[:2, :2].space})
    return out

def test_value(o):
    # a number that equal objects must share: the norm of a fixed test vector
    if isinstance(o, odl.ProductSpace):
        el = o.element([np.arange(1, sp.size + 1, dtype=float).reshape(sp.shape) for sp in o.spaces])
        return float(el.norm())
    if isinstance(o, odl.space.base_tensors.TensorSpace):
        return float(o.element(np.arange(1, o.size + 1, dtype=float).reshape(o.shape)).norm())
    return None

def eqo(a, b):
    try:
        return bool(a == b)
    except Exception:
        return 'raises'

def hsh(a):
    try:
        return hash(a)
    except Exception:
        return 'raises'

def laws(objs):
    # objs: name -> object.  Returns the list of violated laws with witnesses.
    names = list(objs)
    E = {(i, j): eqo(objs[i], objs[j]) for i in names for j in names}
    bad = []
    for i in names:
        if E[i, i] is not True:
            bad.append(('refl', i))
        for j in names:
            if E[i, j] == 'raises':
                bad.append(('raises', i, j))
            if E[i, j] != E[j, i]:
                bad.append(('sym', i, j))
            if E[i, j] is True:
                if hsh(objs[i]) != hsh(objs[j]):
                    bad.append(('hash', i, j))
                vi, vj = test_value(objs[i]), test_value(objs[j])
                if vi is not None and not (vi == vj):
                    bad.append(('norm', i, j, vi, vj))
                if hsh(objs[i]) != 'raises' and len({objs[i], objs[j]}) != 1:
                    bad.append(('setkey', i, j))
            for k in names:
                if E[i, j] is True and E[j, k] is True and E[i, k] is not True:
                    bad.append(('trans', i, j, k))
            a, b = objs[i], objs[j]
            if isinstance(a, odl.set.space.LinearSpace) and isinstance(b, odl.set.space.LinearSpace):
                try:
                    if (a.element() in b) != (E[i, j] is True):
                        bad.append(('membership', i, j))
                except Exception:
                    bad.append(('membership-raises', i, j))
    return bad
"""


def probe_array_views(rng, tier, out):
    """Every ndarray that enters an __eq__/__hash__ (weighting arrays and matrices; grids and interval
    products copy their input) offered as: the same object, copies, views of the same memory with other
    strides / offset / order / dtype / stride 0 / read-only; on weightings, tensor, discretized and
    product spaces, and on the spaces of indexed elements.  == must be an equivalence, imply equal
    hashes, one set/dict key, the same norm of a test vector, and agree with membership."""
    kinds = [('NA', (3,)), ('NA', (2, 2)), ('PA', (3,)), ('matrix', (2, 2)), ('tensor', (3,)), ('tensor', (2, 2)),
             ('tensor-NAobj', (3,)), ('cn', (2,)), ('discr', (3,)), ('discr', (2, 2)), ('prod', (3,)),
             ('prod-of-weighted', (2,)), ('tensor', (1,)), ('NA', (4,))]
    for kind, shape in kinds:
        rp = _AV_SRC + ("\nobjs = {}\nfor name, arr in variants(%r).items():\n    try:\n        objs[name] = make(%r, arr)\n"
                        "    except Exception:\n        pass\nobserved = laws(objs); ok = not observed\n" % (shape, kind))
        e2 = {}
        try:
            exec(rp, e2)
            bad = e2['observed']
        except Exception as ex:
            bad = [('probe-raised', repr(ex))]
        viol = sorted({b[0] for b in bad})
        for law in (viol or [None]):
            out.append(C.Probe(law is None, 'array-views-%s-%s' % (kind, law or 'ok'),
                               '%s over views/copies of one buffer, shape %s: ==, hash, set key, norm, membership coherent'
                               % (kind, shape), rp, detail=bad[:6]))
    rp = _AV_SRC + "\nobserved = laws(indexed_spaces()); ok = not observed\n"
    e2 = {}
    try:
        exec(rp, e2)
        bad = e2['observed']
    except Exception as ex:
        bad = [('probe-raised', repr(ex))]
    viol = sorted({b[0] for b in bad})
    for law in (viol or [None]):
        out.append(C.Probe(law is None, 'array-views-indexed-elements-%s' % (law or 'ok'),
                           'spaces of x[:k], x[::2], x[[0,2,4]], ... of array-weighted spaces: ==, hash, norm, membership coherent',
                           rp, detail=bad[:6]))
    # grids / interval products / partitions copy their coordinate arrays: by-value equality
    rp = ("import numpy as np, odl\nB = np.arange(12, dtype=float)\n"
          "vs = {'same': B[:3], 'copy': B[:3].copy(), 'strided': B[::2][:3], 'shifted': B[1:4], 'asint': B[:3].astype(int), 'list': [0.0, 1.0, 2.0]}\n"
          "ok = True; observed = []\n"
          "for mk in (lambda v: odl.RectGrid(v), lambda v: odl.IntervalProd(v, np.asarray(v, dtype=float) + 20), lambda v: odl.RectPartition(odl.IntervalProd(-1, 30), odl.RectGrid(v))):\n"
          "    objs = {k: mk(v) for k, v in vs.items()}\n"
          "    for i in objs:\n        for j in objs:\n"
          "            want = bool(np.array_equal(np.asarray(vs[i], dtype=float), np.asarray(vs[j], dtype=float)))\n"
          "            got = (objs[i] == objs[j]); h = (hash(objs[i]) == hash(objs[j]))\n"
          "            if got != want or (got and not h):\n                ok = False; observed.append((i, j, got, want, h))\n")
    e2 = {}
    try:
        exec(rp, e2)
        ok = bool(e2['ok'])
    except Exception:
        ok = False
    out.append(C.Probe(ok, 'array-views-grid-intv-partition', 'coordinate arrays given as views/copies/lists: equality by value, equal hashes', rp))



# --------------------------------------------------------------------- heterogeneous nested product spaces: indexing
_HN_SRC = r"""
import numpy as np, odl, warnings
warnings.simplefilter('ignore')

def build_tree(t):
    # t: int n -> rn(n); list -> ProductSpace of the subtrees
    if isinstance(t, int):
        return odl.rn(t)
    return odl.ProductSpace(*[build_tree(c) for c in t]) if t else odl.ProductSpace(field=odl.RealNumbers())

def tree_of(space):
    if isinstance(space, odl.ProductSpace):
        return [tree_of(s) for s in space.spaces]
    return int(space.shape[0])

class Bad(Exception):
    pass

def ref_getitem(t, idx):
    # the selection an index expression denotes on a nested list of component spaces
    if isinstance(t, int):
        raise Bad()
    if isinstance(idx, tuple):
        if not idx:
            return t
        i, rest = idx[0], idx[1:]
        if isinstance(i, int):
            if not -len(t) <= i < len(t):
                raise Bad()
            return ref_getitem(t[i], rest) if rest else t[i]
        sel = t[i]
        if not rest:
            return sel
        if not sel:
            raise Bad()
        return [ref_getitem(c, rest) for c in sel]
    if isinstance(idx, int):
        if not -len(t) <= idx < len(t):
            raise Bad()
        return t[idx]
    if isinstance(idx, slice):
        return t[idx]
    return [t[i] for i in idx] if all(-len(t) <= i < len(t) for i in idx) else (_ for _ in ()).throw(Bad())

def one_like(space):
    return space.one()

def check(tree, idx):
    S = build_tree(tree)
    probs = []
    try:
        want = ref_getitem(tree, idx)
    except Bad:
        want = Bad
    try:
        sub = S[idx]
        got = tree_of(sub)
    except (IndexError, ValueError, TypeError):
        sub, got = None, Bad
    def has_empty(w):
        return isinstance(w, list) and (not w or any(has_empty(c) for c in w))
    if want is not Bad and has_empty(want):
        want_ok = (got == want or got is Bad)     # an empty (sub-)selection may have no field to deduce
    else:
        want_ok = (got == want)
    if not want_ok:
        probs.append(('space[idx]', got if got is not Bad else 'raises', want if want is not Bad else 'raises'))
    if sub is not None and isinstance(sub, odl.ProductSpace) and got != []:
        if len(sub) != len(want) if want is not Bad else False:
            probs.append(('len', len(sub)))
        # the element sliced the same way lives in that space
        x = one_like(S)
        try:
            xs = x[idx]
        except Exception as e:
            xs = None
        if xs is not None and hasattr(xs, 'space'):
            if tree_of(xs.space) == got:
                if not (xs.space == sub and xs in sub and sub == xs.space):
                    probs.append(('x[idx].space != space[idx]', repr(xs.space), repr(sub)))
            elif isinstance(idx, tuple) and len(idx) > 1 and not isinstance(idx[0], int):
                pass      # recorded finding pspace-element-getitem-tuple (element side)
            else:
                probs.append(('x[idx].space structure', tree_of(xs.space), got))
    return probs
"""


def _gen_tree(rng, depth, hetero=True):
    if depth == 0:
        return rng.choice([1, 2, 3, 4, 5])
    n = rng.choice([1, 2, 2, 3])
    kids = [_gen_tree(rng, depth - 1 if rng.random() < 0.8 else 0, hetero) for _ in range(n)]
    if not hetero and kids:
        kids = [kids[0]] * n
    return kids


def _tree_desc(t):
    """descriptor of the (unweighted, real) product-space tree"""
    if isinstance(t, int):
        return ('tensor', ((t,), 'float64', ('const', 'KNpy', 1.0, 2.0)))
    return ('prod', tuple(_tree_desc(c) for c in t), ('const', 'KPs', 1.0, 2.0), 'real')


def _gen_tree_index(rng, t, depth=0):
    n = len(t) if isinstance(t, list) else 2
    r = rng.random()
    if r < 0.15:
        return rng.randrange(-n, n) if n else 0
    if r < 0.3:
        return gen_slice(rng, n)
    if r < 0.4:
        return [rng.randrange(-n, n) for _ in range(rng.choice([1, 2, 3]))] if n else []
    k = rng.choice([1, 2, 2, 3])
    out = []
    for _ in range(k):
        out.append(gen_slice(rng, n) if rng.random() < 0.55 else (rng.randrange(-n, n) if n else 0))
    out = tuple(slice(None) if (isinstance(i, slice) and i.step == 0) else i for i in out)
    if rng.random() < 0.35:
        out = (slice(None),) + out[1:] if out else (slice(None),)
    return out


def probe_hetero_nested(rng, tier, out):
    """space[idx] on product spaces with UNEQUAL components, nested 2-3 deep, for ints, (stepped, negative)
    slices, lists and tuples: the selection is the one a nested-list reference gives; the element sliced the
    same way lives in that space (x[idx].space == space[idx], membership, len)."""
    env = {}
    exec(_HN_SRC, env)
    n = 200 if tier == 'quick' else 1500
    fixed = [([[2, 3], [4, 5]], (slice(None), 0)), ([[2, 3], [4, 5]], (slice(None), 1)), ([[2, 3], [4, 5]], (slice(None, None, -1), 0)),
             ([[2, 3], [4, 5], [1, 2]], (slice(0, 3, 2), -1)), ([[[1, 2], [3]], [[4, 5], [2]]], (slice(None), 0, 1)),
             ([[[1, 2], [3]], [[4, 5], [2]]], (slice(None), slice(None), 0)), ([[2, 3], [4, 5]], (1, slice(None))),
             ([[2, 3], [4, 5]], [1, 0]), ([[2, 3], [4, 5]], slice(None, None, -1))]
    cases = list(fixed)
    for _ in range(n):
        t = _gen_tree(rng, rng.choice([2, 2, 3]))
        if isinstance(t, int):
            continue
        idx = _gen_tree_index(rng, t)
        if isinstance(idx, slice) and idx.step == 0:
            continue
        cases.append((t, idx))
    for t, idx in cases:
        try:
            probs = env['check'](t, idx)
        except Exception as e:
            probs = [('probe-raised', repr(e))]
        form = ('tuple-' + ('slice' if isinstance(idx[0], slice) else 'int') if isinstance(idx, tuple) and idx else
                type(idx).__name__)
        out.append(C.Probe(not probs, 'pspace-hetero-getitem-%s' % form,
                           'heterogeneous nested product space: space[idx] is the reference selection and x[idx] lives in it',
                           _HN_SRC + "\nobserved = check(%r, %r); ok = not observed\n" % (t, idx), detail=probs[:4]))


# --------------------------------------------------------------------- constructor keywords: one keyword differs
# (constructor expression template, keyword, value a, value b, role): role 'identity' = the keyword is part of the
# identity of the object (different values -> unequal objects), 'cosmetic' = it is not (equal objects, equal hashes)
_KW_HEAD = ("import numpy as np, odl, warnings\nwarnings.simplefilter('ignore')\n"
            "from odl.space.weighting import MatrixWeighting\nfrom odl.space.npy_tensors import NumpyTensorSpaceConstWeighting as NC, NumpyTensorSpaceArrayWeighting as NA\n"
            "from odl.space.pspace import ProductSpaceConstWeighting as PC\n"
            "W = np.array([1.0, 2.0, 3.0]); M = np.eye(3); f = lambda x, y=None: 1.0; g = lambda x, y=None: 2.0\n"
            "part = odl.uniform_partition(0, 1, 3); ts = odl.rn(3)\n")
KEYWORD_TABLE = [
    ('odl.DiscretizedSpace(part, ts, **kw)', 'axis_labels', "('a',)", "('b',)", 'cosmetic'),
    ('odl.uniform_discr(0, 1, 3, **kw)', 'axis_labels', "('a',)", "('b',)", 'cosmetic'),
    ('odl.uniform_discr(0, 1, 3, **kw)', 'dtype', "'float32'", "'float64'", 'identity'),
    ('odl.uniform_discr(0, 1, 3, **kw)', 'nodes_on_bdry', 'True', 'False', 'identity'),
    ('odl.uniform_discr(0, 1, 3, **kw)', 'exponent', '1.0', '2.0', 'identity'),
    ('odl.uniform_discr(0, 1, 3, **kw)', 'weighting', '2.0', '3.0', 'identity'),
    ('odl.uniform_discr(0, 1, 3, **kw)', 'impl', "'numpy'", "'numpy'", 'cosmetic'),
    ('odl.uniform_discr([0, 0], [1, 1], (3, 3), **kw)', 'nodes_on_bdry', '[True, False]', '[False, True]', 'identity'),
    ('odl.NumpyTensorSpace(3, **kw)', 'dtype', "'float32'", "'float64'", 'identity'),
    ('odl.NumpyTensorSpace(3, float, **kw)', 'exponent', '1.0', '2.0', 'identity'),
    ('odl.NumpyTensorSpace(3, float, **kw)', 'weighting', '2.0', '3.0', 'identity'),
    ('odl.NumpyTensorSpace(3, float, **kw)', 'weighting', 'W', 'W.copy()', 'identity'),
    ('odl.NumpyTensorSpace(3, float, **kw)', 'inner', 'f', 'g', 'identity'),
    ('odl.NumpyTensorSpace(3, float, **kw)', 'norm', 'f', 'g', 'identity'),
    ('odl.NumpyTensorSpace(3, float, **kw)', 'dist', 'f', 'g', 'identity'),
    ('odl.rn(3, **kw)', 'impl', "'numpy'", "'numpy'", 'cosmetic'),
    ('odl.rn(3, **kw)', 'exponent', 'float("inf")', '2.0', 'identity'),
    ('odl.cn(3, **kw)', 'dtype', "'complex64'", "'complex128'", 'identity'),
    ('odl.tensor_space(3, **kw)', 'dtype', "'int32'", "'int64'", 'identity'),
    ('odl.ProductSpace(odl.rn(2), 2, **kw)', 'exponent', '1.0', '2.0', 'identity'),
    ('odl.ProductSpace(odl.rn(2), 2, **kw)', 'weighting', '2.0', '3.0', 'identity'),
    ('odl.ProductSpace(odl.rn(2), 3, **kw)', 'weighting', 'W', 'W.copy()', 'identity'),
    ('odl.ProductSpace(odl.rn(2), 2, **kw)', 'inner', 'f', 'g', 'identity'),
    ('odl.ProductSpace(odl.rn(2), 2, **kw)', 'norm', 'f', 'g', 'identity'),
    ('odl.ProductSpace(odl.rn(2), 2, **kw)', 'dist', 'f', 'g', 'identity'),
    ('odl.ProductSpace(odl.rn(2), 2, **kw)', 'field', 'odl.RealNumbers()', 'odl.RealNumbers()', 'cosmetic'),
    ('odl.uniform_grid(0, 1, 3, **kw)', 'nodes_on_bdry', 'True', 'False', 'identity'),
    ('odl.uniform_partition(0, 1, 3, **kw)', 'nodes_on_bdry', 'True', 'False', 'identity'),
    ('odl.uniform_partition(0, None, 4, **kw)', 'cell_sides', '0.25', '0.5', 'identity'),
    ('odl.uniform_partition(min_pt=0, shape=4, **kw)', 'max_pt', '1.0', '2.0', 'identity'),
    ('odl.IntervalProd(0, **kw)', 'max_pt', '1.0', '2.0', 'identity'),
    ('odl.Strings(**kw)', 'length', '2', '3', 'identity'),
    ('NC(2.0, **kw)', 'exponent', '1.0', '2.0', 'identity'),
    ('PC(2.0, **kw)', 'exponent', '1.0', '2.0', 'identity'),
    ('NA(W, **kw)', 'exponent', '1.0', '2.0', 'identity'),
    ("MatrixWeighting(M, impl='numpy', **kw)", 'exponent', '1.0', '2.0', 'identity'),
    ("MatrixWeighting(M, impl='numpy', exponent=1.5, **kw)", 'cache_mat_pow', 'True', 'False', 'cosmetic'),
    ("MatrixWeighting(M, impl='numpy', exponent=1.5, **kw)", 'cache_mat_decomp', 'True', 'False', 'cosmetic'),
    ("MatrixWeighting(M, impl='numpy', exponent=1.5, **kw)", 'precomp_mat_pow', 'True', 'False', 'cosmetic'),
]


def probe_keywords(rng, tier, out):
    """Pairs of objects that differ in ONE constructor keyword: == symmetric; == implies equal hashes and
    interchangeable dict keys; == holds exactly when the keyword is not part of the object's identity."""
    for ctor, kw, a, b, role in KEYWORD_TABLE:
        rp = (_KW_HEAD + "mk = lambda **kw: %s\nx = mk(%s=%s); y = mk(%s=%s); x2 = mk(%s=%s)\n" % (ctor, kw, a, kw, b, kw, a) +
              "e = (x == y); observed = {'eq': e, 'eq_rev': (y == x), 'hash_eq': hash(x) == hash(y)}\n"
              "ok = (e == (y == x)) and (not (x != y) == e)\n"
              "if e:\n    ok = ok and hash(x) == hash(y) and {x: 1}.get(y) == 1 and len({x, y}) == 1\n"
              "ok = ok and (x == x2) == (hash(x) == hash(x2) and True) if (x == x2) else ok\n"
              "want = %r\nok = ok and (e == want)\nobserved['want_eq'] = want\n"
              % ((role == 'cosmetic') or (a == b),))
        env = {}
        try:
            exec(rp, env)
            ok = bool(env['ok'])
        except Exception as ex:
            ok = False
        cls = ctor.split('(')[0].replace('odl.', '')
        out.append(C.Probe(ok, 'keyword-%s-%s' % (cls, kw),
                           '%s: objects differing only in %s=%s / %s (%s keyword): ==, hash, dict key coherent' % (cls, kw, a, b, role), rp))


def extra_coverage():
    """Constructor keywords of the space / set / weighting classes (introspected) and which of them the
    keyword probe family varies."""
    import inspect
    C.setup_impl_path()
    import odl
    from odl.space import weighting as W, npy_tensors as NT, pspace as PS
    objs = {'NumpyTensorSpace': odl.NumpyTensorSpace, 'DiscretizedSpace': odl.DiscretizedSpace, 'ProductSpace': odl.ProductSpace,
            'uniform_discr': odl.uniform_discr, 'rn': odl.rn, 'cn': odl.cn, 'tensor_space': odl.tensor_space,
            'RectGrid': odl.RectGrid, 'uniform_grid': odl.uniform_grid, 'RectPartition': odl.RectPartition,
            'uniform_partition': odl.uniform_partition, 'IntervalProd': odl.IntervalProd, 'Strings': odl.Strings,
            'MatrixWeighting': W.MatrixWeighting, 'NumpyTensorSpaceConstWeighting': NT.NumpyTensorSpaceConstWeighting,
            'NumpyTensorSpaceArrayWeighting': NT.NumpyTensorSpaceArrayWeighting,
            'ProductSpaceConstWeighting': PS.ProductSpaceConstWeighting}
    documented_kwargs = {'NumpyTensorSpace': ['weighting', 'dist', 'norm', 'inner', 'exponent'],
                         'ProductSpace': ['field', 'weighting', 'dist', 'norm', 'inner', 'exponent'],
                         'DiscretizedSpace': ['axis_labels'],
                         'uniform_discr': ['nodes_on_bdry', 'weighting', 'exponent', 'axis_labels'],
                         'MatrixWeighting': ['precomp_mat_pow', 'cache_mat_pow', 'cache_mat_decomp'],
                         'rn': ['weighting', 'exponent', 'dist', 'norm', 'inner'], 'cn': ['weighting', 'exponent'],
                         'tensor_space': ['weighting', 'exponent']}
    varied = {}
    for ctor, kw, a, b, role in KEYWORD_TABLE:
        name = ctor.split('(')[0].replace('odl.', '')
        name = {'NC': 'NumpyTensorSpaceConstWeighting', 'NA': 'NumpyTensorSpaceArrayWeighting', 'PC': 'ProductSpaceConstWeighting'}.get(name, name)
        varied.setdefault(name, set()).add(kw)
    rep = {}
    for name, o in objs.items():
        try:
            params = [p.name for p in inspect.signature(o).parameters.values() if p.kind in (p.POSITIONAL_OR_KEYWORD, p.KEYWORD_ONLY)]
        except (TypeError, ValueError):
            params = []
        allkw = sorted(set(params + documented_kwargs.get(name, [])) - {'self'})
        rep[name] = {'keywords': allkw, 'varied_by_keyword_probes': sorted(varied.get(name, set())),
                     'not_varied_alone': sorted(set(allkw) - varied.get(name, set()))}
    return {'constructor_keywords': rep,
            'note': 'positional data (shape, min_pt, vectors, partition, tspace, spaces, constants, arrays) are varied by the '
                    'descriptor generators of the correspondence instead of the keyword family'}


def search(rng, broken):
    """Called when the translator, a proof or the correspondence broke and no probe has failed yet:
    the property oracles at thorough intensity; the first failing input that is not a listed finding."""
    known = C.load_findings(PID)
    for fam in (probe_keywords, probe_hetero_nested, probe_array_views, probe_near, probe_laws, probe_membership, probe_chains, probe_element,
                probe_derived, probe_indexing):
        out = []
        try:
            fam(C.rng_for(PID, 12345), 'thorough', out)
        except Exception:
            continue
        for p in out:
            if not p.ok and p.key not in known:
                return p
    return None


def probes(rng, tier):
    import warnings
    warnings.simplefilter('ignore')
    out = []
    probe_laws(rng, tier, out)
    probe_array_views(rng, tier, out)
    probe_near(rng, tier, out)
    probe_membership(rng, tier, out)
    probe_element(rng, tier, out)
    probe_derived(rng, tier, out)
    probe_indexing(rng, tier, out)
    probe_byaxis_in(rng, tier, out)
    probe_chains(rng, tier, out)
    probe_hetero_nested(rng, tier, out)
    probe_keywords(rng, tier, out)
    return out


LEVEL_TEXT = ('Proof: over descriptors of all constructible sets, fields, interval products, grids, partitions, weightings '
              '(const / array / matrix / custom, both class families), tensor / discretized / arbitrarily nested weighted product '
              'spaces (any depth, any list length, real coordinates incl. +-inf), Coq proves that == as transcribed from the '
              'paired __eq__ methods (three-valued: True/False/raises, with Python evaluation order) never raises and is '
              'reflexive, symmetric and transitive, that a == b implies equivalent hashed tuples (hence equal hashes) and equal '
              'hashability, and that x in S is S == x.space -- for the code with two recorded one-line repairs; for the CURRENT '
              'code the full statements are refuted by witnesses (IntervalProd of different ndim compare equal by broadcasting '
              'or raise; array weightings of two classes are equal with different hashes) and the partial statement (all '
              'interval products of one ndim) is proved. The hashed tuples are regenerated from the __hash__ sources on every '
              'run and proved to be the model keys for every object; a PrimFloat lemma over all binary64 floats justifies the '
              'grid\'s (cv + 0.0).tobytes(). element(): x in S gives x itself, otherwise exactly the input values leaf by leaf, '
              'for all nested trees. astype / real / complex counterparts / product-space indexing: shapes, partitions, dtype, '
              'real/complex-ness (regenerated odl.util tables), leaf weightings are those of the source; Python slice positions '
              'are always valid indices; pspace[slice]/pspace[int] are exactly the selected components; loss of product / '
              'integer-target weightings in the current code is refuted by witnesses. Element indexing vs arrays, byaxis '
              'theorems, element(order=, cast=False) are validated only (probes + correspondence).')
LEVEL_NOTE = ('Trusted: the semantics given to the regenerated __eq__/__hash__/__contains__ tables and the hand transcription '
              'of astype/__getitem__/element/byaxis (both tied by the in-Coq correspondence on '
              '~1300 quick / ~7700 thorough structured cases incl. raise outcomes), the fail-closed AST reader of the __hash__ '
              'tuples, descriptor build/describe in the harness; real-number idealisation of floats (NaN, signed-zero bytes out '
              'of scope; the grid hashes bytes after + 0.0). Axioms: classical reals + funext as printed (+ primitive-float '
              'specification for one lemma). 4 findings were fixed in /repo (live theorems are unconditional since), 10 remain '
              'open in findings/C20.json.')
TECHNIQUE = ('Coq proof by structural induction over a nested deep embedding of sets/spaces (three-valued equality outcome), '
             'source-regenerated hash and dtype tables, in-Coq differential correspondence with measured variant switches')
