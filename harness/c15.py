"""C15 sampling and interpolation: correspondence + probes.

Model: coq/C15/Model.v (index search, weight/edge rules, corner sum, calling
conventions, collocation).  The implementation is run on structured inputs
(every branch of _find_indices / _compute_*_weights_edge, all calling
conventions, every value dtype class) and compared inside Coq at Q.
"""
import itertools
import warnings

import numpy as np

from . import common as C
from translate import interp_weights as TW

PID = 'C15'
SHARD_SIZE = 150
RULE = ('interp (check): d in 1..3, axis lengths 1..6, uniform / non-uniform dyadic (20%: non-dyadic, no ties) ascending '
        'coordinate vectors, factory in {nearest, linear, per_axis with every scheme mix}, value dtype in {float64, '
        'float32, complex128, int64, str}, calling convention in {single point, point array, mesh grid} x {no out, '
        'out=NaN-filled, out of wrong shape, out of wrong dtype, points of wrong dimension}, evaluation coordinates '
        'drawn per axis from {node, midpoint tie, quarter point, k/16 inside, below/above within one cell, exactly one '
        'cell outside, beyond one cell}; sampling (scheck): callables generated from an expression language (consts, '
        'coordinates, + - *, step) in the flavours {vectorised, odl.util.vectorize with/without otypes, broadcasting '
        '(some coordinates only), in-place only, dual-use, constant, 1-d x-instead-of-x[0], ufunc} x {float64, float32, '
        'complex128} x entry point {space.element, wrapper on mesh with out=, on point array, with out=, point by '
        'point} on uniform (also nodes_on_bdry) and non-uniform grids with axis lengths 1..6; sampling_tensor: lists '
        'of callables/constants and tuple-valued callables through sampling_function with shaped out_dtype; resample '
        '(rcheck): Resampling(dom, ran, per-axis interp) of a sampled callable (with/without out=); deform: '
        'linear_deform with displacement fields (point-array convention). Memory layout: in >= 2 dimensions (mostly '
        'pairwise distinct axis lengths, non-symmetric data) the value array is C-ordered, Fortran-ordered, a '
        'transposed view, a strided view or a negative-stride view, and Resampling / linear_deform get elements '
        'created with order=C/F. history (scheck per step): ONE odl.util.vectorize-wrapped callable used 3-5 times '
        'in a row -- direct call at an integer point (integer result), direct call at a float point, '
        'space.element / mesh out= / point array on float64/float32 spaces, and a parametrised callable sampled '
        'with real c, then c=a+bj on a complex space, then real again -- every step compared with point-wise '
        'evaluation. Every out= array (interpolators, sampling entry points per flavour, vector-valued, histories, '
        'Resampling, linear_deform) is NaN-prefilled and C / F / transposed / strided / negative-stride. 25% of the '
        'interp cases use almost-uniform nodes (relative perturbation 1e-4, 1e-6, 1e-9) and/or grids scaled by 1e-3, '
        '1e-6, 1e-9, 1e6 with points at nodes, next to midpoints (exact ties excluded) and next to cell edges. shapes '
        '(hcheck): every factory called with np.zeros(shape) for all shapes of rank 0-2 with entries 0..4 (and some '
        'rank 3) on 1-3 dimensional grids -> scalar / result shape / ValueError. styles (scheck): 16 callable '
        'signature styles (positional, lambda, **kwargs, default argument, dual-use, in-place-only, objects with '
        '__call__, point-by-point via vectorize) x 7 entry points (space.element with kwargs, point_collocation on '
        'sparse mesh / dense mesh / point array, out-of-place and into garbage-prefilled out arrays) x return kind '
        '(scalar, broadcastable, full). Interpolators are also called on dense mesh grids. precision (scheck): '
        'float32 / complex64 / float16 spaces with grid points not representable in that dtype, step callables with '
        'thresholds at / next to a grid coordinate and its rounding. Non-trivial = values not all equal; '
        'distinct by the full input tuple.')
ASSUMPTIONS = [
    'exact arithmetic: coordinates/values are small integers or dyadic rationals so float operations are exact '
    '(non-dyadic spacings compared with tolerance 1e-12 and without tie points); rounding, overflow, NaN inputs are '
    'outside the theorems',
    'coordinate vectors are strictly ascending (guaranteed by RectGrid); np.searchsorted is modelled as the number of '
    'leading entries < x, proved equal to a lower-bound binary search on ascending vectors '
    '(binary_search_is_prefix_count)',
    'NumPy fancy indexing / broadcasting of the per-axis weight arrays is modelled as the tensor product over the mesh '
    '(validated by the correspondence on mesh inputs; proved equal to point-wise evaluation in Coq)',
    'the callable-wrapping machinery (sampling_function, _make_dual_use_func, vectorize) is Python dispatch: the '
    'model only states the values the callable denotes at the grid points (validated, not proved)',
    'complex values: real and imaginary parts are interpolated separately (justified by '
    'interpolation_linear_in_values; the code casts the weights to complex with zero imaginary part)',
]
TRUSTED = ['translate/interp_weights.py (Python ast -> Gallina, fail-closed): _compute_nearest/linear_weights_edge, the '
           'scheme dispatch, index clamping + normalised distance of _find_indices, np.where pick of '
           '_NearestInterpolator._evaluate, which evaluator each factory instantiates (per_axis all-nearest dispatch, '
           'linear scheme), the ordered out checks of _Interpolator.__call__, is_valid_input_array, '
           'out_shape_from_array and the array branch of _check_interp_input',
           'C15/Model.v hand-written part: searchsorted as prefix count, NumPy negative-index wrap, C-order flat '
           'indexing, the 2^d corner loop, calling conventions, collocation (tied by the correspondence)',
           'C15/Call.v: which calls are rejected / non-finite (tied by the correspondence, error classes as enum)',
           'harness/c15.py generation of callables from the expression language (source text + exec)']

SCH = {'nearest': 'SNearest', 'linear': 'SLinear'}


def translate():
    return {'Gen/InterpWeights.v': TW.translate()}


# ----------------------------------------------------------------- generators
def gen_cvec(rng, n, dyadic=True):
    start = rng.randint(-8, 8) * 0.25
    if rng.random() < 0.4:
        steps = [rng.choice([0.5, 1.0, 2.0, 0.25] if dyadic else [0.75, 3.0, 1.5, 0.3])] * (n - 1)
    else:
        steps = [rng.choice([0.5, 1.0, 2.0, 0.25, 4.0] if dyadic else [0.75, 3.0, 1.0, 0.3, 0.7]) for _ in range(n - 1)]
    c = [start]
    for s in steps:
        c.append(c[-1] + s)
    return c


def gen_cvec_offset(rng, n):
    """Nodes 2^20 * s + k-th partial sum of tiny dyadic cells (2^-9 .. 2^-11): exactly representable in float64,
    not in float32 (31+ significant bits)."""
    c = [rng.choice([-1.0, 1.0, 1.0]) * 2.0 ** 20 + rng.randint(0, 7) * 2.0 ** -10]
    for _ in range(n - 1):
        c.append(c[-1] + rng.choice([2.0 ** -10, 2.0 ** -9, 2.0 ** -11, 3 * 2.0 ** -11]))
    assert all(float(np.float32(v)) != v for v in c[1:]) or n == 1
    return c


def gen_coord(rng, c, ties=True):
    """One evaluation coordinate for an axis with nodes c, plus the branch it aims at.
    ties=False (non-dyadic spacings): no midpoints, because the float quotient next to the
    discontinuity of 'nearest' is a rounding question outside the exact-arithmetic model."""
    n = len(c)
    if n == 1:
        k = rng.choice(['node', 'lo', 'hi'])
        return {'node': c[0], 'lo': c[0] - 1.0, 'hi': c[0] + 0.5}[k], k
    k = rng.choice(['node', 'node', 'tie', 'quarter', 'inside', 'inside', 'lo1', 'hi1', 'lo2', 'hi2', 'edge1'])
    if k == 'tie' and not ties:
        k = 'quarter'
    j = rng.randrange(n - 1)
    h0, h1 = c[1] - c[0], c[-1] - c[-2]
    if k == 'node':
        return c[rng.randrange(n)], k
    if k == 'tie':
        return (c[j] + c[j + 1]) / 2, k
    if k == 'quarter':
        return c[j] + (c[j + 1] - c[j]) * rng.choice([0.25, 0.75]), k
    if k == 'inside':
        t = rng.randint(0, 16)
        if t == 8 and not ties:
            t = 5
        return c[j] + (c[j + 1] - c[j]) * t / 16.0, k
    if k == 'lo1':
        return c[0] - h0 * rng.choice([0.25, 0.5, 0.75]), k
    if k == 'hi1':
        return c[-1] + h1 * rng.choice([0.25, 0.5, 0.75]), k
    if k == 'edge1':   # exactly one cell outside: the end of the linear decay
        return rng.choice([c[0] - h0, c[-1] + h1]), k
    if k == 'lo2':
        return c[0] - h0 * rng.choice([1.5, 2.0, 3.25]), k
    return c[-1] + h1 * rng.choice([1.5, 2.0, 3.25]), k


NEAR_KINDS = [(1e-4, 1.0), (1e-6, 1.0), (1e-9, 1.0), (None, 1e-3), (None, 1e-6), (None, 1e-9), (None, 1e6),
              (1e-6, 1e-6), (1e-4, 1e-9), (1e-9, 1e6), (1e-6, 1e-3)]


def gen_cvec_near(rng, n, eps, scale):
    """Coordinate vectors that an implementation must NOT mistake for uniform ones: 'almost uniform' (cell
    sizes h*(1 + eps*u), u in [-1, 1], eps in 1e-4 .. 1e-9) and/or on a small / large length scale (clearly
    non-uniform cells times 1e-3 .. 1e-9 or 1e+6)."""
    start = rng.randint(-8, 8) * 0.25 * scale
    h = rng.choice([0.5, 1.0, 2.0]) * scale
    c = [start]
    for _ in range(n - 1):
        if eps is None:
            c.append(c[-1] + rng.choice([0.5, 1.0, 2.0, 0.25]) * scale)
        else:
            c.append(c[-1] + h * (1.0 + eps * rng.uniform(-1.0, 1.0)))
    assert all(a < b for a, b in zip(c, c[1:]))
    return c


def gen_coord_near(rng, c, eps):
    """Evaluation coordinate for such a vector: a node, next to a cell midpoint (offset far above float
    rounding but below the perturbation of the nodes; exact ties excluded), next to a cell edge, a generic
    interior point, or just outside."""
    n = len(c)
    if n == 1:
        return c[0], 'node'
    delta = 1e-3 if eps is None else eps / 8
    k = rng.choice(['node', 'near-mid', 'near-mid', 'near-edge', 'inside', 'lo1', 'hi1'])
    j = rng.randrange(n - 1)
    hj = c[j + 1] - c[j]
    sgn = rng.choice([-1.0, 1.0])
    if k == 'node':
        return c[rng.randrange(n)], k
    if k == 'near-mid':
        return (c[j] + c[j + 1]) / 2 + sgn * delta * hj * rng.choice([1.0, 3.0]), k
    if k == 'near-edge':
        jj = rng.randrange(n)
        return c[jj] + sgn * delta * hj, k
    if k == 'inside':
        return c[j] + hj * rng.choice([1, 2, 3, 5, 6, 7, 9, 11, 13, 15]) / 16.0, k
    if k == 'lo1':
        return c[0] - (c[1] - c[0]) * rng.choice([0.25, 0.375, 0.75]), k
    return c[-1] + (c[-1] - c[-2]) * rng.choice([0.25, 0.375, 0.75]), k


DTYPES = ['float64', 'float64', 'float64', 'float32', 'complex128', 'complex64', 'int64', 'str']
CPLX = ('complex128', 'complex64')
LOWPREC = ('float32', 'complex64')

LAYOUTS = ['C', 'F', 'transposed', 'strided', 'negstride']
LAYOUT_SRC = '''
def relayout(f, layout):
    """The same array (shape, dtype, values) with another memory layout: C order, Fortran order, a
    transposed view of a C array, a strided view (every second entry of a larger buffer) or a view with
    negative strides.  Interpolation must not depend on it."""
    import numpy as np
    f = np.asarray(f)
    if layout == 'F':
        g = np.asfortranarray(f)
    elif layout == 'transposed':
        g = np.ascontiguousarray(f.transpose()).transpose()
    elif layout == 'strided':
        big = np.zeros(tuple(2 * n for n in f.shape), dtype=f.dtype)
        g = big[tuple(slice(None, None, 2) for _ in f.shape)]
        g[...] = f
    elif layout == 'negstride':
        g = np.ascontiguousarray(f[tuple(slice(None, None, -1) for _ in f.shape)])[
            tuple(slice(None, None, -1) for _ in f.shape)]
    else:
        g = np.ascontiguousarray(f)
    assert g.shape == f.shape and g.dtype == f.dtype and bool(np.all(g == f))
    return g


def alloc_out(shape, dtype, layout):
    """A writable array for an out= argument, prefilled with NaN (or a sentinel for integer / string
    dtypes), in the given memory layout.  The result of an in-place evaluation must not depend on it."""
    import numpy as np
    dtype = np.dtype(dtype)
    fill = 'z' if dtype.kind == 'U' else (-77 if dtype.kind in 'iu' else np.nan)
    shape = tuple(shape)
    if layout == 'F':
        o = np.full(shape, fill, dtype=dtype, order='F')
    elif layout == 'transposed':
        o = np.full(shape[::-1], fill, dtype=dtype).transpose()
    elif layout == 'strided':
        o = np.full(tuple(2 * n for n in shape), fill, dtype=dtype)[tuple(slice(None, None, 2) for _ in shape)]
    elif layout == 'negstride':
        o = np.full(shape, fill, dtype=dtype)[tuple(slice(None, None, -1) for _ in shape)]
    else:
        o = np.full(shape, fill, dtype=dtype)
    assert o.shape == shape and o.flags.writeable
    return o
'''
exec(LAYOUT_SRC)


def run_interp(kind, schemes, cvs, dtype, vals_re, vals_im, conv, pts, mesh, use_out, layout='C', out_layout='C'):
    """Run the implementation; returns the Coq term of type outc and a python summary."""
    from odl.discr.discr_utils import nearest_interpolator, linear_interpolator, per_axis_interpolator
    from odl.discr.grid import sparse_meshgrid
    shape = [len(c) for c in cvs]
    d = len(cvs)
    if dtype == 'str':
        f = np.array([chr(97 + int(v)) for v in vals_re]).reshape(shape)
    elif dtype in CPLX:
        f = (np.array(vals_re) + 1j * np.array(vals_im)).reshape(shape).astype(dtype)
    else:
        f = np.array(vals_re).astype(dtype).reshape(shape)
    f = relayout(f, layout)
    cv = [np.array(c) for c in cvs]
    if kind == 'nearest':
        itp = nearest_interpolator(f, cv)
    elif kind == 'linear':
        itp = linear_interpolator(f, cv)
    else:
        itp = per_axis_interpolator(f, cv, schemes)
    if conv == 'single':
        x = pts[0][0] if d == 1 else list(pts[0])
        oshape = None
    elif conv == 'array':
        x = np.array(pts).T                     # shape (d, N)
        if d == 1 and len(pts) > 1 and use_out is None:
            x = x.ravel()                       # the (n,) form allowed in 1-d
        oshape = (len(pts),)
    elif conv == 'dense':                       # full (non-sparse) mesh grid arrays, indexing='ij'
        x = tuple(np.meshgrid(*[np.array(m, dtype=float) for m in mesh], indexing='ij', sparse=False))
        oshape = tuple(len(m) for m in mesh)
    else:
        x = sparse_meshgrid(*mesh)
        oshape = tuple(len(m) for m in mesh)
    kw = {}
    if use_out and oshape is not None:
        odt = f.dtype
        if use_out == 'badshape':
            oshape = tuple(oshape[:-1]) + (oshape[-1] + 1,)
        if use_out == 'baddtype':
            odt = np.dtype('float32') if f.dtype == np.dtype('float64') else np.dtype('float64')
        kw['out'] = alloc_out(oshape, odt, out_layout)
    with warnings.catch_warnings():
        warnings.simplefilter('ignore')
        old = np.seterr(all='ignore')
        try:
            r = itp(x, **kw)
            if kw and r is not kw['out']:
                return 'OOtherErr', 'out not returned'
        except ValueError:
            return 'OValueErr', 'ValueError'
        except TypeError:
            return 'OTypeErr', 'TypeError'
        except Exception as e:
            return 'OOtherErr', type(e).__name__
        finally:
            np.seterr(**old)
    r = np.asarray(r)
    if conv == 'single' and r.shape != ():
        return 'OOtherErr', 'single point did not give a scalar'
    if conv != 'single' and r.shape != tuple(oshape):
        return 'OOtherErr', 'shape %r' % (r.shape,)
    flat = r.ravel()
    if dtype == 'str':
        return 'OVals %s []' % C.qs([ord(s) - 97 for s in flat.tolist()]), flat.tolist()
    if dtype in CPLX:
        if not np.all(np.isfinite(flat)):
            return 'ONonFinite', 'nonfinite'
        return 'OVals %s %s' % (C.qs(flat.real.tolist()), C.qs(flat.imag.tolist())), flat.tolist()
    if not np.all(np.isfinite(flat.astype(float))):
        return 'ONonFinite', 'nonfinite'
    return 'OVals %s []' % C.qs([float(v) for v in flat.tolist()]), flat.tolist()


def case_term(kind, schemes, cvs, dtype, vre, vim, conv, pts, mesh, out, outarg=None):
    kk = {'nearest': 'KNearest', 'linear': 'KLinear', 'per_axis': 'KPerAxis'}[kind]
    dt = {'float64': 'DFloat', 'float32': 'DFloat', 'complex128': 'DFloat', 'complex64': 'DFloat', 'int64': 'DInt',
          'str': 'DStr'}[dtype]
    inp = ('IMesh %s' % C.qss(mesh)) if conv in ('mesh', 'dense') else ('IPoints %s' % C.qss(pts))
    return ('{| k_kind := %s; k_ss := %s; k_cvs := %s; k_dt := %s; k_cplx := %s; k_vre := %s; k_vim := %s; '
            'k_inp := %s; k_outarg := %s; k_out := %s |}'
            % (kk, C.lst([SCH[s] for s in schemes]), C.qss(cvs), dt, C.b(dtype in CPLX),
               C.qs(vre), C.qs(vim), inp,
               'None' if outarg is None else '(Some (%s%%nat, %s))' % (C.nats(outarg[0]), C.b(outarg[1])), out))


def interp_cases(rng, tier):
    cs = C.CaseSet('interp', ['C15.Syntax', 'C15.Model', 'C15.Call', 'C15.Corr'], 'check', 'case')
    n_cases = 700 if tier == 'quick' else 6000
    for it in range(n_cases):
        d = rng.choice([1, 1, 2, 2, 3])
        dtype = rng.choice(DTYPES)
        dyadic = dtype in ('float32', 'complex128', 'complex64') or rng.random() < 0.8
        maxn = {1: 6, 2: 5, 3: 4}[d]
        shape = [1 if rng.random() < 0.06 else rng.randint(2, maxn) for _ in range(d)]
        if d > 1 and rng.random() < 0.6:
            shape = rng.sample(range(2, maxn + 1), d)          # pairwise distinct axis lengths
        layout = 'C' if d == 1 else rng.choice(LAYOUTS)
        near = None
        offset = rng.random() < (0.5 if dtype in LOWPREC else 0.12)
        if offset:
            # large offset, tiny cells: coordinates exact in float64 but NOT in float32 (2^20 + k * 2^-10), so that a
            # cast of the evaluation points / nodes to the dtype of float32 / complex64 VALUES would be visible;
            # everything stays dyadic, i.e. exact also in the float32 result
            dyadic = True
            cvs = [gen_cvec_offset(rng, n) for n in shape]
        elif dtype not in LOWPREC and rng.random() < 0.25:
            near = rng.choice(NEAR_KINDS)              # almost-uniform and/or rescaled coordinate vectors
            dyadic = False
            cvs = [gen_cvec_near(rng, n, *near) if n > 1 else [rng.randint(-8, 8) * 0.25 * near[1]] for n in shape]
        else:
            cvs = [gen_cvec(rng, n, dyadic) for n in shape]

        def coord(c):
            return gen_coord_near(rng, c, near[0]) if near else gen_coord(rng, c, dyadic)
        kind = rng.choice(['nearest', 'linear', 'per_axis', 'per_axis'])
        if dtype in ('int64', 'str') and rng.random() < 0.4:
            kind = 'nearest'      # index-based evaluation (also per_axis with all-'nearest') is defined for these
        schemes = [rng.choice(['nearest', 'linear']) for _ in range(d)]
        if kind == 'per_axis' and (rng.random() < 0.15 or (dtype in ('int64', 'str') and rng.random() < 0.6)):
            schemes = [schemes[0] if dtype not in ('int64', 'str') else 'nearest'] * d
        size = int(np.prod(shape))
        if dtype == 'str':
            vre = [float(rng.randint(0, 25)) for _ in range(size)]
        else:
            vre = [float(rng.randint(-9, 9)) for _ in range(size)]
        vim = [float(rng.randint(-9, 9)) for _ in range(size)] if dtype in CPLX else []
        conv = rng.choice(['single', 'array', 'array', 'mesh', 'mesh', 'dense'])
        pts, mesh, branches = [], [], []
        if conv in ('mesh', 'dense'):
            for c in cvs:
                npt = rng.choice([1, 2, 2, 3, 4])
                xs = [coord(c) for _ in range(npt)]
                mesh.append([x for x, _ in xs])
                branches.append([b for _, b in xs])
        else:
            npt = 1 if conv == 'single' else rng.choice([1, 2, 3, 5])
            for _ in range(npt):
                p = [coord(c) for c in cvs]
                pts.append([x for x, _ in p])
                branches.append([b for _, b in p])
        use_out = conv != 'single' and rng.random() < 0.25
        if use_out and rng.random() < 0.12:
            use_out = rng.choice(['badshape', 'baddtype'])        # rejected calls (ValueError)
        if conv == 'array' and d > 1 and rng.random() < 0.03:
            pts = [p + [0.0] for p in pts]                        # points of the wrong dimension
        outarg = None
        if use_out:
            osh = [len(m) for m in mesh] if conv in ('mesh', 'dense') else [len(pts)]
            if use_out == 'badshape':
                osh = osh[:-1] + [osh[-1] + 1]
            outarg = (osh, use_out != 'baddtype')
        out_layout = rng.choice(LAYOUTS) if use_out else 'C'
        out, summ = run_interp(kind, schemes, cvs, dtype, vre, vim, conv, pts, mesh, use_out, layout, out_layout)
        term = case_term(kind, schemes, cvs, dtype, vre, vim, conv, pts, mesh, out, outarg)
        desc = {'kind': kind, 'schemes': schemes, 'cvs': cvs, 'dtype': dtype, 'values': vre, 'imag': vim,
                'layout': layout, 'out_layout': out_layout, 'near_uniform_eps_scale': near, 'offset_grid': offset,
                'conv': conv, 'points': pts, 'mesh': mesh, 'out_arg': use_out, 'branches': branches,
                'impl': summ if isinstance(summ, str) else 'values'}
        key = (kind, tuple(schemes), str(cvs), dtype, tuple(vre), tuple(vim), conv, str(pts), str(mesh), use_out, layout, out_layout)
        cs.add(term, desc, key if len(set(vre)) > 1 else None)
    return cs


# ------------------------------------------------------------------ callables
class Ex(object):
    """Expression language shared with Coq (C15.Model.fexpr)."""

    def __init__(self, op, *a):
        self.op, self.a = op, a

    def coq(self):
        o, a = self.op, self.a
        if o == 'const':
            return '(FConst %s)' % C.q(a[0])
        if o == 'coord':
            return '(FCoord %d)' % a[0]
        if o in ('add', 'sub', 'mul'):
            return '(%s %s %s)' % ({'add': 'FAdd', 'sub': 'FSub', 'mul': 'FMul'}[o], a[0].coq(), a[1].coq())
        return '(FStep %d %s %s %s)' % (a[0], C.q(a[1]), a[2].coq(), a[3].coq())

    def src(self, vec, xname='x', one_d_plain=False):
        """Python source; vec=True: NumPy-vectorised form, else scalar form (for np.vectorize)."""
        o, a = self.op, self.a
        if o == 'const':
            return repr(float(a[0]))
        if o == 'coord':
            return xname if one_d_plain else '%s[%d]' % (xname, a[0])
        if o in ('add', 'sub', 'mul'):
            return '(%s %s %s)' % (a[0].src(vec, xname, one_d_plain), {'add': '+', 'sub': '-', 'mul': '*'}[o],
                                   a[1].src(vec, xname, one_d_plain))
        xk = xname if one_d_plain else '%s[%d]' % (xname, a[0])
        if vec:
            return 'np.where(%s < %r, %s, %s)' % (xk, float(a[1]), a[2].src(vec, xname, one_d_plain),
                                                  a[3].src(vec, xname, one_d_plain))
        return '(%s if %s < %r else %s)' % (a[2].src(vec, xname, one_d_plain), xk, float(a[1]),
                                            a[3].src(vec, xname, one_d_plain))

    def coords(self):
        o, a = self.op, self.a
        if o == 'const':
            return set()
        if o == 'coord':
            return {a[0]}
        if o in ('add', 'sub', 'mul'):
            return a[0].coords() | a[1].coords()
        return {a[0]} | a[2].coords() | a[3].coords()

    def ev(self, x):
        o, a = self.op, self.a
        if o == 'const':
            return float(a[0])
        if o == 'coord':
            return x[a[0]]
        if o == 'add':
            return a[0].ev(x) + a[1].ev(x)
        if o == 'sub':
            return a[0].ev(x) - a[1].ev(x)
        if o == 'mul':
            return a[0].ev(x) * a[1].ev(x)
        return a[2].ev(x) if x[a[0]] < a[1] else a[3].ev(x)


def gen_ex(rng, d, depth, coords=None):
    coords = list(range(d)) if coords is None else coords
    if depth == 0 or rng.random() < 0.25:
        if coords and rng.random() < 0.7:
            return Ex('coord', rng.choice(coords))
        return Ex('const', rng.randint(-6, 6) * 0.5)
    op = rng.choice(['add', 'sub', 'mul', 'add', 'step'])
    if op == 'step' and coords:
        return Ex('step', rng.choice(coords), rng.randint(-4, 8) * 0.5, gen_ex(rng, d, depth - 1, coords),
                  gen_ex(rng, d, depth - 1, coords))
    if op == 'step':
        op = 'add'
    return Ex(op, gen_ex(rng, d, depth - 1, coords), gen_ex(rng, d, depth - 1, coords))


FLAVOURS = ['vec', 'vectorize', 'vectorize_otypes', 'broadcast', 'inplace', 'dual', 'const', 'plain1d', 'ufunc',
            'loop1d']


def make_callable_src(flavour, ex_re, ex_im, cplx, d):
    """Source text defining `f`, the callable handed to space.element."""
    def both(vec, one=False):
        s = ex_re.src(vec, 'x', one)
        if cplx:
            s = '(%s + 1j * %s)' % (s, ex_im.src(vec, 'x', one))
        return s
    if flavour in ('vec', 'broadcast', 'const'):
        return 'import numpy as np\nf = lambda x: %s\n' % both(True)
    if flavour == 'plain1d':
        return 'import numpy as np\nf = lambda x: %s\n' % both(True, True)
    if flavour == 'vectorize':
        return ('import numpy as np, odl\n@odl.util.vectorize\ndef f(x):\n    return %s\n' % both(False))
    if flavour == 'vectorize_otypes':
        return ('import numpy as np, odl\n@odl.util.vectorize(otypes=[%r])\ndef f(x):\n    return %s\n'
                % ('complex128' if cplx else 'float64', both(False)))
    if flavour == 'inplace':
        return 'import numpy as np\ndef f(x, out):\n    out[:] = %s\n' % both(True)
    if flavour == 'dual':
        return ('import numpy as np\ndef f(x, out=None):\n    r = %s\n    if out is None:\n        return r\n'
                '    out[:] = r\n' % both(True))
    if flavour == 'ufunc':
        return 'import numpy as np\nf = np.negative\n'
    if flavour == 'loop1d':
        # a 1-d function written as a Python loop over the points: raises TypeError on the (1, n)
        # array the wrapper passes first, and is retried with x[0] (dual_use_func, 1-d only)
        s = ex_re.src(False, 't', True)
        if cplx:
            s = '(%s + 1j * %s)' % (s, ex_im.src(False, 't', True))
        return 'import numpy as np\nf = lambda x: np.array([(lambda t: %s)(float(t)) for t in x])\n' % s
    raise ValueError(flavour)


def make_space(rng, d, dtype, uniform=None):
    import odl
    uniform = rng.random() < 0.6 if uniform is None else uniform
    maxn = {1: 6, 2: 4, 3: 3}[d]
    shape = [rng.randint(1, maxn) for _ in range(d)]
    if uniform:
        lo = [rng.randint(-4, 4) * 0.5 for _ in range(d)]
        side = [rng.choice([0.5, 1.0, 2.0, 0.25]) for _ in range(d)]
        hi = [l + s * n for l, s, n in zip(lo, side, shape)]
        nob = rng.random() < 0.25 and all(n in (2, 3, 5) for n in shape)   # (n-1) a power of two: dyadic nodes
        sp = odl.uniform_discr(lo, hi, shape, dtype=dtype, nodes_on_bdry=nob)
        src = 'space = odl.uniform_discr(%r, %r, %r, dtype=%r, nodes_on_bdry=%r)\n' % (lo, hi, shape, dtype, nob)
    else:
        cvs = [gen_cvec(rng, n) for n in shape]
        part = odl.nonuniform_partition(*cvs)
        sp = odl.DiscretizedSpace(part, odl.tensor_space(part.shape, dtype=dtype))
        src = ('part = odl.nonuniform_partition(*%r)\nspace = odl.DiscretizedSpace(part, '
               'odl.tensor_space(part.shape, dtype=%r))\n' % (cvs, dtype))
    return sp, src


MODES = ['element', 'mesh-out', 'array', 'array-out', 'points', 'element-F', 'element-C']
SAMPLE_SRC = LAYOUT_SRC + '''
def sample(space, f, mode, out_layout='C'):
    """The values of callable f on the grid of `space`, obtained through one entry point of the
    sampling machinery: space.element (out-of-place on the mesh) or the wrapper returned by
    sampling_function called on the mesh with out=, on the point array (d, N) with/without out=,
    or point by point."""
    import numpy as np
    from odl.discr.discr_utils import sampling_function, point_collocation
    if mode == 'element':
        return space.element(f).asarray()
    if mode in ('element-C', 'element-F'):
        return np.ascontiguousarray(space.element(f, order=mode[-1]).asarray())
    func = sampling_function(f, space.domain, out_dtype=space.dtype)
    if mode == 'mesh-out':
        out = alloc_out(space.shape, space.dtype, out_layout)
        r = point_collocation(func, space.meshgrid, out=out)
        assert r is out
        return out
    pts = space.points()
    if mode == 'array':
        return np.asarray(func(pts.T)).reshape(space.shape)
    if mode == 'array-out':
        out = alloc_out((len(pts),), space.dtype, out_layout)
        func(pts.T, out=out)
        return np.array(out).reshape(space.shape)
    vals = [func(p[0] if space.ndim == 1 else p) for p in pts]
    assert all(isinstance(v, (float, complex)) for v in vals)
    return np.array(vals).reshape(space.shape).astype(space.dtype)
'''
exec(SAMPLE_SRC)


def _finite_or_empty(arr):
    """Non-finite outputs (e.g. an out= array that kept its NaN prefill) have no rational literal: report
    them as a failing case (empty output list) instead of crashing the harness."""
    a = np.asarray(arr)
    if a.dtype.kind in 'fc' and not np.all(np.isfinite(a)):
        return np.zeros(0, dtype=a.dtype), 'non-finite output (NaN prefill of out= survived?)'
    return a, None


def sampling_cases(rng, tier):
    cs = C.CaseSet('sampling', ['C15.Syntax', 'C15.Model', 'C15.Call', 'C15.Corr'], 'scheck', 'scase')
    n_cases = 360 if tier == 'quick' else 2400
    for it in range(n_cases):
        d = rng.choice([1, 1, 2, 2, 3])
        dtype = rng.choice(['float64', 'float64', 'float32', 'complex128'])
        cplx = dtype == 'complex128'
        flavour = FLAVOURS[it % len(FLAVOURS)]
        if flavour in ('plain1d', 'ufunc', 'loop1d'):
            d = 1
        if flavour == 'ufunc':
            cplx, dtype = False, rng.choice(['float64', 'float32'])
        sp, spsrc = make_space(rng, d, dtype)
        coords = None
        if flavour == 'broadcast':
            k = rng.randint(0, max(0, d - 1))
            coords = rng.sample(range(d), k)
        if flavour == 'const':
            coords = []
        if flavour == 'ufunc':
            ex_re, ex_im = Ex('sub', Ex('const', 0.0), Ex('coord', 0)), Ex('const', 0.0)
        else:
            ex_re = gen_ex(rng, d, rng.choice([0, 1, 2, 3]), coords)
            ex_im = gen_ex(rng, d, rng.choice([0, 1, 2]), coords) if cplx else Ex('const', 0.0)
        if flavour in ('vec', 'plain1d', 'inplace', 'dual') and not (ex_re.coords() | ex_im.coords()):
            # a natively vectorised function that mentions no coordinate returns a constant
            pass
        src = make_callable_src(flavour, ex_re, ex_im, cplx, d)
        env = {}
        exec(src, env)
        mode = MODES[(it // len(FLAVOURS)) % len(MODES)]
        if flavour == 'ufunc' and mode.endswith('-out'):
            mode = 'array'       # recorded finding sampling-1d-ufunc-inplace-valueerror, probed separately
        out_layout = rng.choice(LAYOUTS) if mode.endswith('-out') else 'C'
        err = None
        with warnings.catch_warnings():
            warnings.simplefilter('ignore')
            try:
                arr = sample(sp, env['f'], mode, out_layout)
            except Exception as e:      # an exception is a failing case (empty output), not a harness crash
                arr, err = np.zeros(0, dtype=dtype), '%s: %s' % (type(e).__name__, str(e)[:200])
        cvs = [c.tolist() for c in sp.grid.coord_vectors]
        arr, err2 = _finite_or_empty(arr)
        err = err or err2
        flat = np.asarray(arr).ravel()
        term = ('{| s_cvs := %s; s_re := %s; s_im := %s; s_cplx := %s; s_out_re := %s; s_out_im := %s |}'
                % (C.qss(cvs), ex_re.coq(), ex_im.coq(), C.b(cplx),
                   C.qs([float(v) for v in flat.real.tolist()]),
                   C.qs([float(v) for v in flat.imag.tolist()]) if cplx else '[]'))
        desc = {'family': 'sampling', 'flavour': flavour, 'mode': mode, 'out_layout': out_layout, 'dtype': dtype,
                'space': spsrc,
                'callable': src, 'shape': list(sp.shape), 'error': err, 'd': d,
                'scalar_expr': ex_re.src(False, 'p') + ((' + 1j * (%s)' % ex_im.src(False, 'p')) if cplx else '')}
        nontriv = len(set(flat.tolist())) > 1
        cs.add(term, desc, (flavour, mode, out_layout, dtype, spsrc, src) if nontriv else None)
    return cs


TENSOR_SRC = LAYOUT_SRC + '''
def sample_tensor(space, fs, k, mode, inplace, shaped, out_layout='C'):
    """Values of a vector-valued callable / a list of callables and constants on the grid of
    `space`, through sampling_function(..., out_dtype=(float, (k,))): result shape (k,) + grid."""
    import numpy as np
    from odl.discr.discr_utils import sampling_function, point_collocation
    func = sampling_function(fs, space.domain, out_dtype=(float, (k,)) if shaped else None)
    x = space.meshgrid if mode == 'mesh' else space.points().T
    shp = (k,) + (space.shape if mode == 'mesh' else (space.size,))
    if inplace:
        out = alloc_out(shp, float, out_layout)
        r = point_collocation(func, x, out=out)
        assert r is out
    else:
        out = np.asarray(point_collocation(func, x))
    assert out.shape == shp, (out.shape, shp)
    return out.reshape((k,) + space.shape)
'''
exec(TENSOR_SRC)


def tensor_src(rng, comps, form):
    """Python source defining `fs`: a list of callables/constants (form 'list') or one callable
    returning a tuple (form 'tuple')."""
    if form == 'tuple':
        return 'import numpy as np\nfs = lambda x: (%s,)\n' % ', '.join(e.src(True) for e in comps)
    lines, names = ['import numpy as np'], []
    for i, e in enumerate(comps):
        if e.op == 'const' and rng.random() < 0.7:
            names.append(repr(float(e.a[0])))                    # a constant entry
            continue
        fl = rng.choice(['vec', 'inplace', 'dual'])
        if fl == 'vec':
            lines.append('g%d = lambda x: %s' % (i, e.src(True)))
        elif fl == 'inplace':
            lines.append('def g%d(x, out):\n    out[:] = %s' % (i, e.src(True)))
        else:
            lines.append('def g%d(x, out=None):\n    r = %s\n    if out is None:\n        return r\n    out[:] = r'
                         % (i, e.src(True)))
        names.append('g%d' % i)
    lines.append('fs = [%s]' % ', '.join(names))
    return '\n'.join(lines) + '\n'


def tensor_sampling_cases(rng, tier):
    cs = C.CaseSet('sampling_tensor', ['C15.Syntax', 'C15.Model', 'C15.Call', 'C15.Corr'], 'scheck', 'scase')
    n_cases = 60 if tier == 'quick' else 500
    for it in range(n_cases):
        d = rng.choice([1, 2, 2, 3])
        sp, spsrc = make_space(rng, d, 'float64')
        k = rng.randint(1, 3)
        form = 'list' if it % 2 == 0 else 'tuple'
        comps = [gen_ex(rng, d, rng.choice([0, 1, 2]), rng.sample(range(d), rng.randint(0, d)) if rng.random() < 0.4 else None)
                 for _ in range(k)]
        def bshape(e):
            return tuple(n if kk in e.coords() else 1 for kk, n in enumerate(sp.shape))
        if form == 'tuple' and len(set(bshape(e) for e in comps)) == 1 and bshape(comps[0]) != tuple(sp.shape):
            # all components would have the same partial shape: recorded finding
            # sampling-tensor-equal-partial-shapes-valueerror (probed separately); make one component full
            full = Ex('coord', 0)
            for kk in range(1, d):
                full = Ex('add', full, Ex('coord', kk))
            comps[0] = Ex('add', comps[0], Ex('mul', Ex('const', 0.0), full))
        mode = rng.choice(['mesh', 'array'])
        inplace = rng.random() < 0.5
        shaped = form == 'tuple' or rng.random() < 0.5
        src = tensor_src(rng, comps, form)
        out_layout = rng.choice(LAYOUTS) if inplace else 'C'
        env = {}
        exec(src, env)
        err = None
        with warnings.catch_warnings():
            warnings.simplefilter('ignore')
            try:
                arr = sample_tensor(sp, env['fs'], k, mode, inplace, shaped, out_layout)
            except Exception as e:
                arr, err = None, '%s: %s' % (type(e).__name__, str(e)[:200])
        cvs = [c.tolist() for c in sp.grid.coord_vectors]
        for j, e in enumerate(comps):
            flat = np.zeros(0) if arr is None else _finite_or_empty(arr[j])[0].ravel()
            term = ('{| s_cvs := %s; s_re := %s; s_im := FConst 0; s_cplx := false; s_out_re := %s; s_out_im := [] |}'
                    % (C.qss(cvs), e.coq(), C.qs([float(v) for v in flat.tolist()])))
            desc = {'family': 'tensor', 'form': form, 'mode': mode, 'inplace': inplace, 'out_layout': out_layout,
                    'shaped': shaped, 'k': k,
                    'component': j, 'space': spsrc, 'callable': src, 'error': err,
                    'scalar_exprs': [c.src(False, 'p') for c in comps]}
            cs.add(term, desc, (form, mode, inplace, shaped, spsrc, src, j) if len(set(flat.tolist())) > 1 else None)
    return cs


# ---- call histories on ONE wrapped callable (state kept by the vectorisation wrapper)
def gen_ex_int(rng, d, depth):
    """Integer-valued on integer points: coordinates, integer constants, + - *, step."""
    if depth == 0 or rng.random() < 0.25:
        if rng.random() < 0.75:
            return Ex('coord', rng.randrange(d))
        return Ex('const', float(rng.randint(-3, 3)))
    op = rng.choice(['add', 'sub', 'mul', 'add', 'step'])
    if op == 'step':
        return Ex('step', rng.randrange(d), rng.randint(-2, 6) * 0.5, gen_ex_int(rng, d, depth - 1),
                  gen_ex_int(rng, d, depth - 1))
    return Ex(op, gen_ex_int(rng, d, depth - 1), gen_ex_int(rng, d, depth - 1))


def int_src(ex, xname='x'):
    """Scalar Python source with integral constants written as int literals (so that the callable returns
    a Python int at integer points and a float elsewhere)."""
    import re
    return re.sub(r'(?<![\w.])(-?\d+)\.0(?![\d])', r'\1', ex.src(False, xname))


HISTORY_SRC = LAYOUT_SRC + '''
def run_history(f, steps):
    """Evaluate ONE callable f through a sequence of calls; returns the list of results (flat complex lists).
    steps: ('point', coords) direct call of f at one point | ('sample', space, mode, kwargs) sampling on a space."""
    import numpy as np
    res = []
    for st in steps:
        if st[0] == 'point':
            p = st[1]
            r = f(p[0] if len(p) == 1 else list(p), **st[2])
            res.append([complex(v) for v in np.asarray(r).ravel()])
        else:
            _, space, mode, kw = st
            if mode == 'element':
                a = space.element(f, **kw).asarray()
            else:
                from odl.discr.discr_utils import sampling_function, point_collocation
                func = sampling_function(f, space.domain, out_dtype=space.dtype)
                if mode == 'mesh-out':
                    a = alloc_out(space.shape, space.dtype, 'F' if len(res) % 2 else 'strided')
                    point_collocation(func, space.meshgrid, out=a, **kw)
                else:
                    a = np.asarray(func(space.points().T, **kw)).reshape(space.shape)
            res.append([complex(v) for v in np.asarray(a).ravel()])
    return res
'''
exec(HISTORY_SRC)


def gen_history(rng, d):
    """Source text defining the wrapped callable `f`, the spaces and `steps`; plus, per step, the data the
    Coq check needs (grid, expressions for real and imaginary part)."""
    variant = rng.choice(['int-first', 'int-first', 'param'])
    lines = ['import numpy as np, odl, warnings', 'warnings.simplefilter("ignore")']
    coq = []                                  # (cvs, ex_re, ex_im, cplx)
    zero = Ex('const', 0.0)
    if variant == 'int-first':
        ex = gen_ex_int(rng, d, rng.choice([1, 2, 3]))
        if not ex.coords():
            ex = Ex('add', ex, Ex('coord', 0))
        # `x[0] * 0 +` makes the result an int at integer points and a float at every float point, so that no
        # single call mixes int and float results (that case is the recorded finding
        # vectorize-int-first-result-truncates, a property of np.vectorize's dtype inference, probed separately)
        lines.append('@odl.util.vectorize\ndef f(x):\n    return x[0] * 0 + (%s)' % int_src(ex))
        steps = []
        nspace = 0
        plan = ['point-int'] + [rng.choice(['sample', 'sample', 'point-float', 'point-int'])
                                for _ in range(rng.randint(1, 3))] + ['sample']
        if rng.random() < 0.3:
            plan = ['sample', 'point-int', 'sample']          # float first, then an integer point, then float again
        for what in plan:
            if what.startswith('point'):
                p = [float(rng.randint(0, 3)) for _ in range(d)] if what == 'point-int' else \
                    [rng.randint(0, 12) * 0.25 + 0.125 for _ in range(d)]
                arg = [int(v) for v in p] if what == 'point-int' else p
                steps.append("('point', %r, {})" % (arg,))
                coq.append(([[v] for v in p], ex, zero, False))
            else:
                dtype = rng.choice(['float64', 'float64', 'float32'])
                sp, spsrc = make_space(rng, d, dtype)
                name = 'space%d' % nspace
                nspace += 1
                lines.append(spsrc.replace('space = ', '%s = ' % name).replace('space.', '%s.' % name))
                steps.append("('sample', %s, %r, {})" % (name, rng.choice(['element', 'element', 'mesh-out', 'array'])))
                coq.append(([c.tolist() for c in sp.grid.coord_vectors], ex, zero, False))
    else:
        ex = gen_ex(rng, d, rng.choice([1, 2]), None)
        if not ex.coords():
            ex = Ex('add', ex, Ex('coord', 0))
        lines.append('@odl.util.vectorize\ndef f(x, c=1.0):\n    return (%s) * c' % ex.src(False))
        steps = []
        plan = ['real', 'complex', 'real'] if rng.random() < 0.6 else ['complex', 'real', 'complex']
        for i, what in enumerate(plan):
            dtype = 'complex128' if what == 'complex' else rng.choice(['float64', 'float32'])
            sp, spsrc = make_space(rng, d, dtype)
            name = 'space%d' % i
            lines.append(spsrc.replace('space = ', '%s = ' % name).replace('space.', '%s.' % name))
            if what == 'complex':
                a, b = float(rng.randint(-2, 2)), float(rng.choice([-2, -1, 1, 2]))
                kw = '{"c": complex(%r, %r)}' % (a, b)
            else:
                a, b = rng.choice([1.0, 2.0, 0.5, -1.0]), 0.0
                kw = '{}' if a == 1.0 else '{"c": %r}' % a
            steps.append("('sample', %s, %r, %s)" % (name, rng.choice(['element', 'element', 'mesh-out', 'array']), kw))
            coq.append(([c.tolist() for c in sp.grid.coord_vectors], Ex('mul', ex, Ex('const', a)),
                        Ex('mul', ex, Ex('const', b)), what == 'complex'))
    lines.append('steps = [%s]' % ', '.join(steps))
    return variant, '\n'.join(lines) + '\n', coq


def history_cases(rng, tier):
    """The same wrapped callable used several times: every result must be the callable's values, whatever
    was evaluated before (one scase per step)."""
    cs = C.CaseSet('history', ['C15.Syntax', 'C15.Model', 'C15.Call', 'C15.Corr'], 'scheck', 'scase')
    n_hist = 40 if tier == 'quick' else 300
    for it in range(n_hist):
        d = rng.choice([1, 2, 2, 3])
        variant, src, coq = gen_history(rng, d)
        env = {}
        err = None
        with warnings.catch_warnings():
            warnings.simplefilter('ignore')
            try:
                exec(src, env)
                results = run_history(env['f'], env['steps'])
            except Exception as e:
                results, err = [[] for _ in coq], '%s: %s' % (type(e).__name__, str(e)[:200])
        for k, ((cvs, ex_re, ex_im, cplx), vals) in enumerate(zip(coq, results)):
            vals = [] if any(v != v or abs(v) == float('inf') for v in vals) else vals
            term = ('{| s_cvs := %s; s_re := %s; s_im := %s; s_cplx := %s; s_out_re := %s; s_out_im := %s |}'
                    % (C.qss(cvs), ex_re.coq(), ex_im.coq(), C.b(cplx), C.qs([v.real for v in vals]),
                       C.qs([v.imag for v in vals]) if cplx else '[]'))
            desc = {'family': 'history', 'variant': variant, 'step': k, 'source': src, 'error': err,
                    'scalar_re': ex_re.src(False, 'p'), 'scalar_im': ex_im.src(False, 'p'),
                    'replay': _history_snippet(src, coq) if k == 0 else None, 'first': len(cs.cases) - k}
            cs.add(term, desc, ('history', src, k) if len(set(vals)) > 1 or len(vals) == 1 else None)
    return cs


def _history_snippet(src, coq):
    """Self-contained replay: run the history, compare every step with a plain Python loop over the points."""
    exp = []
    for cvs, ex_re, ex_im, cplx in coq:
        exp.append('[complex(%s, %s) for p in itertools.product(*%r)]'
                   % (ex_re.src(False, 'p'), ex_im.src(False, 'p') if cplx else '0.0', cvs))
    return ('import itertools\n' + HISTORY_SRC + src + 'observed = run_history(f, steps)\n'
            'expected = [%s]\n' % ',\n            '.join(exp) +
            'ok = len(observed) == len(expected) and all(len(a) == len(b) and all(abs(u - v) <= 1e-6 * (1 + abs(v)) '
            'for u, v in zip(a, b)) for a, b in zip(observed, expected))\n')


def resample_cases(rng, tier):
    """Resampling(domain, range, interp)(domain.element(callable)) and linear_deform."""
    import odl
    cs = C.CaseSet('resample', ['C15.Syntax', 'C15.Model', 'C15.Call', 'C15.Corr'], 'rcheck', 'rcase')
    cs2 = C.CaseSet('deform', ['C15.Syntax', 'C15.Model', 'C15.Call', 'C15.Corr'], 'check', 'case')
    n_cases = 120 if tier == 'quick' else 800
    for it in range(n_cases):
        d = rng.choice([1, 2, 2, 3])
        maxn = {1: 6, 2: 5, 3: 4}[d]
        shape = [rng.randint(2, maxn) for _ in range(d)]
        if d > 1 and rng.random() < 0.7:
            shape = rng.sample(range(2, maxn + 1), d)          # pairwise distinct axis lengths
        order = rng.choice([None, 'C', 'F', 'F']) if d > 1 else None     # memory layout of the element
        def oddpart(m):
            while m % 2 == 0:
                m //= 2
            return m
        # range shapes whose nodes are dyadic (odd part of m divides n), so that every float operation is exact
        shape2 = [rng.choice([m for m in range(1, 2 * maxn + 3)
                              if shape[k] % oddpart(m) == 0]) for k in range(d)]
        lo = [rng.randint(-4, 4) * 0.5 for _ in range(d)]
        side = [rng.choice([0.5, 1.0, 2.0]) for _ in range(d)]
        hi = [l + s * n for l, s, n in zip(lo, side, shape)]
        dom = odl.uniform_discr(lo, hi, shape)
        # range: same domain, cell sides dyadic when shape2 is a power of two times shape; else tolerance applies
        ran = odl.uniform_discr(lo, hi, shape2)
        schemes = [rng.choice(['nearest', 'linear']) for _ in range(d)]
        interp = schemes if rng.random() < 0.7 else schemes[0]
        if not isinstance(interp, list):
            schemes = [interp] * d
        ex = gen_ex(rng, d, rng.choice([1, 2, 3]))
        env = {}
        exec(make_callable_src('vec', ex, None, False, d), env)
        use_out = rng.random() < 0.3
        try:
            x = dom.element(env['f'], order=order)
            op = odl.Resampling(dom, ran, interp)
            if use_out:
                y = ran.element(np.full(shape2, np.nan), order=rng.choice([None, 'C', 'F']) if d > 1 else None)
                r_ = op(x, out=y)
                assert r_ is y
            else:
                y = op(x)
        except Exception:           # an exception is a failing case (empty output), not a harness crash
            y = np.zeros(0)
        cvs = [c.tolist() for c in dom.grid.coord_vectors]
        mesh = [c.tolist() for c in ran.grid.coord_vectors]
        term = ('{| r_cvs := %s; r_f := %s; r_ss := %s; r_mesh := %s; r_out := %s |}'
                % (C.qss(cvs), ex.coq(), C.lst([SCH[s] for s in schemes]), C.qss(mesh),
                   C.qs(_finite_or_empty(np.asarray(y))[0].ravel().tolist())))
        cs.add(term, {'op': 'Resampling', 'domain': [lo, hi, shape], 'range_shape': shape2, 'interp': interp,
                      'callable': ex.src(True), 'out_arg': use_out, 'schemes': schemes, 'family': 'resample',
                      'order': order},
               ('res', str(lo), str(hi), tuple(shape), tuple(shape2), str(interp), ex.src(True), order))
        # linear_deform: template values at points + displacement (point-array convention)
        from odl.deform import linear_deform
        vals = [float(rng.randint(-9, 9)) for _ in range(int(np.prod(shape)))]
        templ = dom.element(np.array(vals).reshape(shape), order=order)
        disp = [np.array([rng.choice([0.0, 0.0, 0.25, -0.25, 0.5, -0.5, 1.0, -1.5, 2.0]) * side[k]
                          for _ in range(int(np.prod(shape)))]).reshape(shape) for k in range(d)]
        dfield = dom.tangent_bundle.element(disp)
        use_out2 = rng.random() < 0.3
        try:
            if use_out2:
                o = alloc_out((int(np.prod(shape)),), float, rng.choice(['C', 'strided', 'negstride']))
                r = linear_deform(templ, dfield, interp=interp, out=o)
            else:
                r = linear_deform(templ, dfield, interp=interp)
        except Exception:
            r = np.zeros(0)
        pts = (dom.points() + np.stack([dk.ravel() for dk in disp], axis=1)).tolist()
        out = 'OVals %s []' % C.qs(_finite_or_empty(np.asarray(r))[0].ravel().tolist())
        term2 = case_term('per_axis', schemes, cvs, 'float64', vals, [], 'array', pts, [], out)
        cs2.add(term2, {'op': 'linear_deform', 'domain': [lo, hi, shape], 'interp': interp, 'values': vals,
                        'out_arg': use_out2, 'kind': 'per_axis', 'schemes': schemes, 'cvs': cvs, 'dtype': 'float64',
                        'imag': [], 'conv': 'array', 'points': pts, 'mesh': [], 'via_deform': True, 'order': order,
                        'displacement': [dk.ravel().tolist() for dk in disp]},
                ('deform', str(lo), str(hi), tuple(shape), str(interp), tuple(vals), str(pts), order))
    return [cs, cs2]


# ---- callable STYLES x call MODES (signature classification in sampling_function / _check_func_out_arg)
STYLES = ['pos', 'lam', 'kwargs', 'default', 'lam-default', 'dual', 'inplace', 'inplace-default', 'dual-kwargs',
          'dual-default', 'obj', 'obj-out', 'obj-kwargs', 'vec-pos', 'vec-default', 'vec-kwargs']
STYLE_MODES = ['element', 'mesh', 'mesh-out', 'dense', 'dense-out', 'points', 'points-out']
TAKES_C = {'kwargs', 'default', 'lam-default', 'inplace-default', 'dual-kwargs', 'dual-default', 'obj-kwargs',
           'vec-default', 'vec-kwargs'}


def style_src(style, ex, d):
    """Source defining `f`, a callable of the given signature style computing ex(x) [* c]."""
    v, sc = ex.src(True), ex.src(False)
    hdr = 'import numpy as np, odl\n'
    if style == 'pos':
        return hdr + 'def f(x):\n    return %s\n' % v
    if style == 'lam':
        return hdr + 'f = lambda x: %s\n' % v
    if style == 'kwargs':          # the style documented in DiscretizedSpace.element
        return hdr + 'def f(x, **kwargs):\n    c = kwargs.pop("c", 1.0)\n    return (%s) * c\n' % v
    if style == 'default':
        return hdr + 'def f(x, c=1.0):\n    return (%s) * c\n' % v
    if style == 'lam-default':
        return hdr + 'f = lambda x, c=1.0: (%s) * c\n' % v
    if style == 'dual':
        return hdr + ('def f(x, out=None):\n    r = %s\n    if out is None:\n        return r\n    out[:] = r\n' % v)
    if style == 'inplace':
        return hdr + 'def f(x, out):\n    out[:] = %s\n' % v
    if style == 'inplace-default':
        return hdr + 'def f(x, out, c=1.0):\n    out[:] = (%s) * c\n' % v
    if style == 'dual-kwargs':
        return hdr + ('def f(x, out=None, **kwargs):\n    r = (%s) * kwargs.pop("c", 1.0)\n    if out is None:\n'
                      '        return r\n    out[:] = r\n' % v)
    if style == 'dual-default':
        return hdr + ('def f(x, out=None, c=1.0):\n    r = (%s) * c\n    if out is None:\n        return r\n'
                      '    out[:] = r\n' % v)
    if style == 'obj':
        return hdr + 'class F(object):\n    def __call__(self, x):\n        return %s\nf = F()\n' % v
    if style == 'obj-out':
        return hdr + ('class F(object):\n    def __call__(self, x, out=None):\n        r = %s\n        if out is None:\n'
                      '            return r\n        out[:] = r\nf = F()\n' % v)
    if style == 'obj-kwargs':
        return hdr + ('class F(object):\n    def __call__(self, x, **kwargs):\n        return (%s) * kwargs.pop("c", 1.0)\n'
                      'f = F()\n' % v)
    if style == 'vec-pos':         # not vectorised: evaluated point by point through the decorator
        return hdr + '@odl.util.vectorize\ndef f(x):\n    return float(%s)\n' % sc
    if style == 'vec-default':
        return hdr + '@odl.util.vectorize\ndef f(x, c=1.0):\n    return float(%s) * c\n' % sc
    if style == 'vec-kwargs':
        return hdr + '@odl.util.vectorize\ndef f(x, **kwargs):\n    return float(%s) * kwargs.get("c", 1.0)\n' % sc
    raise ValueError(style)


STYLE_SRC = LAYOUT_SRC + '''
def sample_style(space, f, mode, kw, out_layout):
    """Values of f on the grid of `space` through one entry point: space.element(f, **kw), or
    point_collocation(sampling_function(f, ...), X[, out=garbage], **kw) with X the sparse mesh, the DENSE
    mesh (np.meshgrid(indexing='ij', sparse=False)) or the point array (d, N)."""
    import numpy as np
    from odl.discr.discr_utils import sampling_function, point_collocation
    if mode == 'element':
        return space.element(f, **kw).asarray()
    func = sampling_function(f, space.domain, out_dtype=space.dtype)
    kind = mode.split('-')[0]
    if kind == 'mesh':
        x = space.meshgrid
    elif kind == 'dense':
        x = tuple(np.meshgrid(*space.grid.coord_vectors, indexing='ij', sparse=False))
    else:
        x = space.points().T
    shp = (space.size,) if kind == 'points' else space.shape
    if mode.endswith('-out'):
        out = alloc_out(shp, space.dtype, out_layout)
        r = point_collocation(func, x, out=out, **kw)
        assert r is out
        res = np.array(out)
    else:
        res = np.asarray(point_collocation(func, x, **kw))
    assert res.shape == shp, (res.shape, shp)
    return res.reshape(space.shape)
'''
exec(STYLE_SRC)


def style_cases(rng, tier):
    cs = C.CaseSet('styles', ['C15.Syntax', 'C15.Model', 'C15.Call', 'C15.Corr'], 'scheck', 'scase')
    reps = 2 if tier == 'quick' else 9
    for rep in range(reps):
        for si, style in enumerate(STYLES):
            for mi, mode in enumerate(STYLE_MODES):
                d = rng.choice([1, 2, 2, 3])
                dtype = rng.choice(['float64', 'float64', 'float32'])
                sp, spsrc = make_space(rng, d, dtype)
                ret = ['full', 'broadcast', 'scalar'][(rep + si + mi) % 3]
                coords = None if ret == 'full' else (rng.sample(range(d), rng.randint(0, d - 1)) if ret == 'broadcast' else [])
                ex = gen_ex(rng, d, rng.choice([1, 2]), coords)
                if ret == 'full':
                    for kk in range(d):
                        if kk not in ex.coords():
                            ex = Ex('add', ex, Ex('coord', kk))
                if ret == 'scalar' and style.startswith('inplace'):
                    pass                      # out[:] = constant is fine
                c = rng.choice([2.0, -1.0, 0.5]) if (style in TAKES_C and rng.random() < 0.7) else 1.0
                kw = {'c': c} if c != 1.0 else {}
                src = style_src(style, ex, d)
                out_layout = rng.choice(LAYOUTS) if mode.endswith('-out') else 'C'
                env = {}
                err = None
                with warnings.catch_warnings():
                    warnings.simplefilter('ignore')
                    try:
                        exec(src, env)
                        arr = sample_style(sp, env['f'], mode, kw, out_layout)
                    except Exception as e:
                        arr, err = np.zeros(0), '%s: %s' % (type(e).__name__, str(e)[:200])
                arr, err2 = _finite_or_empty(arr)
                flat = np.asarray(arr).ravel()
                exc = Ex('mul', ex, Ex('const', c))
                term = ('{| s_cvs := %s; s_re := %s; s_im := FConst 0; s_cplx := false; s_out_re := %s; s_out_im := [] |}'
                        % (C.qss([cv.tolist() for cv in sp.grid.coord_vectors]), exc.coq(),
                           C.qs([float(v) for v in flat.tolist()])))
                desc = {'family': 'styles', 'style': style, 'mode': mode, 'returns': ret, 'kwargs': kw,
                        'out_layout': out_layout, 'space': spsrc, 'callable': src, 'error': err or err2,
                        'scalar_expr': '(%s) * %r' % (ex.src(False, 'p'), c), 'd': d}
                cs.add(term, desc, ('style', style, mode, ret, c, spsrc, src, out_layout))
    return cs


def _style_snippet(desc):
    return ('import numpy as np, odl, warnings\nwarnings.simplefilter("ignore")\n' + STYLE_SRC + desc['space']
            + desc['callable'] + 'got = sample_style(space, f, %r, %r, %r)\n' % (desc['mode'], desc['kwargs'], desc['out_layout'])
            + 'expected = np.array([%s for p in space.points()]).reshape(space.shape).astype(space.dtype)\n'
              'observed = got\nok = got.shape == space.shape and bool(np.all(got == expected))\n' % desc['scalar_expr'])


# ---- low-precision spaces: the callable must see the float64 grid points, the cast happens AFTER evaluation
LOWP = ['float32', 'float32', 'complex64', 'float16']


def make_lowp_space(rng, d, dtype):
    """A float32 / complex64 / float16 space whose grid points are NOT representable in the space's dtype."""
    import odl
    shape = [rng.choice([3, 5, 6, 7][:4 if d == 1 else 2]) if rng.random() < 0.8 else rng.randint(1, 4) for _ in range(d)]
    if rng.random() < 0.6:
        lo = [rng.choice([0.0, 0.1, -0.3, 1.0]) for _ in range(d)]
        hi = [l + rng.choice([1.0, 0.7, 2.0]) for l in lo]
        sp = odl.uniform_discr(lo, hi, shape, dtype=dtype)
        src = 'space = odl.uniform_discr(%r, %r, %r, dtype=%r)\n' % (lo, hi, shape, dtype)
    else:
        cvs = []
        for n in shape:
            c = [rng.choice([0.1, 0.3, -0.7, 1.1])]
            for _ in range(n - 1):
                c.append(c[-1] + rng.choice([0.1, 0.3, 0.7, 1.3]))
            cvs.append(c)
        part = odl.nonuniform_partition(*cvs)
        sp = odl.DiscretizedSpace(part, odl.tensor_space(part.shape, dtype=dtype))
        src = ('part = odl.nonuniform_partition(*%r)\nspace = odl.DiscretizedSpace(part, '
               'odl.tensor_space(part.shape, dtype=%r))\n' % (cvs, dtype))
    return sp, src


def gen_sensitive_ex(rng, sp, depth):
    """Step functions whose thresholds sit AT a grid coordinate, at its rounding to the space's real dtype, or
    strictly between the two: exact small-integer values, but different ones if the callable were evaluated at
    the rounded coordinates."""
    rdt = np.dtype(sp.dtype).char.lower() if np.dtype(sp.dtype).kind == 'c' else np.dtype(sp.dtype).char
    rdt = {'f': 'float32', 'e': 'float16', 'd': 'float64'}.get(rdt, 'float32')
    k = rng.randrange(sp.ndim)
    c = sp.grid.coord_vectors[k]
    p = float(c[rng.randrange(len(c))])
    pr = float(np.array(p).astype(rdt))
    t = rng.choice([p, pr, (p + pr) / 2, float(np.nextafter(p, np.inf)), float(np.nextafter(p, -np.inf))])
    a, b = Ex('const', float(rng.randint(-4, 4))), Ex('const', float(rng.randint(-4, 4)))
    if depth > 0:
        a = gen_sensitive_ex(rng, sp, depth - 1) if rng.random() < 0.5 else a
        b = gen_sensitive_ex(rng, sp, depth - 1) if rng.random() < 0.5 else b
    return Ex('step', k, t, a, b)


def precision_cases(rng, tier):
    cs = C.CaseSet('precision', ['C15.Syntax', 'C15.Model', 'C15.Call', 'C15.Corr'], 'scheck', 'scase')
    n_cases = 120 if tier == 'quick' else 700
    flavours = ['vec', 'vectorize', 'inplace', 'dual', 'vectorize_otypes']
    modes = ['element', 'element', 'mesh-out', 'array', 'array-out', 'points', 'element-F']
    for it in range(n_cases):
        d = rng.choice([1, 1, 2, 3])
        dtype = LOWP[it % len(LOWP)]
        cplx = dtype == 'complex64'
        sp, spsrc = make_lowp_space(rng, d, dtype)
        ex_re = gen_sensitive_ex(rng, sp, rng.choice([0, 1, 2]))
        ex_im = gen_sensitive_ex(rng, sp, rng.choice([0, 1])) if cplx else Ex('const', 0.0)
        flavour = flavours[it % len(flavours)]
        mode = modes[(it // len(flavours)) % len(modes)]
        src = make_callable_src(flavour, ex_re, ex_im, cplx, d)
        if flavour == 'vectorize_otypes':
            src = src.replace("otypes=['complex128']", "otypes=['complex64']").replace("otypes=['float64']", "otypes=[%r]" % dtype)
        out_layout = rng.choice(LAYOUTS) if mode.endswith('-out') else 'C'
        env = {}
        err = None
        with warnings.catch_warnings():
            warnings.simplefilter('ignore')
            try:
                exec(src, env)
                arr = sample(sp, env['f'], mode, out_layout)
            except Exception as e:
                arr, err = np.zeros(0, dtype=dtype), '%s: %s' % (type(e).__name__, str(e)[:200])
        arr, err2 = _finite_or_empty(arr)
        flat = np.asarray(arr).ravel()
        cvs = [c.tolist() for c in sp.grid.coord_vectors]
        term = ('{| s_cvs := %s; s_re := %s; s_im := %s; s_cplx := %s; s_out_re := %s; s_out_im := %s |}'
                % (C.qss(cvs), ex_re.coq(), ex_im.coq(), C.b(cplx), C.qs([float(v) for v in flat.real.tolist()]),
                   C.qs([float(v) for v in flat.imag.tolist()]) if cplx else '[]'))
        desc = {'family': 'sampling', 'flavour': flavour, 'mode': mode, 'out_layout': out_layout, 'dtype': dtype,
                'space': spsrc, 'callable': src, 'shape': list(sp.shape), 'error': err or err2, 'd': d, 'precision': True,
                'scalar_expr': ex_re.src(False, 'p') + ((' + 1j * (%s)' % ex_im.src(False, 'p')) if cplx else '')}
        cs.add(term, desc, ('precision', flavour, mode, dtype, spsrc, src) if len(set(flat.tolist())) > 1 else None)
    return cs


def shape_cases(rng, tier):
    """Calling conventions by SHAPE: every factory called with np.zeros(shape) (all points at the first node)
    on a d-dimensional grid -> result shape, scalar, or ValueError.  Exhaustive over small shapes."""
    from odl.discr.discr_utils import nearest_interpolator, linear_interpolator, per_axis_interpolator
    cs = C.CaseSet('shapes', ['C15.Syntax', 'C15.Model', 'C15.Call', 'C15.Corr'], 'hcheck', 'hcase')
    sizes = [0, 1, 2, 3, 4] if tier == 'quick' else [0, 1, 2, 3, 4, 5, 7]
    for d in (1, 2, 3):
        shapes = [()] + [(a,) for a in sizes] + [(a, b) for a in sizes for b in sizes]
        shapes += [(a, b, c) for a in (1, 2, 3) for b in (1, 2) for c in (1, 2)]
        cv = [np.array([0.0, 1.0, 2.0])] * d
        f = np.arange(3.0 ** d).reshape((3,) * d)
        for k, shape in enumerate(shapes):
            mk = [lambda: nearest_interpolator(f, cv), lambda: linear_interpolator(f, cv),
                  lambda: per_axis_interpolator(f, cv, ['nearest', 'linear', 'nearest'][:d])][(k + d) % 3]
            with warnings.catch_warnings():
                warnings.simplefilter('ignore')
                try:
                    r = mk()(np.zeros(shape))
                    out = '(Some %s%%nat)' % C.nats(np.shape(r))
                    if np.shape(r) == () and isinstance(r, np.ndarray):
                        out = 'None'          # a 0-d array instead of a scalar would be a protocol error
                except ValueError:
                    out = 'None'
                except Exception as e:       # any other error class: make the case fail
                    out = '(Some [99; 99]%nat)'
            cs.add('{| h_d := %d; h_shape := %s%%nat; h_out := %s |}' % (d, C.nats(shape), out),
                   {'family': 'shapes', 'd': d, 'shape': list(shape), 'impl': out}, ('shape', d, shape))
    return cs


def correspondence(rng, tier):
    return ([interp_cases(rng, tier), sampling_cases(rng, tier), tensor_sampling_cases(rng, tier),
             history_cases(rng, tier), shape_cases(rng, tier), style_cases(rng, tier), precision_cases(rng, tier)]
            + resample_cases(rng, tier))


# ------------------------------------------------------------------- probes
# The property evaluated directly on the implementation against an independent textbook
# reference in exact rational arithmetic (no Coq model involved).
REF = r"""
import itertools, warnings
import numpy as np
from fractions import Fraction as F
warnings.simplefilter('ignore'); np.seterr(all='ignore')
import odl
from odl.discr.discr_utils import nearest_interpolator, linear_interpolator, per_axis_interpolator
from odl.discr.grid import sparse_meshgrid
def ref_axis(s, c, x):
    # [(node index, weight)]: the textbook rule on one axis
    c = [F(a) for a in c]; x = F(x); n = len(c)
    if s == 'nearest':
        d = [abs(x - a) for a in c]; m = min(d)
        return [(max(j for j in range(n) if d[j] == m), F(1))]     # closest node, right one on ties
    if x < c[0]:
        return [(0, 1 - (c[0] - x) / (c[1] - c[0]))]                # zero extension: one-cell linear decay
    if x > c[-1]:
        return [(n - 1, 1 - (x - c[-1]) / (c[-1] - c[-2]))]
    i = max(j for j in range(n - 1) if c[j] <= x)
    t = (x - c[i]) / (c[i + 1] - c[i])
    return [(i, 1 - t), (i + 1, t)]                                 # blend of the two surrounding nodes
def ref_interp(schemes, cvs, f, pt):
    re = im = F(0)
    for combo in itertools.product(*[ref_axis(s, c, x) for s, c, x in zip(schemes, cvs, pt)]):
        w = F(1)
        for _, wk in combo:
            w *= wk
        v = complex(f[tuple(j for j, _ in combo)])
        re += w * F(v.real); im += w * F(v.imag)
    return complex(float(re), float(im))
def make(kind, schemes, f, cvs):
    cv = [np.array(c, dtype=float) for c in cvs]
    if kind == 'nearest':
        return nearest_interpolator(f, cv)
    if kind == 'linear':
        return linear_interpolator(f, cv)
    return per_axis_interpolator(f, cv, schemes)
def call(itp, conv, pts, d):
    # evaluate at the points (list of d-tuples) with the given calling convention -> flat complex list
    if conv == 'single':
        return [complex(itp(p[0] if d == 1 else list(p))) for p in pts]
    if conv == 'array':
        return [complex(v) for v in np.asarray(itp(np.array(pts, dtype=float).T)).ravel()]
    raise ValueError(conv)
def close(a, b, tol):
    return all(abs(x - y) <= tol * (1 + abs(y)) for x, y in zip(a, b)) and len(a) == len(b)
"""


def _exec(snippet):
    env = {}
    try:
        exec(snippet, env)
        return bool(env.get('ok')), None
    except Exception as e:
        return False, '%s: %s' % (type(e).__name__, str(e)[:200])


def _probe(out, key, what, snippet):
    ok, err = _exec(snippet)
    out.append(C.Probe(ok, key, what, snippet, err))


def _rand_values(rng, shape, dtype):
    size = int(np.prod(shape))
    if dtype in CPLX:
        return '(np.array(%r).reshape(%r) + 1j * np.array(%r).reshape(%r)).astype(%r)' % (
            [float(rng.randint(-9, 9)) for _ in range(size)], tuple(shape),
            [float(rng.randint(-9, 9)) for _ in range(size)], tuple(shape), dtype)
    if dtype == 'str':
        return 'np.array(%r).reshape(%r)' % ([chr(97 + rng.randint(0, 25)) for _ in range(size)], tuple(shape))
    return 'np.array(%r, dtype=%r).reshape(%r)' % ([float(rng.randint(-9, 9)) for _ in range(size)], dtype,
                                                   tuple(shape))


def precision_interp_probes(rng, reps=1):
    """Interpolation-side precision: float32 / complex64 VALUES on grids with a large offset and tiny cells
    (2^20 + k * 2^-10: exact in float64, not in float32), evaluated between the nodes; oracle = the exact rational
    interpolation formula on the float64 coordinates, cast last (everything dyadic, so equality is exact)."""
    out = []
    for _ in range(reps):
        for kind in ('nearest', 'linear', 'per_axis'):
            for dtype in LOWPREC:
                d = rng.choice([1, 2, 3])
                shape = _probe_shape(rng, d)
                cvs = [gen_cvec_offset(rng, n) for n in shape]
                schemes = [rng.choice(['nearest', 'linear']) for _ in range(d)]
                if kind == 'per_axis' and 'linear' not in schemes:
                    schemes[rng.randrange(d)] = 'linear'
                eff = {'nearest': ['nearest'] * d, 'linear': ['linear'] * d, 'per_axis': schemes}[kind]
                pts = []
                for _k in range(8):
                    p = []
                    for c in cvs:
                        j = rng.randrange(len(c) - 1)
                        p.append(c[j] + (c[j + 1] - c[j]) * rng.choice([1, 3, 5, 6, 7, 9, 10, 11, 13, 15]) / 16.0)
                    pts.append(p)
                mesh = [sorted(set(p[k] for p in pts[:3])) for k in range(d)]
                snip = REF + ('cvs = %r\nf = %s\nschemes = %r\nitp = make(%r, schemes, f, cvs)\npts = %r\nmesh = %r\n'
                              % (cvs, _rand_values(rng, shape, dtype), eff, kind, pts, mesh))
                snip += ('expected = [complex(np.asarray(ref_interp(schemes, cvs, f, p)).astype(f.dtype)) for p in pts]\n'
                         'observed = call(itp, "array", pts, %d)\n'
                         'mp = list(itertools.product(*mesh))\n'
                         'm = [complex(v) for v in np.asarray(itp(sparse_meshgrid(*[np.array(x) for x in mesh]))).ravel()]\n'
                         'ok = (observed == expected and call(itp, "single", pts, %d) == expected\n'
                         '      and m == [complex(np.asarray(ref_interp(schemes, cvs, f, p)).astype(f.dtype)) for p in mp])\n'
                         % (d, d))
                _probe(out, 'precision-interp-%s-%s' % (kind if kind != 'per_axis' else 'peraxis', dtype),
                       '%s %s with %s values on a grid with offset 2^20 and cells ~2^-10 (%d-d): values between the nodes '
                       'equal the exact interpolation formula on the float64 coordinates' % (kind, eff, dtype, d), snip)
    return out


def _probe_shape(rng, d):
    maxn = {1: 6, 2: 5, 3: 4}[d]
    if d > 1 and rng.random() < 0.7:
        return rng.sample(range(2, maxn + 1), d)              # pairwise distinct axis lengths
    return [rng.randint(2, maxn) for _ in range(d)]


def probes(rng, tier):
    out = []
    reps = 1 if tier == 'quick' else 5
    kinds = [('nearest', None), ('linear', None), ('per_axis', 'mix')]

    # ---- 1. node reproduction: every factory, dtype, calling convention
    for _ in range(reps):
        for d in (1, 2, 3):
            for kind, _m in kinds:
                for dtype in ('float64', 'float32', 'complex128', 'int64', 'str'):
                    if dtype in ('int64', 'str') and kind != 'nearest':
                        continue          # arithmetic on the values: only 'nearest' is defined for these
                    shape = _probe_shape(rng, d)
                    cvs = [gen_cvec(rng, n) for n in shape]
                    schemes = [rng.choice(['nearest', 'linear']) for _ in range(d)]
                    for conv in ('single', 'array', 'mesh', 'dense'):
                        layout = 'C' if d == 1 else rng.choice(LAYOUTS)
                        snip = REF + LAYOUT_SRC + ('cvs = %r\nf = relayout(%s, %r)\nitp = make(%r, %r, f, cvs)\n' % (
                            cvs, _rand_values(rng, shape, dtype), layout, kind, schemes))
                        if conv == 'dense':
                            snip += ('got = np.asarray(itp(tuple(np.meshgrid(*[np.array(c) for c in cvs], indexing="ij", '
                                     'sparse=False))))\n'
                                     'observed = got.tolist(); expected = f.tolist()\n'
                                     'ok = got.shape == f.shape and bool(np.all(got == f))\n')
                        elif conv == 'mesh':
                            snip += ('got = np.asarray(itp(sparse_meshgrid(*[np.array(c) for c in cvs])))\n'
                                     'observed = got.tolist(); expected = f.tolist()\n'
                                     'ok = got.shape == f.shape and bool(np.all(got == f))\n')
                        elif dtype == 'str':
                            snip += ('pts = list(itertools.product(*cvs))\n'
                                     'got = [itp(p[0] if len(cvs) == 1 else list(p)) for p in pts] if %r == "single" '
                                     'else list(itp(np.array(pts).T))\n'
                                     'observed = [str(g) for g in got]; expected = f.ravel().tolist()\n'
                                     'ok = observed == expected\n' % conv)
                        else:
                            snip += ('pts = list(itertools.product(*cvs))\n'
                                     'observed = call(itp, %r, pts, %d); expected = [complex(v) for v in f.ravel()]\n'
                                     'ok = observed == expected\n' % (conv, d))
                        _probe(out, 'node-%s-%s-%s' % (kind, dtype, conv),
                               '%s interpolator (%s values, %d-d, %s input, %s memory layout) reproduces the node '
                               'values exactly' % (kind, dtype, d, conv, layout), snip)

    # ---- 2. values anywhere (inside, ties, outside) against the textbook rule; conventions agree
    npts = 6 if tier == 'quick' else 10
    for _ in range(3 * reps):
        for d in (1, 2, 3):
            for kind, _m in kinds:
                dtype = rng.choice(['float64', 'float64', 'float32', 'complex128', 'complex64', 'float32'])
                shape = _probe_shape(rng, d)
                layout = 'C' if d == 1 else rng.choice(LAYOUTS[1:] + ['C'])
                near = rng.choice(NEAR_KINDS) if (dtype not in LOWPREC and rng.random() < 0.4) else None
                if near is None and rng.random() < (0.6 if dtype in LOWPREC else 0.15):
                    cvs = [gen_cvec_offset(rng, n) for n in shape]     # 2^20 + tiny dyadic cells
                    coord = lambda c: gen_coord(rng, c)[0]
                elif near:
                    cvs = [gen_cvec_near(rng, n, *near) for n in shape]
                    coord = lambda c: gen_coord_near(rng, c, near[0])[0]
                else:
                    cvs = [gen_cvec(rng, n) for n in shape]
                    coord = lambda c: gen_coord(rng, c)[0]
                schemes = [rng.choice(['nearest', 'linear']) for _ in range(d)]
                eff = {'nearest': ['nearest'] * d, 'linear': ['linear'] * d, 'per_axis': schemes}[kind]
                pts = [[coord(c) for c in cvs] for _ in range(npts)]
                mesh = [sorted(set(coord(c) for _ in range(rng.randint(2, 3)))) for c in cvs]
                if len(mesh[0]) == 1 and d > 1:
                    mesh[0].append(mesh[0][0] + 0.125 * (cvs[0][1] - cvs[0][0]))
                snip = REF + LAYOUT_SRC + (
                    'cvs = %r\nf = relayout(%s, %r)\nschemes = %r\nitp = make(%r, schemes, f, cvs)\npts = %r\nmesh = %r\n'
                    'OUT_LAYOUT = %r\n'
                    % (cvs, _rand_values(rng, shape, dtype), layout, eff, kind, pts, mesh, rng.choice(LAYOUTS)))
                snip += ('expected = [ref_interp(schemes, cvs, f, p) for p in pts]\n'
                         'a = call(itp, "array", pts, %d); b = call(itp, "single", pts, %d)\n'
                         'mp = list(itertools.product(*mesh))\n'
                         'm = [complex(v) for v in np.asarray(itp(sparse_meshgrid(*[np.array(x) for x in mesh]))).ravel()]\n'
                         'o = alloc_out((len(pts),), f.dtype, "strided"); r = itp(np.array(pts).T, out=o)\n'
                         'mo = alloc_out(tuple(len(x) for x in mesh), f.dtype, OUT_LAYOUT)\n'
                         'mr = itp(sparse_meshgrid(*[np.array(x) for x in mesh]), out=mo)\n'
                         'D = tuple(np.meshgrid(*[np.array(x, dtype=float) for x in mesh], indexing="ij", sparse=False))\n'
                         'dn = np.asarray(itp(D)); do = alloc_out(tuple(len(x) for x in mesh), f.dtype, OUT_LAYOUT)\n'
                         'dr = itp(D, out=do)\n'
                         'dense_ok = (dn.shape == tuple(len(x) for x in mesh) and [complex(v) for v in dn.ravel()] == m\n'
                         '            and dr is do and [complex(v) for v in do.ravel()] == m)\n'
                         'observed = a\n'
                         'ok = (close(a, expected, 1e-12) and a == b and r is o and [complex(v) for v in o] == a\n'
                         '      and close(m, [ref_interp(schemes, cvs, f, p) for p in mp], 1e-12)\n'
                         '      and m == call(itp, "array", mp, %d) and mr is mo and [complex(v) for v in mo.ravel()] == m\n'
                         '      and dense_ok)\n'
                         % (d, d, d))
                _probe(out, 'textbook-%s-d%d' % (kind if kind != 'per_axis' else 'peraxis', d),
                       '%s %s (%s, %d-d, %s memory layout): closest node (right on ties) / multilinear blend / one-cell '
                       'decay outside, identical (values and shape) for single points, point arrays, sparse and dense mesh grids, with and without out=%s'
                       % (kind, eff, dtype, d, layout,
                          '; almost-uniform / rescaled nodes (eps, scale) = %r' % (near,) if near else ''), snip)

    # ---- 2b. precision of the evaluation points for low-precision values
    out.extend(precision_interp_probes(rng, 1 if tier == 'quick' else 4))

    # ---- 3. linear interpolation is exact for affine functions inside the hull
    for _ in range(3 * reps):
        for d in (1, 2, 3):
            dtype = rng.choice(['float64', 'float32', 'complex128'])
            shape = _probe_shape(rng, d)
            cvs = [gen_cvec(rng, n) for n in shape]
            coef = [float(rng.randint(-4, 4)) for _ in range(d + 1)]
            pts = []
            for _k in range(npts):
                pts.append([c[0] + (c[-1] - c[0]) * rng.randint(0, 32) / 32.0 for c in cvs])
            snip = REF + LAYOUT_SRC + ('cvs = %r\ncoef = %r\npts = %r\nLAYOUT = %r\n'
                                       % (cvs, coef, pts, 'C' if d == 1 else rng.choice(LAYOUTS)))
            snip += ('aff = lambda p: coef[0] + sum(a * x for a, x in zip(coef[1:], p))\n'
                     'f = np.array([aff(p) for p in itertools.product(*cvs)]).reshape(%r).astype(%r)\n'
                     'if f.dtype.kind == "c": f = f * (1 + 2j)\n'
                     'f = relayout(f, LAYOUT)\n'
                     'sc = (1 + 2j) if f.dtype.kind == "c" else 1\n'
                     'expected = [complex(aff(p) * sc) for p in pts]\n'
                     'observed = call(linear_interpolator(f, [np.array(c) for c in cvs]), "array", pts, %d)\n'
                     'ok = close(observed, expected, 1e-12)\n' % (tuple(shape), dtype, d))
            _probe(out, 'affine-exact-d%d-%s' % (d, dtype),
                   'linear_interpolator reproduces an affine function everywhere inside the hull (%d-d, %s)' % (d, dtype),
                   snip)

    # ---- 4. sampling: every callable flavour gives the callable's values at the grid points
    for it in range(len(FLAVOURS) * 3 * reps):
        flavour = FLAVOURS[it % len(FLAVOURS)]
        d = 1 if flavour in ('plain1d', 'ufunc', 'loop1d') else rng.choice([1, 2, 3])
        dtype = rng.choice(['float64', 'float32', 'complex128'])
        if flavour == 'ufunc' and dtype == 'complex128':
            dtype = 'float64'
        cplx = dtype == 'complex128'
        sp, spsrc = make_space(rng, d, dtype)
        coords = None
        if flavour == 'broadcast':
            coords = rng.sample(range(d), rng.randint(0, max(0, d - 1)))
        if flavour == 'const':
            coords = []
        if flavour == 'ufunc':
            ex_re, ex_im = Ex('sub', Ex('const', 0.0), Ex('coord', 0)), Ex('const', 0.0)
        else:
            ex_re = gen_ex(rng, d, rng.choice([1, 2, 3]), coords)
            ex_im = gen_ex(rng, d, rng.choice([0, 1, 2]), coords) if cplx else Ex('const', 0.0)
        src = make_callable_src(flavour, ex_re, ex_im, cplx, d)
        # expected values from a plain Python loop over the grid points with the scalar form of the expression
        scalar = ex_re.src(False, 'p') + ((' + 1j * (%s)' % ex_im.src(False, 'p')) if cplx else '')
        mode = MODES[(it // len(FLAVOURS)) % len(MODES)] if it >= len(FLAVOURS) else 'element'
        out_layout = rng.choice(LAYOUTS[1:]) if mode.endswith('-out') else 'C'
        snip = ('import numpy as np, odl, warnings\nwarnings.simplefilter("ignore")\n' + SAMPLE_SRC + spsrc + src +
                'got = sample(space, f, %r, %r)\n' % (mode, out_layout) +
                'expected = np.array([%s for p in space.points()]).reshape(space.shape).astype(space.dtype)\n'
                'observed = got\nok = got.shape == space.shape and got.dtype == space.dtype and bool(np.all(got == expected))\n'
                % scalar)
        _probe(out, 'sampling-1d-ufunc-inplace-valueerror' if (flavour == 'ufunc' and mode.endswith('-out'))
               else 'sampling-%s-%s-%s' % (flavour, dtype, mode),
               'sampling a %s callable (%s, %d-d) via %s (out layout %s) gives the callable\'s values at the grid '
               'points' % (flavour, dtype, d, mode, out_layout), snip)

    # ---- 5. operators built on the interpolators (elements in C and Fortran memory order)
    for _ in range(2 * reps):
        for d in (1, 2, 3):
            shape = _probe_shape(rng, d)
            mixes = [['nearest'] * d, ['linear'] * d] + ([[rng.choice(['nearest', 'linear']) for _k in range(d)]
                                                           for _m in range(2)] if d > 1 else [])
            schemes = rng.choice(mixes)
            interp = schemes[0] if len(set(schemes)) == 1 and rng.random() < 0.5 else schemes
            order = None if d == 1 else rng.choice(['C', 'F', 'F'])
            vals = [float(rng.randint(-9, 9)) for _ in range(int(np.prod(shape)))]
            base = (REF + 'space = odl.uniform_discr(%r, %r, %r)\nx = space.element(np.array(%r).reshape(%r), order=%r)\n'
                    % ([0.0] * d, [float(n) for n in shape], shape, vals, tuple(shape), order))
            _probe(out, 'resampling-same-grid-identity',
                   'Resampling(space, space, %r) is the identity (node reproduction; element order %r)' % (interp, order),
                   base + 'observed = odl.Resampling(space, space, %r)(x).asarray()\nexpected = x.asarray()\n'
                          'ok = bool(np.all(observed == expected))\n' % (interp,))
            _probe(out, 'linear-deform-zero-displacement',
                   'linear_deform with zero displacement returns the template (%r, element order %r)' % (interp, order),
                   base + 'from odl.deform import linear_deform\n'
                          'observed = linear_deform(x, space.tangent_bundle.zero(), interp=%r)\nexpected = x.asarray()\n'
                          'ok = bool(np.all(observed == expected))\n' % (interp,))
            _probe(out, 'resampling-out-argument-valueerror',
                   'Resampling(...)(x, out=y) evaluates in place like every operator',
                   base + 'op = odl.Resampling(space, space, %r)\ny = space.element(np.full(%r, np.nan))\n'
                          'op(x, out=y)\nobserved = y.asarray(); expected = x.asarray()\n'
                          'ok = bool(np.all(observed == expected))\n' % (interp, tuple(shape)))
            # onto another grid / with a displacement: against the textbook reference
            shape2 = [rng.choice([m for m in (1, 2, 3, 4, 6, 8) if not (k == 0 and m == 1 and d > 1)]) for k in range(d)]
            _probe(out, 'resampling-textbook-%s' % ('order-%s' % order if order else '1d'),
                   'Resampling onto shape %r with %r (element order %r) equals the textbook interpolation of the '
                   'element at the target grid points' % (shape2, interp, order),
                   base + 'ran = odl.uniform_discr(%r, %r, %r)\n'
                          'observed = [complex(v) for v in odl.Resampling(space, ran, %r)(x).asarray().ravel()]\n'
                          'cvs = [c.tolist() for c in space.grid.coord_vectors]\n'
                          'expected = [ref_interp(%r, cvs, x.asarray(), p) for p in ran.points()]\n'
                          'ok = close(observed, expected, 1e-12)\n'
                   % ([0.0] * d, [float(n) for n in shape], shape2, interp, schemes))
            disp = [[rng.choice([0.0, 0.25, -0.25, 0.5, -0.5, 1.0, -1.5]) for _k in range(int(np.prod(shape)))]
                    for _a in range(d)]
            _probe(out, 'linear-deform-textbook-%s' % ('order-%s' % order if order else '1d'),
                   'linear_deform (%r, template order %r) equals the textbook interpolation of the template at the '
                   'displaced points' % (interp, order),
                   base + 'from odl.deform import linear_deform\n'
                          'disp = space.tangent_bundle.element([np.array(v).reshape(%r) for v in %r])\n'
                          'observed = [complex(v) for v in np.asarray(linear_deform(x, disp, interp=%r)).ravel()]\n'
                          'cvs = [c.tolist() for c in space.grid.coord_vectors]\n'
                          'pts = (space.points() + np.stack([np.array(v) for v in %r], axis=1)).tolist()\n'
                          'expected = [ref_interp(%r, cvs, x.asarray(), p) for p in pts]\n'
                          'ok = close(observed, expected, 1e-12)\n'
                   % (tuple(shape), disp, interp, disp, schemes))

    # ---- 6. the recorded defects, probed on their own inputs
    for kind in ('nearest', 'linear', 'per_axis'):
        for d in (2, 3):
            shape = [rng.randint(2, 3) for _ in range(d)]
            cvs = [gen_cvec(rng, n) for n in shape]
            mesh = [[c[0]] if k == 0 else [c[0], c[-1]] for k, c in enumerate(cvs)]
            snip = REF + ('cvs = %r\nf = %s\nschemes = %r\nitp = make(%r, schemes, f, cvs)\nmesh = %r\n'
                          % (cvs, _rand_values(rng, shape, 'float64'), ['linear'] * d, kind, mesh))
            snip += ('observed = np.asarray(itp(sparse_meshgrid(*[np.array(x) for x in mesh])))\n'
                     'expected = f[tuple(np.ix_(*[[0] if k == 0 else [0, -1] for k in range(%d)]))]\n'
                     'ok = observed.shape == expected.shape and bool(np.all(observed == expected))\n' % d)
            _probe(out, 'interp-meshgrid-first-axis-singleton',
                   '%s interpolator on a mesh grid with one point along the first axis (%d-d)' % (kind, d), snip)
    for sch in ('nearest', ['nearest', 'nearest']):
        d = 1 if sch == 'nearest' else 2
        shape = [3] * d
        snip = REF + ('cvs = %r\nf = np.arange(%d).reshape(%r)\n' % ([[0.0, 1.0, 2.0]] * d, 3 ** d, tuple(shape)))
        snip += ('itp = per_axis_interpolator(f, [np.array(c) for c in cvs], %r)\n'
                 'pts = list(itertools.product(*cvs))\nobserved = call(itp, "array", pts, %d)\n'
                 'expected = [complex(v) for v in f.ravel()]\nok = observed == expected\n' % (sch, d))
        _probe(out, 'per-axis-interp-integer-values-typeerror',
               'per_axis_interpolator(..., %r) on integer values returns the closest node value' % (sch,), snip)
    for d in (1, 2):
        shape = [1] + [3] * (d - 1)
        cvs = [[0.5]] + [[0.0, 1.0, 2.0]] * (d - 1)
        snip = REF + ('cvs = %r\nf = np.arange(1.0, %d.0).reshape(%r)\n' % (cvs, int(np.prod(shape)) + 1, tuple(shape)))
        snip += ('itp = linear_interpolator(f, [np.array(c) for c in cvs])\n'
                 'pts = list(itertools.product(*cvs))\nobserved = call(itp, "array", pts, %d)\n'
                 'expected = [complex(v) for v in f.ravel()]\nok = observed == expected\n' % d)
        _probe(out, 'linear-interp-single-node-axis-nonfinite',
               'linear_interpolator on a grid with a single node along an axis (%d-d) reproduces the node values' % d,
               snip)
    # ---- 6b. the vectorisation decorator called directly (scalar, 1-d array, (d, N) array, out=)
    snip = ('import numpy as np, odl\n'
            '@odl.util.vectorize\ndef f(x):\n    return 2.0 * x[0] if x[0] < 1.0 else x[0] - 3.0\n'
            '@odl.util.vectorize\ndef g(x):\n    return x[0] + 10.0 * x[1] if x[0] < x[1] else 0.0\n'
            'ref_f = lambda t: 2.0 * t if t < 1.0 else t - 3.0\n'
            'xs = [0.5, 1.0, 2.5, -1.0]; P = np.array([[0.0, 2.0, 1.0], [1.0, 0.5, 1.0]])\n'
            'o = np.full(3, np.nan); g(P, out=o)\n'
            'observed = [float(f(0.5)), np.asarray(f(np.array(xs))).tolist(), np.asarray(g(P)).tolist(), o.tolist()]\n'
            'expected = [1.0, [ref_f(t) for t in xs], [10.0, 0.0, 0.0], [10.0, 0.0, 0.0]]\n'
            'ok = observed == expected\n')
    _probe(out, 'vectorize-direct-call', 'odl.util.vectorize-wrapped functions called with a scalar, a 1-d array, '
           'a (d, N) array and out= give the point-wise values', snip)

    # ---- 6c. call histories on one vectorize-wrapped callable: earlier calls must not influence later ones
    for _ in range(6 * reps):
        d = rng.choice([1, 2, 2, 3])
        variant, src, coq = gen_history(rng, d)
        _probe(out, 'vectorize-history-%s' % variant,
               'one odl.util.vectorize-wrapped callable used %d times in a row (%s): every result equals the '
               'callable evaluated point by point' % (len(coq), variant), _history_snippet(src, coq))

    # ---- 6d. a callable returning a Python int at the first grid point and floats elsewhere
    snip = ('import numpy as np, odl\n'
            '@odl.util.vectorize\ndef f(x):\n    return 0 if x[0] < 0.5 else x[0]\n'
            'space = odl.uniform_discr(0, 1, 4)\nobserved = space.element(f).asarray().tolist()\n'
            'expected = [float(0 if p < 0.5 else p) for p in space.points().ravel()]\nok = observed == expected\n')
    _probe(out, 'vectorize-int-first-result-truncates',
           'space.element of a vectorize-wrapped callable whose first grid value is a Python int', snip)

    # ---- 6e. calling conventions by input shape against the documented table
    for d in (1, 2, 3):
        snip = REF + (
            'd = %d\ncv = [np.array([0.0, 1.0, 2.0])] * d\nf = np.arange(3.0 ** d).reshape((3,) * d)\n'
            'def table(shape):\n'
            '    # documented: d = 1: () scalar, (n,) and (1, n) arrays; d > 1: (d,) scalar, (d, n) array; else ValueError\n'
            '    if d == 1:\n'
            '        return () if shape == () else ((shape[-1],) if len(shape) == 1 or (len(shape) == 2 and shape[0] == 1) else None)\n'
            '    if shape == (d,): return ()\n'
            '    return (shape[1],) if len(shape) == 2 and shape[0] == d else None\n'
            'def observed_shape(itp, shape):\n'
            '    try:\n        r = itp(np.zeros(shape))\n    except ValueError:\n        return None\n'
            '    return np.shape(r)\n'
            'sizes = [0, 1, 2, 3, 4]\n'
            'shapes = [()] + [(a,) for a in sizes] + [(a, b) for a in sizes for b in sizes] + [(d, 2, 2), (1, 1, 1)]\n'
            'bad = [(name, sh, observed_shape(itp, sh), table(sh)) for name, itp in\n'
            '       (("nearest", nearest_interpolator(f, cv)), ("linear", linear_interpolator(f, cv)),\n'
            '        ("per_axis", per_axis_interpolator(f, cv, ["linear", "nearest", "linear"][:d])))\n'
            '       for sh in shapes if observed_shape(itp, sh) != table(sh)]\n'
            'observed = bad; expected = []\nok = not bad\n' % d)
        _probe(out, 'conventions-by-shape-d%d' % d,
               'interpolators on a %d-d grid accept exactly the documented input shapes and return a scalar / one value '
               'per point' % d, snip)

    # ---- 6f. the result of sampling never shares memory with the mesh / grid / point array, and modifying a
    #          sampled element in place does not change later samplings on the same space
    for d in (1, 2, 3):
        for body in ('x[0]', 'x' if d == 1 else 'x[%d]' % (d - 1), 'x[0] + 0.0'):
            snip = ('import numpy as np, odl, warnings\nwarnings.simplefilter("ignore")\n'
                    'from odl.discr.discr_utils import sampling_function, point_collocation\n'
                    'space = odl.uniform_discr(%r, %r, %r)\nf = lambda x: %s\n'
                    'grid0 = [c.copy() for c in space.grid.coord_vectors]\n'
                    'e = space.element(f); before = e.asarray().copy()\n'
                    'func = sampling_function(f, space.domain, out_dtype=float)\n'
                    'pts = space.points().T; r_mesh = point_collocation(func, space.meshgrid); r_pts = func(pts)\n'
                    'shared = [np.shares_memory(e.asarray(), a) for a in list(space.grid.coord_vectors) + list(space.meshgrid)]\n'
                    'shared += [np.shares_memory(r_mesh, a) for a in space.meshgrid] + [np.shares_memory(r_pts, pts)]\n'
                    'e *= 0; r_mesh *= 0; r_pts *= 0          # in-place use of the results\n'
                    'again = space.element(f).asarray()\n'
                    'observed = (shared, again.tolist()); expected = ([False] * len(shared), before.tolist())\n'
                    'ok = (not any(shared) and bool(np.all(again == before))\n'
                    '      and all(bool(np.all(a == b)) for a, b in zip(grid0, space.grid.coord_vectors)))\n'
                    % ([0.0] * d, [1.0] * d, [4, 3, 2][:d], body))
            _probe(out, 'sampling-result-aliases-grid' if body != 'x[0] + 0.0' else 'sampling-result-owns-memory-d%d' % d,
                   'sampling `lambda x: %s` (%d-d): the result shares no memory with mesh / grid / points, and changing '
                   'it in place leaves the grid and later samplings unchanged' % (body, d), snip)
    # functools.partial objects as callables
    snip = ('import numpy as np, odl, functools\n'
            'def g(x, c):\n    return (x[0] + 10 * x[1]) * c\n'
            'space = odl.uniform_discr([0, 0], [1, 1], (2, 2))\n'
            'observed = space.element(functools.partial(g, c=2.0)).asarray()\n'
            'expected = np.array([g(p, 2.0) for p in space.points()]).reshape(space.shape)\n'
            'ok = bool(np.all(observed == expected))\n')
    _probe(out, 'sampling-functools-partial-typeerror', 'space.element(functools.partial(g, c=2.0)) samples the callable', snip)

    # ---- 6g. low-precision spaces: the callable is evaluated at the float64 grid points, the cast to the
    #          space's dtype happens afterwards (oracle: f(float64 points).astype(dtype), exact equality)
    bodies = [('identity', 'x[0]'), ('last-coordinate', 'x[-1] + 0 * x[0]'), ('hf-mod', '(1e5 * x[0]) % 1'),
              ('hf-sin', 'np.sin(1e5 * x[0])'), ('equals-node', 'np.where(x[0] == P, 1.0, 0.0) + 0 * x[-1]'),
              ('below-node', 'np.where(x[0] < P, 1.0, 0.0)'), ('sum', 'sum(x)')]
    for it in range(len(bodies) * 2 * reps):
        name, body = bodies[it % len(bodies)]
        dtype = LOWP[(it // len(bodies) + it) % len(LOWP)]
        d = rng.choice([1, 2, 3])
        sp, spsrc = make_lowp_space(rng, d, dtype)
        mode = rng.choice(['element', 'element', 'mesh', 'mesh-out', 'dense', 'points', 'points-out'])
        pnode = float(sp.grid.coord_vectors[0][rng.randrange(sp.shape[0])])
        snip = ('import numpy as np, odl, warnings\nwarnings.simplefilter("ignore")\n' + STYLE_SRC + spsrc +
                'P = %r\nseen = []\n'
                'def f(x):\n'
                '    seen.append(str(np.asarray(x[0]).dtype))      # the coordinates must arrive in double precision\n'
                '    return %s\n'
                'got = sample_style(space, f, %r, {}, "C")\n'
                'pts = space.points()\n'
                'expected = np.broadcast_to((lambda x: %s)(list(pts.T)), (len(pts),)).reshape(space.shape).astype(space.dtype)\n'
                'observed = (got.tolist(), sorted(set(seen)))\n'
                'ok = got.dtype == space.dtype and bool(np.all(got == expected)) and set(seen) == {"float64"}\n'
                % (pnode, body, mode, body))
        _probe(out, 'precision-%s-%s' % (name, dtype),
               '%s on a %s space (%d-d, via %s): values are f at the float64 grid points cast afterwards, and the callable '
               'sees float64 coordinates' % (name, dtype, d, mode), snip)
    # the decorator path (point by point) and the coordinates themselves handed back
    for dtype in ('float32', 'complex64', 'float16'):
        snip = ('import numpy as np, odl, warnings\nwarnings.simplefilter("ignore")\n'
                'space = odl.uniform_discr([0.0, 0.1], [1.0, 0.8], (3, 7), dtype=%r)\nseen = []\n'
                '@odl.util.vectorize\ndef f(x):\n    seen.append(str(np.asarray(x).dtype)); return float((1e5 * x[0]) %% 1 + x[1])\n'
                'got = space.element(f).asarray()\n'
                'expected = np.array([(1e5 * p[0]) %% 1 + p[1] for p in space.points()]).reshape(space.shape).astype(space.dtype)\n'
                'back = [space.element(lambda x, k=k: x[k] + 0 * x[0] + 0 * x[1]).asarray() for k in range(2)]\n'
                'mesh_ok = all(bool(np.all(b == np.broadcast_to(m, space.shape).astype(space.dtype)))\n'
                '              for b, m in zip(back, space.meshgrid))\n'
                'observed = (got.tolist(), sorted(set(seen)))\n'
                'ok = bool(np.all(got == expected)) and set(seen) == {"float64"} and mesh_ok\n' % dtype)
        _probe(out, 'precision-vectorize-%s' % dtype,
               'vectorize-wrapped high-frequency callable and the coordinate arrays handed back on a %s space' % dtype, snip)

    # ---- 7. vector-valued callables through sampling_function (shaped out_dtype)
    for form, body in (('tuple-mixed', '(x[0] + 0.0 * x[1], 2.0, x[0] * x[1])'),
                       ('tuple-equal-partial', '(x[1], 2.0 * x[1], x[1] + 1.0)')):
        snip = ('import numpy as np, odl, warnings\nwarnings.simplefilter("ignore")\n'
                'from odl.discr.discr_utils import sampling_function, point_collocation\n'
                'space = odl.uniform_discr([0, 0], [2, 3], (2, 3))\n'
                'func = sampling_function(lambda x: %s, space.domain, out_dtype=(float, (3,)))\n'
                'observed = np.asarray(point_collocation(func, space.meshgrid))\n'
                'expected = np.array([[(lambda x: %s)(p)[i] for p in space.points()] for i in range(3)]).reshape(3, 2, 3)\n'
                'ok = observed.shape == expected.shape and bool(np.all(observed == expected))\n' % (body, body))
        _probe(out, 'sampling-tensor-equal-partial-shapes-valueerror' if form == 'tuple-equal-partial'
               else 'sampling-tensor-tuple-broadcast',
               'vector-valued callable (%s) sampled on a mesh gives its values at the grid points' % form, snip)
    return out


def _sampling_snippet(desc):
    return ('import numpy as np, odl, warnings\nwarnings.simplefilter("ignore")\n' + SAMPLE_SRC + desc['space']
            + desc['callable'] + 'got = sample(space, f, %r, %r)\n' % (desc['mode'], desc.get('out_layout', 'C')) +
            'expected = np.array([%s for p in space.points()]).reshape(space.shape).astype(space.dtype)\n'
            'observed = got\nok = got.shape == space.shape and got.dtype == space.dtype and '
            'bool(np.all(got == expected))\n' % desc['scalar_expr'])


def _interp_snippet(desc):
    d = len(desc['cvs'])
    kind = desc['kind']
    eff = {'nearest': ['nearest'] * d, 'linear': ['linear'] * d, 'per_axis': desc['schemes']}[kind]
    if desc['dtype'] in CPLX:
        f = '(np.array(%r).reshape(%r) + 1j * np.array(%r).reshape(%r)).astype(%r)' % (
            desc['values'], tuple(len(c) for c in desc['cvs']), desc['imag'], tuple(len(c) for c in desc['cvs']),
            desc['dtype'])
    elif desc['dtype'] == 'str':
        return None
    else:
        f = 'np.array(%r, dtype=%r).reshape(%r)' % (desc['values'], desc['dtype'], tuple(len(c) for c in desc['cvs']))
    snip = (REF + LAYOUT_SRC + 'cvs = %r\nf = relayout(%s, %r)\nschemes = %r\nitp = make(%r, schemes, f, cvs)\n'
            % (desc['cvs'], f, desc.get('layout', 'C'), eff, kind))
    if desc['conv'] in ('mesh', 'dense'):
        snip += ('mesh = %r\npts = list(itertools.product(*mesh))\n'
                 'X = %s\n'
                 'observed = [complex(v) for v in np.asarray(itp(X)).ravel()]\n'
                 % (desc['mesh'], 'sparse_meshgrid(*[np.array(x) for x in mesh])' if desc['conv'] == 'mesh' else
                    'tuple(np.meshgrid(*[np.array(x, dtype=float) for x in mesh], indexing="ij", sparse=False))'))
    else:
        snip += 'pts = %r\nobserved = call(itp, %r, pts, %d)\n' % (desc['points'], desc['conv'], d)
    snip += 'expected = [ref_interp(schemes, cvs, f, p) for p in pts]\nok = close(observed, expected, 1e-12)\n'
    return snip


def _resample_snippet(desc):
    lo, hi, shape = desc['domain']
    return REF + ('dom = odl.uniform_discr(%r, %r, %r); ran = odl.uniform_discr(%r, %r, %r)\n'
                  'x = dom.element(lambda x: %s, order=%r)\n'
                  'observed = [complex(v) for v in odl.Resampling(dom, ran, %r)(x).asarray().ravel()]\n'
                  'cvs = [c.tolist() for c in dom.grid.coord_vectors]\n'
                  'expected = [ref_interp(%r, cvs, x.asarray(), p) for p in ran.points()]\n'
                  'ok = close(observed, expected, 1e-12)\n'
                  % (lo, hi, shape, lo, hi, desc['range_shape'], desc['callable'], desc.get('order'), desc['interp'],
                     desc['schemes']))


def _deform_snippet(desc):
    lo, hi, shape = desc['domain']
    return REF + ('from odl.deform import linear_deform\n'
                  'dom = odl.uniform_discr(%r, %r, %r)\nt = dom.element(np.array(%r).reshape(%r), order=%r)\n'
                  'disp = dom.tangent_bundle.element([np.array(v).reshape(%r) for v in %r])\n'
                  'observed = [complex(v) for v in np.asarray(linear_deform(t, disp, interp=%r)).ravel()]\n'
                  'cvs = [c.tolist() for c in dom.grid.coord_vectors]\n'
                  'expected = [ref_interp(%r, cvs, t.asarray(), p) for p in %r]\n'
                  'ok = close(observed, expected, 1e-12)\n'
                  % (lo, hi, shape, desc['values'], tuple(shape), desc.get('order'), tuple(shape), desc['displacement'],
                     desc['interp'], desc['schemes'], desc['points']))


def search(rng, broken):
    """A correspondence case failed: evaluate the PROPERTY (textbook reference, no model) on that very
    input and return a failing probe with a replay, if it fails."""
    if any(k in ('translator', 'proof') for k, _w, _d in broken):
        # the regenerated model is unusable: evaluate the property directly, precision battery first
        for p in precision_interp_probes(rng, 2):
            if not p.ok:
                return p
    for kind, what, desc in broken:
        if kind != 'correspondence' or not isinstance(desc, dict):
            continue
        snip = None
        if desc.get('family') == 'sampling':
            snip = _sampling_snippet(desc)
            key = 'sampling-%s-%s-%s' % (desc['flavour'], desc['dtype'], desc['mode'])
        elif desc.get('family') == 'styles':
            snip = _style_snippet(desc)
            key = 'sampling-style-%s-%s' % (desc['style'], desc['mode'])
        elif desc.get('family') == 'history':
            snip = desc.get('replay')
            if snip is None:          # stored with the first step of the same history
                for kind2, what2, desc2 in broken:
                    if isinstance(desc2, dict) and desc2.get('source') == desc['source'] and desc2.get('replay'):
                        snip = desc2['replay']
            if snip is None:
                snip = HISTORY_SRC + desc['source'] + 'observed = run_history(f, steps)\nok = False\n'
            key = 'vectorize-history-%s' % desc['variant']
        elif desc.get('family') == 'resample':
            snip = _resample_snippet(desc)
            key = 'resampling-textbook'
        elif desc.get('via_deform'):
            snip = _deform_snippet(desc)
            key = 'linear-deform-textbook'
        elif 'kind' in desc and 'cvs' in desc:
            snip = _interp_snippet(desc)
            key = 'textbook-%s-d%d' % (desc['kind'].replace('_', ''), len(desc['cvs']))
        if snip is None:
            continue
        ok, err = _exec(snip)
        if not ok:
            return C.Probe(False, key, 'failing correspondence case %s replayed against the textbook reference' % what,
                           snip, err)
    return None


LEVEL_TEXT = ('Proof (partial: callable wrapping is validated, not proved). Over weight/edge rules, index clamping, '
              'normalised distance and nearest pick REGENERATED from discr_utils.py on every run, Coq proves for every '
              'dimension d, all axis lengths, all strictly ascending (uniform or not) coordinate vectors and all real '
              'evaluation points: node values are reproduced exactly by every per-axis scheme mix; nearest returns the '
              'closest node, the right one on ties, and nearest_interpolator = per_axis all-nearest; the 2^d corner sum '
              'is the tensor product of per-axis blends and equals the textbook multilinear / mixed blend inside the '
              'hull; linear interpolation is exact on affine functions and every mix reproduces constants and never '
              'overshoots; the documented one-cell linear decay outside the hull; linearity in the values (complex); '
              'mesh-grid evaluation = point-wise evaluation in C order; collocation gives the function at the nodes, '
              'sampling then interpolating returns the function at nodes (affine: everywhere in the hull); resampling '
              'onto the same grid is the identity; the code equals the complete textbook reference at every real '
              'point; the input-shape conventions equal the documented table for every shape. One full statement is '
              'proved FALSE of the faithful model (single-node linear axis -> nan, open finding); two defects of the '
              'pinned snapshot (mesh grid with one point on the first axis rejected; per-axis nearest on integers '
              'raises) were repaired in /repo: the positive statements are live theorems about the current code, the '
              'refutations remain as statements about the explicit old variant.')
LEVEL_NOTE = ('Tie: translator (fail-closed) for the table-like helpers, the factory dispatch, the out checks and the '
              'input-shape conventions + in-Coq correspondence (1700 quick / 13000 thorough cases at Q, tolerance 0 on '
              'dyadic inputs) for searchsorted/indexing/corner loop/conventions/error classes, sampling entry points, '
              'call histories, memory layouts, Resampling and linear_deform. The run at Q is PROVED to be the rational '
              'restriction of the model at R (C15/Transfer.v, no side condition). Trusted: the translator, NumPy '
              'searchsorted/fancy indexing/broadcasting semantics as modelled, exact arithmetic (rounding, e.g. complex '
              'division by reciprocal near ties, out of scope). Axioms: classical reals + funext as printed by Print '
              'Assumptions.')
TECHNIQUE = ('Coq proofs by induction on the axis list and on node lists (real-closed-field arithmetic per axis) over '
             'source-regenerated weight rules + in-Coq differential correspondence')
